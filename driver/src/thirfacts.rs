//! THIR dump: the typed expression tree of every body, as nested JSON.
//! `Scope` nodes are elided (they are pure wrappers); every other node is kept.

use crate::json::J;
use crate::{def_id_str, def_str, macro_is_local, macro_name, span_json, ty_str};
use rustc_hir::def::DefKind;
use rustc_hir::def_id::{DefId, LocalDefId};
use rustc_middle::thir::{self, ExprId, ExprKind, Pat, PatKind, StmtKind, Thir};
use rustc_middle::ty::{self, GenericArgsRef, Ty, TyCtxt};

struct Cx<'a, 'tcx> {
    tcx: TyCtxt<'tcx>,
    thir: &'a Thir<'tcx>,
    owner: LocalDefId,
}

pub fn var_name(tcx: TyCtxt<'_>, id: thir::LocalVarId) -> String {
    format!("{}#{}", tcx.hir_name(id.0), id.0.local_id.as_u32())
}

pub fn callee_json<'tcx>(
    tcx: TyCtxt<'tcx>,
    owner: LocalDefId,
    did: DefId,
    args: GenericArgsRef<'tcx>,
) -> J {
    let mut j = J::obj();
    j.set("path", J::s(def_str(tcx, did)));
    j.set("local", J::Bool(did.is_local()));
    let gargs: Vec<J> = args
        .iter()
        .filter_map(|a| a.as_type().map(|t| J::s(ty_str(t))))
        .collect();
    j.set("gargs", J::Arr(gargs));
    let cargs: Vec<J> = args
        .iter()
        .filter_map(|a| a.as_const().map(|c| J::s(crate::pp!(format!("{}", c)))))
        .collect();
    if !cargs.is_empty() {
        j.set("cargs", J::Arr(cargs));
    }
    // the trait (if the callee is a trait method) and the resolved implementation
    if matches!(tcx.def_kind(did), DefKind::Fn | DefKind::AssocFn) {
        if let Some(tr) = tcx.trait_of_assoc(did) {
            j.set("trait", J::s(def_str(tcx, tr)));
        }
        let env = ty::TypingEnv::post_analysis(tcx, owner.to_def_id());
        let args_e = tcx.erase_and_anonymize_regions(args);
        if let Ok(Some(inst)) = ty::Instance::try_resolve(tcx, env, did, args_e) {
            let rd = inst.def_id();
            j.set("resolved", J::s(def_str(tcx, rd)));
            j.set("resolved_id", J::s(def_id_str(tcx, rd)));
            j.set("resolved_local", J::Bool(rd.is_local()));
            j.set("resolved_kind", J::s(instance_kind(&inst.def)));
        }
    }
    j
}

fn instance_kind(k: &ty::InstanceKind<'_>) -> String {
    let s = format!("{:?}", k);
    s.split('(').next().unwrap_or("").to_string()
}

fn fn_def_of<'tcx>(t: Ty<'tcx>) -> Option<(DefId, GenericArgsRef<'tcx>)> {
    match t.kind() {
        ty::FnDef(did, args) => Some((*did, args.skip_norm_wip_args())),
        _ => None,
    }
}

trait SkipArgs<'tcx> {
    fn skip_norm_wip_args(self) -> GenericArgsRef<'tcx>;
}
impl<'tcx> SkipArgs<'tcx> for GenericArgsRef<'tcx> {
    fn skip_norm_wip_args(self) -> GenericArgsRef<'tcx> {
        self
    }
}

impl<'a, 'tcx> Cx<'a, 'tcx> {
    fn base(&self, kind: &str, e: &thir::Expr<'tcx>) -> J {
        let mut j = J::obj();
        j.set("k", J::s(kind));
        j.set("ty", J::s(ty_str(e.ty)));
        j.set("sp", span_json(self.tcx, e.span));
        if e.span.from_expansion() {
            j.set("x", J::Bool(true));
            if let Some(m) = macro_name(e.span) {
                j.set("mac", J::s(m));
            }
            if macro_is_local(e.span) {
                j.set("mac_local", J::Bool(true));
            }
        }
        j
    }

    fn opt(&self, e: Option<ExprId>) -> J {
        match e {
            Some(e) => self.expr(e),
            None => J::Null,
        }
    }

    fn list(&self, es: &[ExprId]) -> J {
        J::Arr(es.iter().map(|e| self.expr(*e)).collect())
    }

    fn block(&self, b: thir::BlockId) -> J {
        let blk = &self.thir[b];
        let mut j = J::obj();
        j.set("k", J::s("Block"));
        j.set("sp", span_json(self.tcx, blk.span));
        if blk.span.from_expansion() {
            j.set("x", J::Bool(true));
            if let Some(m) = macro_name(blk.span) {
                j.set("mac", J::s(m));
            }
            if macro_is_local(blk.span) {
                j.set("mac_local", J::Bool(true));
            }
        }
        j.set(
            "safety",
            J::s(match blk.safety_mode {
                thir::BlockSafety::Safe => "safe",
                thir::BlockSafety::BuiltinUnsafe => "builtin_unsafe",
                thir::BlockSafety::ExplicitUnsafe(_) => "explicit_unsafe",
            }),
        );
        let mut stmts = Vec::new();
        for s in blk.stmts.iter() {
            let st = &self.thir[*s];
            match &st.kind {
                StmtKind::Expr { expr, .. } => {
                    stmts.push(J::obj().with("s", J::s("expr")).with("e", self.expr(*expr)));
                }
                StmtKind::Let { pattern, initializer, else_block, span, .. } => {
                    let mut l = J::obj();
                    l.set("s", J::s("let"));
                    l.set("sp", span_json(self.tcx, *span));
                    l.set("pat", self.pat(pattern));
                    l.set("init", self.opt(*initializer));
                    if let Some(eb) = else_block {
                        l.set("else", self.block(*eb));
                    }
                    stmts.push(l);
                }
            }
        }
        j.set("stmts", J::Arr(stmts));
        j.set("e", self.opt(blk.expr));
        j
    }

    fn pat(&self, p: &Pat<'tcx>) -> J {
        let mut j = J::obj();
        j.set("ty", J::s(ty_str(p.ty)));
        match &p.kind {
            PatKind::Missing => {
                j.set("k", J::s("Missing"));
            }
            PatKind::Wild => {
                j.set("k", J::s("Wild"));
            }
            PatKind::Binding { name, mode, var, subpattern, .. } => {
                j.set("k", J::s("Binding"));
                j.set("name", J::s(name.to_string()));
                j.set("v", J::s(var_name(self.tcx, *var)));
                j.set("mode", J::s(format!("{:?}", mode)));
                if let Some(sp) = subpattern {
                    j.set("sub", self.pat(sp));
                }
            }
            PatKind::Variant { adt_def, variant_index, subpatterns, .. } => {
                j.set("k", J::s("Variant"));
                j.set("adt", J::s(def_str(self.tcx, adt_def.did())));
                let v = adt_def.variant(*variant_index);
                j.set("variant", J::s(v.name.to_string()));
                let subs: Vec<J> = subpatterns
                    .iter()
                    .map(|fp| {
                        J::obj()
                            .with("field", J::s(v.fields[fp.field].name.to_string()))
                            .with("idx", J::Int(fp.field.index() as i64))
                            .with("pat", self.pat(&fp.pattern))
                    })
                    .collect();
                j.set("subs", J::Arr(subs));
            }
            PatKind::Leaf { subpatterns } => {
                j.set("k", J::s("Leaf"));
                let adt = match p.ty.kind() {
                    ty::Adt(def, _) => {
                        j.set("adt", J::s(def_str(self.tcx, def.did())));
                        Some(*def)
                    }
                    _ => None,
                };
                let subs: Vec<J> = subpatterns
                    .iter()
                    .map(|fp| {
                        let name = match adt {
                            Some(def) if def.is_struct() => {
                                def.non_enum_variant().fields[fp.field].name.to_string()
                            }
                            _ => format!("{}", fp.field.index()),
                        };
                        J::obj()
                            .with("field", J::s(name))
                            .with("idx", J::Int(fp.field.index() as i64))
                            .with("pat", self.pat(&fp.pattern))
                    })
                    .collect();
                j.set("subs", J::Arr(subs));
            }
            PatKind::Deref { subpattern, .. } => {
                j.set("k", J::s("Deref"));
                j.set("sub", self.pat(subpattern));
            }
            PatKind::DerefPattern { subpattern, .. } => {
                j.set("k", J::s("DerefPattern"));
                j.set("sub", self.pat(subpattern));
            }
            PatKind::Constant { value } => {
                j.set("k", J::s("Constant"));
                j.set("value", J::s(crate::pp!(format!("{}", value))));
            }
            PatKind::Range(r) => {
                j.set("k", J::s("Range"));
                j.set("text", J::s(format!("{:?}", r)));
            }
            PatKind::Slice { prefix, slice, suffix } | PatKind::Array { prefix, slice, suffix } => {
                j.set(
                    "k",
                    J::s(if matches!(p.kind, PatKind::Slice { .. }) { "Slice" } else { "Array" }),
                );
                j.set("prefix", J::Arr(prefix.iter().map(|x| self.pat(x)).collect()));
                j.set(
                    "slice",
                    match slice {
                        Some(s) => self.pat(s),
                        None => J::Null,
                    },
                );
                j.set("suffix", J::Arr(suffix.iter().map(|x| self.pat(x)).collect()));
            }
            PatKind::Or { pats } => {
                j.set("k", J::s("Or"));
                j.set("pats", J::Arr(pats.iter().map(|x| self.pat(x)).collect()));
            }
            PatKind::Guard { subpattern, condition } => {
                j.set("k", J::s("Guard"));
                j.set("sub", self.pat(subpattern));
                j.set("cond", self.expr(*condition));
            }
            PatKind::Never => {
                j.set("k", J::s("Never"));
            }
            PatKind::Error(_) => {
                j.set("k", J::s("Error"));
            }
        }
        j
    }

    fn expr(&self, id: ExprId) -> J {
        let e = &self.thir[id];
        match &e.kind {
            ExprKind::Scope { value, .. } => self.expr(*value),
            ExprKind::If { cond, then, else_opt, .. } => self
                .base("If", e)
                .with("cond", self.expr(*cond))
                .with("then", self.expr(*then))
                .with("else", self.opt(*else_opt)),
            ExprKind::Call { ty, fun, args, from_hir_call, .. } => {
                let mut j = self.base("Call", e);
                if let Some((did, gargs)) = fn_def_of(*ty) {
                    j.set("callee", callee_json(self.tcx, self.owner, did, gargs));
                    if !matches!(self.thir[*fun].kind, ExprKind::ZstLiteral { .. } | ExprKind::Scope { .. }) {
                        j.set("fun", self.expr(*fun));
                    }
                } else {
                    j.set("fun_ty", J::s(ty_str(*ty)));
                    j.set("fun", self.expr(*fun));
                }
                j.set("args", self.list(args));
                j.set("hir_call", J::Bool(*from_hir_call));
                j
            }
            ExprKind::ByUse { expr, .. } => self.base("ByUse", e).with("e", self.expr(*expr)),
            ExprKind::Deref { arg } => self.base("Deref", e).with("e", self.expr(*arg)),
            ExprKind::Binary { op, lhs, rhs } => self
                .base("Binary", e)
                .with("op", J::s(format!("{:?}", op)))
                .with("l", self.expr(*lhs))
                .with("r", self.expr(*rhs)),
            ExprKind::LogicalOp { op, lhs, rhs } => self
                .base("LogicalOp", e)
                .with("op", J::s(format!("{:?}", op)))
                .with("l", self.expr(*lhs))
                .with("r", self.expr(*rhs)),
            ExprKind::Unary { op, arg } => self
                .base("Unary", e)
                .with("op", J::s(format!("{:?}", op)))
                .with("e", self.expr(*arg)),
            ExprKind::Cast { source } => self.base("Cast", e).with("e", self.expr(*source)),
            ExprKind::Use { source } => self.base("Use", e).with("e", self.expr(*source)),
            ExprKind::NeverToAny { source } => {
                self.base("NeverToAny", e).with("e", self.expr(*source))
            }
            ExprKind::PointerCoercion { cast, source, .. } => self
                .base("PointerCoercion", e)
                .with("cast", J::s(format!("{:?}", cast)))
                .with("e", self.expr(*source)),
            ExprKind::Loop { body } => self.base("Loop", e).with("body", self.expr(*body)),
            ExprKind::Let { expr, pat } => self
                .base("Let", e)
                .with("e", self.expr(*expr))
                .with("pat", self.pat(pat)),
            ExprKind::Match { scrutinee, arms, match_source } => {
                let mut j = self.base("Match", e);
                j.set("scrutinee", self.expr(*scrutinee));
                j.set("source", J::s(format!("{:?}", match_source)));
                let arms_j: Vec<J> = arms
                    .iter()
                    .map(|a| {
                        let arm = &self.thir[*a];
                        J::obj()
                            .with("pat", self.pat(&arm.pattern))
                            .with("guard", self.opt(arm.guard))
                            .with("body", self.expr(arm.body))
                            .with("sp", span_json(self.tcx, arm.span))
                    })
                    .collect();
                j.set("arms", J::Arr(arms_j));
                j
            }
            ExprKind::Block { block } => {
                let mut j = self.block(*block);
                j.set("ty", J::s(ty_str(e.ty)));
                j
            }
            ExprKind::Assign { lhs, rhs } => self
                .base("Assign", e)
                .with("l", self.expr(*lhs))
                .with("r", self.expr(*rhs)),
            ExprKind::AssignOp { op, lhs, rhs } => self
                .base("AssignOp", e)
                .with("op", J::s(format!("{:?}", op)))
                .with("l", self.expr(*lhs))
                .with("r", self.expr(*rhs)),
            ExprKind::Field { lhs, variant_index, name } => {
                let mut j = self.base("Field", e);
                let lt = self.thir[*lhs].ty;
                match lt.kind() {
                    ty::Adt(def, _) => {
                        j.set("adt", J::s(def_str(self.tcx, def.did())));
                        j.set("adt_local", J::Bool(def.did().is_local()));
                        let v = def.variant(*variant_index);
                        j.set("name", J::s(v.fields[*name].name.to_string()));
                    }
                    _ => {
                        j.set("name", J::s(format!("{}", name.index())));
                    }
                }
                j.set("idx", J::Int(name.index() as i64));
                j.set("e", self.expr(*lhs));
                j
            }
            ExprKind::Index { lhs, index } => self
                .base("Index", e)
                .with("e", self.expr(*lhs))
                .with("i", self.expr(*index)),
            ExprKind::VarRef { id } => {
                self.base("VarRef", e).with("v", J::s(var_name(self.tcx, *id)))
            }
            ExprKind::UpvarRef { var_hir_id, closure_def_id } => self
                .base("UpvarRef", e)
                .with("v", J::s(var_name(self.tcx, *var_hir_id)))
                .with("closure", J::s(def_str(self.tcx, *closure_def_id))),
            ExprKind::Borrow { borrow_kind, arg } => {
                let kind = match borrow_kind {
                    rustc_middle::mir::BorrowKind::Shared => "shared",
                    rustc_middle::mir::BorrowKind::Fake(_) => "fake",
                    rustc_middle::mir::BorrowKind::Mut { .. } => "mut",
                };
                self.base("Borrow", e).with("bk", J::s(kind)).with("e", self.expr(*arg))
            }
            ExprKind::RawBorrow { mutability, arg } => self
                .base("RawBorrow", e)
                .with("mut", J::Bool(mutability.is_mut()))
                .with("e", self.expr(*arg)),
            ExprKind::Break { value, .. } => self.base("Break", e).with("e", self.opt(*value)),
            ExprKind::Continue { .. } => self.base("Continue", e),
            ExprKind::Return { value } => self.base("Return", e).with("e", self.opt(*value)),
            ExprKind::Become { value } => self.base("Become", e).with("e", self.expr(*value)),
            ExprKind::ConstBlock { did, .. } => {
                self.base("ConstBlock", e).with("def", J::s(def_str(self.tcx, *did)))
            }
            ExprKind::Repeat { value, count } => self
                .base("Repeat", e)
                .with("e", self.expr(*value))
                .with("count", J::s(crate::pp!(format!("{}", count)))),
            ExprKind::Array { fields } => self.base("Array", e).with("fields", self.list(fields)),
            ExprKind::Tuple { fields } => self.base("Tuple", e).with("fields", self.list(fields)),
            ExprKind::Adt(adt) => {
                let mut j = self.base("Adt", e);
                j.set("adt", J::s(def_str(self.tcx, adt.adt_def.did())));
                j.set("adt_local", J::Bool(adt.adt_def.did().is_local()));
                let v = adt.adt_def.variant(adt.variant_index);
                j.set("variant", J::s(v.name.to_string()));
                let fields: Vec<J> = adt
                    .fields
                    .iter()
                    .map(|f| {
                        J::obj()
                            .with("name", J::s(v.fields[f.name].name.to_string()))
                            .with("e", self.expr(f.expr))
                    })
                    .collect();
                j.set("fields", J::Arr(fields));
                match &adt.base {
                    thir::AdtExprBase::None => {}
                    thir::AdtExprBase::Base(fru) => {
                        j.set("base", self.expr(fru.base));
                    }
                    thir::AdtExprBase::DefaultFields(_) => {
                        j.set("base_default", J::Bool(true));
                    }
                }
                j
            }
            ExprKind::PlaceTypeAscription { source, .. } => {
                self.base("PlaceTypeAscription", e).with("e", self.expr(*source))
            }
            ExprKind::ValueTypeAscription { source, .. } => {
                self.base("ValueTypeAscription", e).with("e", self.expr(*source))
            }
            ExprKind::PlaceUnwrapUnsafeBinder { source }
            | ExprKind::ValueUnwrapUnsafeBinder { source }
            | ExprKind::WrapUnsafeBinder { source } => {
                self.base("UnsafeBinder", e).with("e", self.expr(*source))
            }
            ExprKind::Closure(c) => {
                let mut j = self.base("Closure", e);
                j.set("closure", J::s(def_str(self.tcx, c.closure_id.to_def_id())));
                j.set("upvars", self.list(&c.upvars));
                j
            }
            ExprKind::Literal { lit, neg } => {
                let mut j = self.base("Literal", e);
                j.set("lit", J::s(format!("{}", lit.node)));
                j.set("neg", J::Bool(*neg));
                j
            }
            ExprKind::NonHirLiteral { lit, .. } => {
                self.base("NonHirLiteral", e).with("lit", J::s(format!("{:?}", lit)))
            }
            ExprKind::ZstLiteral { .. } => {
                if let Some((did, gargs)) = fn_def_of(e.ty) {
                    // a function item used as a value (e.g. `Float::add` passed as an argument)
                    let mut j = J::obj();
                    j.set("k", J::s("FnItem"));
                    j.set("sp", span_json(self.tcx, e.span));
                    j.set("fn", callee_json(self.tcx, self.owner, did, gargs));
                    j
                } else {
                    self.base("ZstLiteral", e)
                }
            }
            ExprKind::NamedConst { def_id, .. } => {
                self.base("NamedConst", e).with("def", J::s(def_str(self.tcx, *def_id)))
            }
            ExprKind::ConstParam { def_id, .. } => {
                self.base("ConstParam", e).with("def", J::s(def_str(self.tcx, *def_id)))
            }
            ExprKind::StaticRef { def_id, .. } => {
                self.base("StaticRef", e).with("def", J::s(def_str(self.tcx, *def_id)))
            }
            ExprKind::InlineAsm(_) => self.base("InlineAsm", e),
            ExprKind::ThreadLocalRef(did) => {
                self.base("ThreadLocalRef", e).with("def", J::s(def_str(self.tcx, *did)))
            }
            ExprKind::Yield { value } => self.base("Yield", e).with("e", self.expr(*value)),
            ExprKind::LoopMatch { .. } => self.base("LoopMatch", e),
            ExprKind::ConstContinue { .. } => self.base("ConstContinue", e),
        }
    }
}

pub fn body_thir(tcx: TyCtxt<'_>, ldid: LocalDefId) -> J {
    let Ok((steal, root)) = tcx.thir_body(ldid) else {
        return J::Null;
    };
    let thir = steal.borrow();
    let cx = Cx { tcx, thir: &thir, owner: ldid };
    let mut j = J::obj();
    let params: Vec<J> = thir
        .params
        .iter()
        .map(|p| {
            let mut pj = J::obj();
            pj.set("ty", J::s(ty_str(p.ty)));
            pj.set(
                "pat",
                match &p.pat {
                    Some(pat) => cx.pat(pat),
                    None => J::Null,
                },
            );
            if let Some(k) = p.self_kind {
                pj.set("self", J::s(format!("{:?}", k)));
            }
            pj
        })
        .collect();
    j.set("params", J::Arr(params));
    j.set("root", cx.expr(root));
    j
}

pub fn captures(tcx: TyCtxt<'_>, closure: LocalDefId) -> J {
    let mut out = Vec::new();
    for cap in tcx.closure_captures(closure) {
        let mut j = J::obj();
        j.set("var", J::s(cap.var_ident.to_string()));
        if let rustc_middle::hir::place::PlaceBase::Upvar(up) = cap.place.base {
            j.set(
                "v",
                J::s(format!("{}#{}", tcx.hir_name(up.var_path.hir_id), up.var_path.hir_id.local_id.as_u32())),
            );
        }
        j.set("place", J::s(cap.to_string(tcx)));
        j.set("ty", J::s(ty_str(cap.place.ty())));
        j.set("base_ty", J::s(ty_str(cap.place.base_ty)));
        j.set(
            "mode",
            J::s(match cap.info.capture_kind {
                ty::UpvarCapture::ByValue => "by_value".to_string(),
                ty::UpvarCapture::ByUse => "by_use".to_string(),
                ty::UpvarCapture::ByRef(k) => format!("by_ref:{:?}", k),
            }),
        );
        let mut w = crate::tyfacts::Walk::new(tcx, true);
        w.walk(cap.place.ty());
        j.set("walk", w.json());
        out.push(j);
    }
    J::Arr(out)
}
