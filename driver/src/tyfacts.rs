//! ADT facts: fields, visibility, destructors and explicit type walks (interior
//! mutability, raw pointers, which ADTs are reachable through owning containers).

use crate::json::J;
use crate::{def_str, span_file, span_json, ty_str};
use rustc_hir::def::DefKind;
use rustc_middle::ty::{self, Ty, TyCtxt};

/// Containers whose *payload* is what matters: the walk descends into their type
/// arguments and not into their private fields (an `Rc`'s reference counts are `Cell`s,
/// but they are not the data a handle shows).
const TRANSPARENT: &[&str] = &[
    "alloc::rc::Rc",
    "alloc::sync::Arc",
    "alloc::boxed::Box",
    "alloc::vec::Vec",
    "alloc::collections::vec_deque::VecDeque",
    "core::option::Option",
    "core::result::Result",
    "std::collections::hash::map::HashMap",
    "alloc::collections::btree::map::BTreeMap",
];

pub struct Walk<'tcx> {
    tcx: TyCtxt<'tcx>,
    stop_at_local: bool,
    pub visited: Vec<String>,
    pub cells: Vec<String>,
    pub raw_ptrs: Vec<String>,
    pub opaque: Vec<String>,
    pub local_adts: Vec<String>,
    pub shared_ptrs: Vec<String>,
    pub collections: Vec<String>,
    pub mut_refs: Vec<String>,
    pub weak_ptrs: Vec<String>,
    depth_guard: usize,
}

impl<'tcx> Walk<'tcx> {
    pub fn new(tcx: TyCtxt<'tcx>, stop_at_local: bool) -> Self {
        Walk {
            tcx,
            stop_at_local,
            visited: vec![],
            cells: vec![],
            raw_ptrs: vec![],
            opaque: vec![],
            local_adts: vec![],
            shared_ptrs: vec![],
            collections: vec![],
            mut_refs: vec![],
            weak_ptrs: vec![],
            depth_guard: 0,
        }
    }

    pub fn walk(&mut self, t: Ty<'tcx>) {
        let s = ty_str(t);
        if self.visited.contains(&s) {
            return;
        }
        self.visited.push(s.clone());
        self.depth_guard += 1;
        if self.depth_guard > 64 {
            self.opaque.push(format!("depth-limit at {}", s));
            self.depth_guard -= 1;
            return;
        }
        match t.kind() {
            ty::Bool | ty::Char | ty::Int(_) | ty::Uint(_) | ty::Float(_) | ty::Str | ty::Never => {}
            ty::Adt(def, args) => {
                let path = def_str(self.tcx, def.did());
                if path == "alloc::rc::Weak" || path == "alloc::sync::Weak" {
                    // a weak pointer is not an owning edge: recorded, not followed
                    self.weak_ptrs.push(s.clone());
                } else if def.is_unsafe_cell() {
                    self.cells.push(s.clone());
                    for a in args.types() {
                        self.walk(a);
                    }
                } else if TRANSPARENT.contains(&path.as_str()) {
                    if path.ends_with("::Rc") || path.ends_with("::Arc") {
                        self.shared_ptrs.push(s.clone());
                    }
                    if path.ends_with("::Vec")
                        || path.ends_with("::VecDeque")
                        || path.ends_with("::HashMap")
                        || path.ends_with("::BTreeMap")
                    {
                        self.collections.push(s.clone());
                    }
                    for a in args.types() {
                        self.walk(a);
                    }
                } else {
                    if def.did().is_local() {
                        self.local_adts.push(path.clone());
                        if self.stop_at_local {
                            self.depth_guard -= 1;
                            return;
                        }
                    }
                    for v in def.variants() {
                        for f in v.fields.iter() {
                            let ft = f.ty(self.tcx, args);
                            self.walk(ft);
                        }
                    }
                }
            }
            ty::Ref(_, inner, m) => {
                if m.is_mut() {
                    self.mut_refs.push(s.clone());
                }
                self.walk(*inner);
            }
            ty::RawPtr(inner, _) => {
                self.raw_ptrs.push(s.clone());
                self.walk(*inner);
            }
            ty::Array(inner, _) | ty::Slice(inner) => self.walk(*inner),
            ty::Tuple(ts) => {
                for x in ts.iter() {
                    self.walk(x);
                }
            }
            ty::Dynamic(..) | ty::FnPtr(..) | ty::FnDef(..) | ty::Closure(..) | ty::Param(_)
            | ty::Alias(..) | ty::Foreign(_) => {
                self.opaque.push(s.clone());
            }
            _ => {
                self.opaque.push(s.clone());
            }
        }
        self.depth_guard -= 1;
    }

    pub fn json(&self) -> J {
        let l = |v: &Vec<String>| J::Arr(v.iter().map(|s| J::s(s.clone())).collect());
        J::obj()
            .with("visited", l(&self.visited))
            .with("cells", l(&self.cells))
            .with("raw_ptrs", l(&self.raw_ptrs))
            .with("opaque", l(&self.opaque))
            .with("local_adts", l(&self.local_adts))
            .with("shared_ptrs", l(&self.shared_ptrs))
            .with("collections", l(&self.collections))
            .with("mut_refs", l(&self.mut_refs))
            .with("weak_ptrs", l(&self.weak_ptrs))
    }
}

/// Structural description of a type (one level of ADT path + args, recursively).
pub fn ty_tree<'tcx>(tcx: TyCtxt<'tcx>, t: Ty<'tcx>, depth: usize) -> J {
    if depth > 12 {
        return J::s(ty_str(t));
    }
    match t.kind() {
        ty::Adt(def, args) => {
            let mut j = J::obj();
            j.set("adt", J::s(def_str(tcx, def.did())));
            j.set("local", J::Bool(def.did().is_local()));
            j.set("args", J::Arr(args.types().map(|a| ty_tree(tcx, a, depth + 1)).collect()));
            j
        }
        ty::Ref(_, inner, m) => J::obj()
            .with("ref", ty_tree(tcx, *inner, depth + 1))
            .with("mut", J::Bool(m.is_mut())),
        ty::RawPtr(inner, m) => J::obj()
            .with("ptr", ty_tree(tcx, *inner, depth + 1))
            .with("mut", J::Bool(m.is_mut())),
        ty::Slice(inner) => J::obj().with("slice", ty_tree(tcx, *inner, depth + 1)),
        ty::Array(inner, _) => J::obj().with("array", ty_tree(tcx, *inner, depth + 1)),
        ty::Tuple(ts) => {
            J::obj().with("tuple", J::Arr(ts.iter().map(|x| ty_tree(tcx, x, depth + 1)).collect()))
        }
        _ => J::s(ty_str(t)),
    }
}

pub fn adts(tcx: TyCtxt<'_>) -> J {
    let mut out = Vec::new();
    for id in tcx.hir_free_items() {
        let item = tcx.hir_item(id);
        let did = item.owner_id.to_def_id();
        if !matches!(tcx.def_kind(did), DefKind::Struct | DefKind::Enum | DefKind::Union) {
            continue;
        }
        let def = tcx.adt_def(did);
        let mut j = J::obj();
        j.set("def", J::s(def_str(tcx, did)));
        j.set("kind", J::s(format!("{:?}", def.adt_kind())));
        j.set("file", J::s(span_file(tcx, item.span)));
        j.set("sp", span_json(tcx, item.span));
        j.set("is_pub", J::Bool(tcx.visibility(did).is_public()));
        j.set("has_drop", J::Bool(tcx.adt_destructor(did).is_some()));
        let self_ty = tcx.type_of(did).instantiate_identity().skip_norm_wip();
        let env = ty::TypingEnv::post_analysis(tcx, did);
        j.set("is_copy", J::Bool(tcx.type_is_copy_modulo_regions(env, self_ty)));
        j.set("is_freeze_shallow", J::Bool(self_ty.is_freeze(tcx, env)));
        let mut variants = Vec::new();
        for v in def.variants() {
            let mut vj = J::obj();
            vj.set("name", J::s(v.name.to_string()));
            let mut fields = Vec::new();
            for f in v.fields.iter() {
                let ft = tcx.type_of(f.did).instantiate_identity().skip_norm_wip();
                let mut fj = J::obj();
                fj.set("name", J::s(f.name.to_string()));
                fj.set("ty", J::s(ty_str(ft)));
                fj.set("tree", ty_tree(tcx, ft, 0));
                fj.set("vis", J::s(format!("{:?}", f.vis)));
                fj.set("is_pub", J::Bool(f.vis.is_public()));
                fj.set("sp", span_json(tcx, tcx.def_span(f.did)));
                let mut w = Walk::new(tcx, false);
                w.walk(ft);
                fj.set("walk_full", w.json());
                let mut w2 = Walk::new(tcx, true);
                w2.walk(ft);
                fj.set("walk_stop_local", w2.json());
                fields.push(fj);
            }
            vj.set("fields", J::Arr(fields));
            variants.push(vj);
        }
        j.set("variants", J::Arr(variants));
        out.push(j);
    }
    J::Arr(out)
}
