//! MIR summary of a body: locals, block graph, calls (resolved), aggregates, every place
//! use that projects through a field of a crate-local ADT, and a printable text of each
//! statement/terminator (used by the configuration-invariance rule after normalisation).

use crate::json::J;
use crate::thirfacts::callee_json;
use crate::{def_str, span_json, ty_str};
use rustc_hir::def_id::LocalDefId;
use rustc_middle::mir::visit::{PlaceContext, Visitor};
use rustc_middle::mir::{
    self, AggregateKind, Body, Location, Operand, Place, ProjectionElem, Rvalue, StatementKind,
    TerminatorKind,
};
use rustc_middle::ty::{self, TyCtxt};

struct PlaceCollector<'a, 'tcx> {
    tcx: TyCtxt<'tcx>,
    body: &'a Body<'tcx>,
    out: Vec<J>,
}

fn place_json<'tcx>(tcx: TyCtxt<'tcx>, body: &Body<'tcx>, place: &Place<'tcx>) -> (J, bool) {
    // returns (projection description, touches-a-local-adt-field)
    let mut proj = Vec::new();
    let mut touches = false;
    let mut t = mir::PlaceTy::from_ty(body.local_decls[place.local].ty);
    for elem in place.projection.iter() {
        match elem {
            ProjectionElem::Deref => proj.push(J::s("*")),
            ProjectionElem::Field(idx, _) => {
                let mut fj = J::obj();
                match t.ty.kind() {
                    ty::Adt(def, _) => {
                        let v = match t.variant_index {
                            Some(vi) => def.variant(vi),
                            None => def.non_enum_variant(),
                        };
                        fj.set("field", J::s(v.fields[idx].name.to_string()));
                        fj.set("adt", J::s(def_str(tcx, def.did())));
                        fj.set("local", J::Bool(def.did().is_local()));
                        if def.did().is_local() {
                            touches = true;
                        }
                    }
                    ty::Closure(..) => {
                        fj.set("field", J::s(format!("upvar{}", idx.index())));
                        fj.set("adt", J::s("<closure>"));
                    }
                    _ => {
                        fj.set("field", J::s(format!("{}", idx.index())));
                        fj.set("adt", J::s(ty_str(t.ty)));
                    }
                }
                proj.push(fj);
            }
            ProjectionElem::Index(_) => proj.push(J::s("[i]")),
            ProjectionElem::ConstantIndex { .. } => proj.push(J::s("[c]")),
            ProjectionElem::Subslice { .. } => proj.push(J::s("[..]")),
            ProjectionElem::Downcast(name, _) => {
                proj.push(J::s(format!("as {}", name.map(|s| s.to_string()).unwrap_or_default())))
            }
            other => proj.push(J::s(format!("{:?}", other))),
        }
        t = t.projection_ty(tcx, elem);
    }
    (J::Arr(proj), touches)
}

impl<'a, 'tcx> Visitor<'tcx> for PlaceCollector<'a, 'tcx> {
    fn visit_place(&mut self, place: &Place<'tcx>, context: PlaceContext, location: Location) {
        if matches!(context, PlaceContext::NonUse(_)) {
            return;
        }
        let (proj, touches) = place_json(self.tcx, self.body, place);
        if !touches {
            return;
        }
        let decl = &self.body.local_decls[place.local];
        let mut j = J::obj();
        j.set("bb", J::Int(location.block.index() as i64));
        j.set("i", J::Int(location.statement_index as i64));
        j.set(
            "ctx",
            J::s(match context {
                PlaceContext::NonMutatingUse(c) => format!("read:{:?}", c),
                PlaceContext::MutatingUse(c) => format!("write:{:?}", c),
                PlaceContext::NonUse(c) => format!("nonuse:{:?}", c),
            }),
        );
        j.set("local", J::Int(place.local.index() as i64));
        j.set("local_ty", J::s(ty_str(decl.ty)));
        j.set(
            "is_arg",
            J::Bool(place.local.index() >= 1 && place.local.index() <= self.body.arg_count),
        );
        j.set("proj", proj);
        let sp = self.body.source_info(location).span;
        j.set("sp", span_json(self.tcx, sp));
        j.set("x", J::Bool(sp.from_expansion()));
        j.set("cleanup", J::Bool(self.body.basic_blocks[location.block].is_cleanup));
        self.out.push(j);
    }
}

fn operand_json<'tcx>(tcx: TyCtxt<'tcx>, body: &Body<'tcx>, op: &Operand<'tcx>) -> J {
    match op {
        Operand::Copy(p) | Operand::Move(p) => {
            let (proj, _) = place_json(tcx, body, p);
            J::obj()
                .with("k", J::s(if matches!(op, Operand::Move(_)) { "move" } else { "copy" }))
                .with("local", J::Int(p.local.index() as i64))
                .with("proj", proj)
        }
        Operand::Constant(c) => J::obj()
            .with("k", J::s("const"))
            .with("ty", J::s(ty_str(c.const_.ty())))
            .with("text", J::s(crate::pp!(format!("{}", c.const_)))),
        #[allow(unreachable_patterns)]
        _ => J::obj().with("k", J::s("other")).with("text", J::s(format!("{:?}", op))),
    }
}

pub fn body_mir(tcx: TyCtxt<'_>, ldid: LocalDefId) -> J {
    let did = ldid.to_def_id();
    if !tcx.is_mir_available(did) {
        return J::Null;
    }
    // constants / statics have no optimized MIR
    let kind = tcx.def_kind(did);
    use rustc_hir::def::DefKind;
    if !matches!(kind, DefKind::Fn | DefKind::AssocFn | DefKind::Closure) {
        return J::Null;
    }
    let body: &Body<'_> = tcx.optimized_mir(did);
    let mut j = J::obj();
    j.set("arg_count", J::Int(body.arg_count as i64));

    // locals with debug names
    let mut names: Vec<Option<String>> = vec![None; body.local_decls.len()];
    for vdi in body.var_debug_info.iter() {
        if let mir::VarDebugInfoContents::Place(p) = &vdi.value {
            if p.projection.is_empty() {
                names[p.local.index()] = Some(vdi.name.to_string());
            }
        }
    }
    let locals: Vec<J> = body
        .local_decls
        .iter_enumerated()
        .map(|(l, d)| {
            let mut lj = J::obj();
            lj.set("i", J::Int(l.index() as i64));
            lj.set("ty", J::s(ty_str(d.ty)));
            if let Some(n) = &names[l.index()] {
                lj.set("name", J::s(n.clone()));
            }
            lj
        })
        .collect();
    j.set("locals", J::Arr(locals));

    let mut blocks = Vec::new();
    let mut aggregates = Vec::new();
    for (bb, data) in body.basic_blocks.iter_enumerated() {
        let mut bj = J::obj();
        bj.set("i", J::Int(bb.index() as i64));
        bj.set("cleanup", J::Bool(data.is_cleanup));
        let mut stmts = Vec::new();
        for (si, st) in data.statements.iter().enumerate() {
            match &st.kind {
                StatementKind::StorageLive(_)
                | StatementKind::StorageDead(_)
                | StatementKind::Nop
                | StatementKind::FakeRead(..)
                | StatementKind::AscribeUserType(..)
                | StatementKind::PlaceMention(..)
                | StatementKind::Coverage(..)
                | StatementKind::ConstEvalCounter
                | StatementKind::BackwardIncompatibleDropHint { .. } => continue,
                _ => {}
            }
            let mut sj = J::obj();
            sj.set("text", J::s(crate::pp!(format!("{:?}", st))));
            sj.set("sp", span_json(tcx, st.source_info.span));
            if let StatementKind::Assign(b) = &st.kind {
                let (place, rv) = &**b;
                let (proj, _) = place_json(tcx, body, place);
                sj.set("dst", J::Int(place.local.index() as i64));
                sj.set("dst_proj", proj);
                sj.set("rv", J::s(rvalue_kind(rv)));
                match rv {
                    Rvalue::Aggregate(k, ops) => {
                        if let AggregateKind::Adt(adt_did, variant, _, _, _) = &**k {
                            let def = tcx.adt_def(*adt_did);
                            let v = def.variant(*variant);
                            let mut aj = J::obj();
                            aj.set("adt", J::s(def_str(tcx, *adt_did)));
                            aj.set("local", J::Bool(adt_did.is_local()));
                            aj.set("variant", J::s(v.name.to_string()));
                            aj.set("bb", J::Int(bb.index() as i64));
                            aj.set("i", J::Int(si as i64));
                            aj.set("sp", span_json(tcx, st.source_info.span));
                            let fields: Vec<J> = ops
                                .iter_enumerated()
                                .map(|(fi, op)| {
                                    J::obj()
                                        .with("name", J::s(v.fields[fi].name.to_string()))
                                        .with("op", operand_json(tcx, body, op))
                                })
                                .collect();
                            aj.set("fields", J::Arr(fields));
                            aggregates.push(aj);
                        }
                    }
                    Rvalue::Use(op, ..) => {
                        sj.set("src", operand_json(tcx, body, op));
                    }
                    Rvalue::Ref(_, bk, p) => {
                        let (proj, _) = place_json(tcx, body, p);
                        sj.set("ref_mut", J::Bool(matches!(bk, mir::BorrowKind::Mut { .. })));
                        sj.set("ref_local", J::Int(p.local.index() as i64));
                        sj.set("ref_proj", proj);
                    }
                    Rvalue::Cast(ck, op, t) => {
                        sj.set("cast", J::s(format!("{:?}", ck)));
                        sj.set("src", operand_json(tcx, body, op));
                        sj.set("cast_ty", J::s(ty_str(*t)));
                    }
                    Rvalue::BinaryOp(op, ops) => {
                        sj.set("binop", J::s(format!("{:?}", op)));
                        sj.set("l", operand_json(tcx, body, &ops.0));
                        sj.set("r", operand_json(tcx, body, &ops.1));
                    }
                    Rvalue::UnaryOp(op, o) => {
                        sj.set("unop", J::s(format!("{:?}", op)));
                        sj.set("src", operand_json(tcx, body, o));
                    }
                    _ => {}
                }
            }
            stmts.push(sj);
        }
        bj.set("stmts", J::Arr(stmts));
        let term = data.terminator();
        let mut tj = J::obj();
        tj.set("text", J::s(crate::pp!(format!("{:?}", term.kind))));
        tj.set("sp", span_json(tcx, term.source_info.span));
        tj.set("x", J::Bool(term.source_info.span.from_expansion()));
        tj.set(
            "succ",
            J::Arr(term.successors().map(|s| J::Int(s.index() as i64)).collect()),
        );
        match &term.kind {
            TerminatorKind::Call { func, args, destination, target, .. } => {
                tj.set("k", J::s("Call"));
                let fty = func.ty(body, tcx);
                if let ty::FnDef(fd, ga) = fty.kind() {
                    tj.set("callee", callee_json(tcx, ldid, *fd, ga));
                } else {
                    tj.set("fun_ty", J::s(ty_str(fty)));
                }
                tj.set(
                    "args",
                    J::Arr(args.iter().map(|a| operand_json(tcx, body, &a.node)).collect()),
                );
                tj.set("dst", J::Int(destination.local.index() as i64));
                if let Some(t) = target {
                    tj.set("target", J::Int(t.index() as i64));
                }
            }
            TerminatorKind::SwitchInt { discr, targets } => {
                tj.set("k", J::s("SwitchInt"));
                tj.set("discr", operand_json(tcx, body, discr));
                let vals: Vec<J> = targets
                    .iter()
                    .map(|(v, t)| J::Arr(vec![J::s(format!("{}", v)), J::Int(t.index() as i64)]))
                    .collect();
                tj.set("targets", J::Arr(vals));
                tj.set("otherwise", J::Int(targets.otherwise().index() as i64));
            }
            TerminatorKind::Assert { cond, expected, target, msg, .. } => {
                tj.set("k", J::s("Assert"));
                tj.set("cond", operand_json(tcx, body, cond));
                tj.set("expected", J::Bool(*expected));
                tj.set("target", J::Int(target.index() as i64));
                tj.set("msg", J::s(format!("{:?}", msg).split('(').next().unwrap_or("").to_string()));
            }
            TerminatorKind::Drop { place, target, .. } => {
                tj.set("k", J::s("Drop"));
                tj.set("local", J::Int(place.local.index() as i64));
                tj.set("target", J::Int(target.index() as i64));
            }
            TerminatorKind::Return => {
                tj.set("k", J::s("Return"));
            }
            TerminatorKind::Goto { .. } => {
                tj.set("k", J::s("Goto"));
            }
            TerminatorKind::Unreachable => {
                tj.set("k", J::s("Unreachable"));
            }
            TerminatorKind::UnwindResume => {
                tj.set("k", J::s("UnwindResume"));
            }
            other => {
                let s = format!("{:?}", other);
                tj.set("k", J::s(s.split(|c| c == '(' || c == ' ').next().unwrap_or("").to_string()));
            }
        }
        bj.set("term", tj);
        blocks.push(bj);
    }
    j.set("blocks", J::Arr(blocks));
    j.set("aggregates", J::Arr(aggregates));

    let mut pc = PlaceCollector { tcx, body, out: Vec::new() };
    pc.visit_body(body);
    j.set("field_places", J::Arr(pc.out));
    j
}

fn rvalue_kind(rv: &Rvalue<'_>) -> String {
    let s = format!("{:?}", std::mem::discriminant(rv));
    let _ = s;
    match rv {
        Rvalue::Use(..) => "Use",
        Rvalue::Repeat(..) => "Repeat",
        Rvalue::Ref(..) => "Ref",
        Rvalue::ThreadLocalRef(..) => "ThreadLocalRef",
        Rvalue::RawPtr(..) => "RawPtr",
        Rvalue::Cast(..) => "Cast",
        Rvalue::BinaryOp(..) => "BinaryOp",
        Rvalue::UnaryOp(..) => "UnaryOp",
        Rvalue::Discriminant(..) => "Discriminant",
        Rvalue::Aggregate(..) => "Aggregate",
        Rvalue::CopyForDeref(..) => "CopyForDeref",
        #[allow(unreachable_patterns)]
        _ => "Other",
    }
    .to_string()
}
