//! corgi-facts: a rustc_private driver that dumps, for the local crate, the facts the
//! static rules in /verif/rules need: ADTs + type walks, items, every body's THIR
//! expression tree (typed, callees resolved) and a MIR summary.
//!
//! Invoked through RUSTC_WORKSPACE_WRAPPER (argv[1] is the real rustc and is dropped).
//! Output: one JSON file, path in CORGI_FACTS_OUT, written once per process, only for
//! the crate named CORGI_FACTS_CRATE (default "corgi").

#![feature(rustc_private)]

extern crate rustc_abi;
extern crate rustc_ast;
extern crate rustc_data_structures;
extern crate rustc_driver;
extern crate rustc_hir;
extern crate rustc_index;
extern crate rustc_interface;
extern crate rustc_middle;
extern crate rustc_session;
extern crate rustc_span;

mod json;
mod mirfacts;
mod thirfacts;
mod tyfacts;

use json::J;
use rustc_driver::Compilation;
use rustc_hir::def::DefKind;
use rustc_hir::def_id::{DefId, LocalDefId};
use rustc_interface::interface;
use rustc_middle::ty::print::PrintTraitRefExt;
use rustc_middle::ty::{self, TyCtxt};
use rustc_span::Span;

pub struct Facts {
    target_crate: String,
    out_path: Option<String>,
    nonce: String,
    thir: Vec<(LocalDefId, J)>,
    active: bool,
}

/// All printing goes through this: canonical definition paths (no re-export shortcuts),
/// never trimmed, local crate printed by name.
#[macro_export]
macro_rules! pp {
    ($e:expr) => {
        rustc_middle::ty::print::with_no_trimmed_paths!(
            rustc_middle::ty::print::with_no_visible_paths!(
                rustc_middle::ty::print::with_resolve_crate_name!($e)
            )
        )
    };
}

pub fn def_str(tcx: TyCtxt<'_>, did: DefId) -> String {
    pp!(tcx.def_path_str(did))
}

pub fn def_id_str(tcx: TyCtxt<'_>, did: DefId) -> String {
    format!("{}{}", tcx.crate_name(did.krate), tcx.def_path(did).to_string_no_crate_verbose())
}

pub fn ty_str<'tcx>(ty: ty::Ty<'tcx>) -> String {
    pp!(format!("{}", ty))
}

pub fn span_json(tcx: TyCtxt<'_>, sp: Span) -> J {
    let sm = tcx.sess.source_map();
    // use the call-site span for things coming out of macros, so that a line is always
    // in the user's file
    let root = sp.source_callsite();
    let lo = sm.lookup_char_pos(root.lo());
    let hi = sm.lookup_char_pos(root.hi());
    J::Arr(vec![
        J::Int(lo.line as i64),
        J::Int(lo.col.0 as i64 + 1),
        J::Int(hi.line as i64),
        J::Int(hi.col.0 as i64 + 1),
    ])
}

pub fn span_file(tcx: TyCtxt<'_>, sp: Span) -> String {
    let sm = tcx.sess.source_map();
    let root = sp.source_callsite();
    let lo = sm.lookup_char_pos(root.lo());
    format!("{}", lo.file.name.prefer_local_unconditionally())
}

/// Is the macro whose expansion produced this span defined in the local crate?
pub fn macro_is_local(sp: Span) -> bool {
    if !sp.from_expansion() {
        return false;
    }
    // any expansion frame from a local macro counts
    let mut s = sp;
    loop {
        let data = s.ctxt().outer_expn_data();
        if let Some(d) = data.macro_def_id {
            if d.is_local() {
                return true;
            }
        }
        if !data.call_site.from_expansion() {
            return false;
        }
        s = data.call_site;
    }
}

pub fn macro_name(sp: Span) -> Option<String> {
    if !sp.from_expansion() {
        return None;
    }
    let data = sp.ctxt().outer_expn_data();
    match data.kind {
        rustc_span::ExpnKind::Macro(_, name) => Some(name.to_string()),
        rustc_span::ExpnKind::Desugaring(d) => Some(format!("desugar:{:?}", d)),
        rustc_span::ExpnKind::AstPass(p) => Some(format!("astpass:{:?}", p)),
        rustc_span::ExpnKind::Root => None,
    }
}

impl rustc_driver::Callbacks for Facts {
    fn config(&mut self, _config: &mut interface::Config) {}

    fn after_expansion<'tcx>(
        &mut self,
        _compiler: &interface::Compiler,
        tcx: TyCtxt<'tcx>,
    ) -> Compilation {
        let name = tcx.crate_name(rustc_hir::def_id::LOCAL_CRATE).to_string();
        self.active = name == self.target_crate && self.out_path.is_some();
        if !self.active {
            return Compilation::Continue;
        }
        // THIR must be read before MIR building steals it.
        let owners: Vec<LocalDefId> = tcx.hir_body_owners().collect();
        for ldid in owners {
            let j = thirfacts::body_thir(tcx, ldid);
            self.thir.push((ldid, j));
        }
        Compilation::Continue
    }

    fn after_analysis<'tcx>(
        &mut self,
        _compiler: &interface::Compiler,
        tcx: TyCtxt<'tcx>,
    ) -> Compilation {
        if !self.active {
            return Compilation::Continue;
        }
        let mut root = J::obj();
        root.set("crate", J::s(self.target_crate.clone()));
        root.set("nonce", J::s(self.nonce.clone()));
        // active cfg features
        let mut feats = Vec::new();
        for (name, value) in tcx.sess.config.iter() {
            if name.as_str() == "feature" {
                if let Some(v) = value {
                    feats.push(J::s(v.to_string()));
                }
            }
        }
        root.set("features", J::Arr(feats));
        root.set("float", J::s(float_alias(tcx)));

        root.set("adts", tyfacts::adts(tcx));
        root.set("items", items(tcx));

        let mut bodies = Vec::new();
        let thir = std::mem::take(&mut self.thir);
        for (ldid, thir_j) in thir {
            let did = ldid.to_def_id();
            let mut b = J::obj();
            b.set("def", J::s(def_str(tcx, did)));
            b.set("id", J::s(def_id_str(tcx, did)));
            let kind = tcx.def_kind(did);
            b.set("kind", J::s(format!("{:?}", kind)));
            if let Some(n) = tcx.opt_item_name(did) {
                b.set("name", J::s(n.to_string()));
            }
            let sp = tcx.def_span(did);
            b.set("file", J::s(span_file(tcx, sp)));
            b.set("sp", span_json(tcx, tcx.hir_span(tcx.local_def_id_to_hir_id(ldid))));
            if matches!(kind, DefKind::Closure) {
                let parent = tcx.local_parent(ldid);
                b.set("parent", J::s(def_str(tcx, parent.to_def_id())));
                let mut root_owner = parent;
                while matches!(tcx.def_kind(root_owner.to_def_id()), DefKind::Closure) {
                    root_owner = tcx.local_parent(root_owner);
                }
                b.set("root", J::s(def_str(tcx, root_owner.to_def_id())));
                b.set("captures", thirfacts::captures(tcx, ldid));
                let cty = tcx.type_of(did).instantiate_identity().skip_norm_wip();
                if let ty::Closure(_, args) = cty.kind() {
                    let sig = args.as_closure().sig();
                    let sig = tcx.instantiate_bound_regions_with_erased(sig);
                    let inputs: Vec<J> =
                        sig.inputs().iter().map(|t| J::s(ty_str(*t))).collect();
                    b.set("closure_inputs", J::Arr(inputs));
                    b.set("closure_output", J::s(ty_str(sig.output())));
                    b.set("closure_kind", J::s(format!("{:?}", args.as_closure().kind())));
                }
            }
            if matches!(kind, DefKind::Fn | DefKind::AssocFn) {
                let vis = tcx.visibility(did);
                b.set("vis", J::s(format!("{:?}", vis)));
                b.set("is_pub", J::Bool(vis.is_public()));
                let ev = tcx.effective_visibilities(());
                b.set("reachable", J::Bool(ev.is_reachable(ldid)));
                let sig = tcx.fn_sig(did).instantiate_identity().skip_norm_wip();
                let sig = tcx.instantiate_bound_regions_with_erased(sig);
                let inputs: Vec<J> = sig.inputs().iter().map(|t| J::s(ty_str(*t))).collect();
                b.set("inputs", J::Arr(inputs));
                b.set("output", J::s(ty_str(sig.output())));
                b.set("unsafe_fn", J::Bool(!sig.safety().is_safe()));
                if matches!(kind, DefKind::AssocFn) {
                    let parent = tcx.parent(did);
                    if matches!(tcx.def_kind(parent), DefKind::Impl { .. }) {
                        let self_ty = tcx.type_of(parent).instantiate_identity().skip_norm_wip();
                        b.set("impl_self", J::s(ty_str(self_ty)));
                        if let Some(tr) = tcx.impl_opt_trait_ref(parent) {
                            let tr = tr.instantiate_identity().skip_norm_wip();
                            b.set("impl_trait", J::s(pp!(format!(
                                "{}",
                                tr.print_only_trait_path()
                            ))));
                            b.set("impl_trait_def", J::s(def_str(tcx, tr.def_id)));
                        }
                    } else {
                        b.set("trait_decl", J::s(def_str(tcx, parent)));
                    }
                }
            }
            b.set("thir", thir_j);
            b.set("mir", mirfacts::body_mir(tcx, ldid));
            bodies.push(b);
        }
        root.set("bodies", J::Arr(bodies));

        let mut out = String::new();
        root.write(&mut out);
        let path = self.out_path.clone().unwrap();
        std::fs::write(&path, out).expect("cannot write facts");
        Compilation::Continue
    }
}

fn float_alias(tcx: TyCtxt<'_>) -> String {
    for id in tcx.hir_free_items() {
        let item = tcx.hir_item(id);
        if let rustc_hir::ItemKind::TyAlias(ident, ..) = item.kind {
            if ident.name.as_str() == "Float" {
                let t = tcx.type_of(item.owner_id.to_def_id()).instantiate_identity().skip_norm_wip();
                return ty_str(t);
            }
        }
    }
    String::from("?")
}

/// Items: unsafe impls / extern blocks / unsafe fns / trait impls (for sibling rules).
fn items(tcx: TyCtxt<'_>) -> J {
    let mut out = Vec::new();
    for id in tcx.hir_free_items() {
        let item = tcx.hir_item(id);
        let did = item.owner_id.to_def_id();
        let mut j = J::obj();
        j.set("def", J::s(def_str(tcx, did)));
        j.set("file", J::s(span_file(tcx, item.span)));
        j.set("sp", span_json(tcx, item.span));
        j.set("exp", J::Bool(item.span.from_expansion()));
        j.set("exp_local", J::Bool(macro_is_local(item.span)));
        if let Some(m) = macro_name(item.span) {
            j.set("mac", J::s(m));
        }
        match &item.kind {
            rustc_hir::ItemKind::Impl(imp) => {
                j.set("kind", J::s("impl"));
                let self_ty = tcx.type_of(did).instantiate_identity().skip_norm_wip();
                j.set("self", J::s(ty_str(self_ty)));
                if let Some(tr) = tcx.impl_opt_trait_ref(did) {
                    let tr = tr.instantiate_identity().skip_norm_wip();
                    j.set("trait", J::s(pp!(format!(
                        "{}",
                        tr.print_only_trait_path()
                    ))));
                    j.set("trait_def", J::s(def_str(tcx, tr.def_id)));
                }
                let is_unsafe = match &imp.of_trait {
                    Some(t) => !t.safety.is_safe(),
                    None => false,
                };
                j.set("unsafe", J::Bool(is_unsafe));
            }
            rustc_hir::ItemKind::ForeignMod { .. } => {
                j.set("kind", J::s("extern_block"));
            }
            rustc_hir::ItemKind::Fn { sig, .. } => {
                j.set("kind", J::s("fn"));
                j.set("unsafe", J::Bool(!sig.header.safety().is_safe()));
            }
            rustc_hir::ItemKind::Static(..) => {
                j.set("kind", J::s("static"));
                let t = tcx.type_of(did).instantiate_identity().skip_norm_wip();
                j.set("ty", J::s(ty_str(t)));
                j.set("mutable", J::Bool(tcx.is_mutable_static(did)));
            }
            rustc_hir::ItemKind::Struct(..) => {
                j.set("kind", J::s("struct"));
            }
            rustc_hir::ItemKind::Enum(..) => {
                j.set("kind", J::s("enum"));
            }
            rustc_hir::ItemKind::Union(..) => {
                j.set("kind", J::s("union"));
            }
            rustc_hir::ItemKind::Trait { .. } => {
                j.set("kind", J::s("trait"));
            }
            rustc_hir::ItemKind::TyAlias(..) => {
                j.set("kind", J::s("type_alias"));
                let t = tcx.type_of(did).instantiate_identity().skip_norm_wip();
                j.set("ty", J::s(ty_str(t)));
            }
            rustc_hir::ItemKind::Mod(..) => {
                j.set("kind", J::s("mod"));
            }
            rustc_hir::ItemKind::Use(..) => {
                continue;
            }
            other => {
                j.set("kind", J::s(format!("other:{:?}", std::mem::discriminant(other))));
            }
        }
        out.push(j);
    }
    J::Arr(out)
}

fn main() {
    let mut args: Vec<String> = std::env::args().collect();
    // RUSTC_WORKSPACE_WRAPPER: argv[1] is the path of the real rustc
    if args.len() > 1 && (args[1].ends_with("rustc") || args[1].contains("/rustc")) {
        args.remove(1);
    }
    let target_crate = std::env::var("CORGI_FACTS_CRATE").unwrap_or_else(|_| "corgi".to_string());
    let out_path = std::env::var("CORGI_FACTS_OUT").ok();
    let nonce = std::env::var("CORGI_FACTS_NONCE").unwrap_or_default();
    let mut facts = Facts { target_crate, out_path, nonce, thir: Vec::new(), active: false };
    let code = rustc_driver::catch_with_exit_code(move || {
        rustc_driver::run_compiler(&args, &mut facts);
    });
    std::process::exit(if code == std::process::ExitCode::SUCCESS { 0 } else { 1 });
}
