//! Planted positives for the rules whose expected count on corgi is zero.
//! Same item paths (`corgi::array::Array`, fields `dimensions`/`values`) so that the very
//! same rules fire: R1 (interior mutability in shown storage), R2 (user unsafe),
//! R3 (in-place write), R4 (mutable path in the public API, pub field, &mut self method),
//! R7 (destructor), R17 (equality reads per-handle state), R16 (literal outside the funnel).
pub mod array;
