use std::cell::{Cell, RefCell};
use std::ops::Index;
use std::rc::Rc;

pub struct Array {
    pub dimensions: Vec<usize>,
    values: Rc<RefCell<Vec<f64>>>,
    is_tracked: Cell<bool>,
}

impl Array {
    pub fn dimensions(&self) -> &[usize] {
        &self.dimensions
    }

    pub fn values(&self) -> &Rc<RefCell<Vec<f64>>> {
        &self.values
    }

    /// R4: a mutable path into storage, and a `&mut self` method.
    pub fn dimensions_mut(&mut self) -> &mut Vec<usize> {
        &mut self.dimensions
    }

    /// R3: in-place write of shown storage.
    pub fn squeeze(&mut self) {
        self.dimensions.retain(|d| *d != 1);
        self.dimensions = vec![self.dimensions.iter().product()];
    }

    /// R2: user-written unsafe.
    pub fn poke(&self, i: usize, v: f64) {
        let p = self.values.as_ptr();
        unsafe {
            (&mut *p)[i] = v;
        }
    }

    /// R16: a literal outside the asserting constructor.
    pub fn raw(dimensions: Vec<usize>, values: Vec<f64>) -> Array {
        Array {
            dimensions,
            values: Rc::new(RefCell::new(values)),
            is_tracked: Cell::new(false),
        }
    }
}

impl Index<usize> for Array {
    type Output = usize;
    fn index(&self, i: usize) -> &usize {
        &self.dimensions[i]
    }
}

/// R17: equality reads per-handle state.
impl PartialEq for Array {
    fn eq(&self, other: &Array) -> bool {
        self.dimensions == other.dimensions
            && *self.values.borrow() == *other.values.borrow()
            && self.is_tracked.get() == other.is_tracked.get()
    }
}

/// R7: a destructor.
impl Drop for Array {
    fn drop(&mut self) {
        self.is_tracked.set(false);
    }
}
