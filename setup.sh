#!/bin/sh
# Builds the fact-extraction driver and warms the dependency caches (offline).
set -e
cd "$(dirname "$0")"
export CARGO_NET_OFFLINE=true
(cd driver && cargo +nightly build --release --offline)
python3 - <<'PY'
import sys
sys.path.insert(0, '.')
from rules import facts as F
for cfg in ('default', 'f32'):
    f = F.extract(cfg)
    print('warmed', cfg, len(f.bodies), 'bodies')
PY
