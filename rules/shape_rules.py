"""R29 ADJOINT-SHAPE typing of the matrix product's derivative closure.

A *type system*, not an evaluation: the operands of `matmul((A, ta), (B, tb), C)` are given
the symbolic shapes  op(A) = [m, k],  op(B) = [k, n],  seed X = [m, n]  (so A itself is
[k, m] when `ta` and [m, k] otherwise, likewise B) with m, k, n pairwise distinct symbols.
For each of the four flag assignments the closure's slots are typed with the product's own
shape rule  op(P)[p, q] x op(Q)[q, r] -> [p, r]  (inner symbols must be identical).  The
delta returned in the slot of an operand must have exactly that operand's shape: anything
else either trips the product's own dimension assertion for generic sizes or hands the
engine a delta that `flatten_to` cannot reduce to the operand (it never transposes).

What is decided: the transposition flags and operand choice in every branch of the
closure; NOT the numeric values of the product (C05, not claimed)."""

from . import facts as F
from .core import Ctx
from .facts import callee, resolved, strip, lit_value, walk, is_backward_closure, ARRAY
from .show import show
from .repr_rules import vec_literal_elems
from .engine_rules import closure_slots

OPTION = "core::option::Option"

PASS_THROUGH = (
    "core::clone::Clone::clone", "alloc::borrow::ToOwned::to_owned", "alloc::rc::Rc::<T>::new", "alloc::boxed::Box::<T>::new",
    "core::ops::deref::Deref::deref", "core::borrow::Borrow::borrow", "core::convert::AsRef::as_ref", "core::convert::Into::into",
    "core::convert::From::from", "core::convert::identity",
)


class Abstain(Exception):
    pass


class TypeErr(Exception):
    pass


class Lazy:
    def __init__(self, expr, env, path=()):
        self.expr, self.env, self.path = expr, env, path
        self.val = None
        self.busy = False


class Env(dict):
    def __init__(self, parent=None):
        super().__init__()
        self.parent = parent

    def lookup(self, v):
        e = self
        while e is not None:
            if v in e:
                return dict.__getitem__(e, v)
            e = e.parent
        return None


def fmt(shape):
    return "[%s, %s]" % shape


class ShapeEval:
    """values: ('b', bool) | ('arr', (r, c), label) | ('tup', [..]) | ('vec', [..]) | ('opt', v|None) | ('clo', def, env)
    | ('alt', [v, ..]) (several possible values: all of them are checked) | ('unk', why)"""

    def __init__(self, facts, ctor_def):
        self.facts = facts
        self.ctor = ctor_def
        self.depth = 0

    # ---------------------------------------------------------------- environment
    def bind(self, pat, val, env):
        k = pat.get("k") if isinstance(pat, dict) else None
        if k == "Binding":
            env[pat["v"]] = val
            if isinstance(pat.get("sub"), dict):
                self.bind(pat["sub"], val, env)
        elif k in ("Wild", "Missing", None):
            return
        elif k in ("Deref", "DerefPattern"):
            self.bind(pat["sub"], val, env)
        elif k == "Leaf":
            for s in pat["subs"]:
                self.bind(s["pat"], ("proj", val, s["idx"]), env)
        else:
            for v, _, _, _ in F.pat_bindings(pat):
                env[v] = ("unk", "pattern %s" % k)

    def force(self, v):
        if isinstance(v, Lazy):
            if v.val is None:
                if v.busy:
                    return ("unk", "cyclic binding")
                v.busy = True
                v.val = self.ev(v.expr, v.env)
                v.busy = False
            return v.val
        if isinstance(v, tuple) and v and v[0] == "proj":
            base = self.force(v[1])
            if base[0] == "tup" and v[2] < len(base[1]):
                return self.force(base[1][v[2]])
            if base[0] == "alt":
                return ("alt", [self.force(("proj", x, v[2])) for x in base[1]])
            return ("unk", "projection of %s" % base[0])
        return v

    def block_env(self, blk, env):
        """statements of a block bound lazily (straight-line lets; anything else is ignored here and
        surfaces as an unknown variable if it mattered)"""
        e2 = Env(env)
        for s in blk["stmts"]:
            if s["s"] == "let" and s.get("init") is not None and s.get("else") is None:
                self.bind(s["pat"], Lazy(s["init"], e2), e2)
            elif s["s"] == "let":
                for v, _, _, _ in F.pat_bindings(s["pat"]):
                    e2[v] = ("unk", "let without plain initialiser")
        return e2

    # ---------------------------------------------------------------- evaluation
    def ev(self, e, env):
        self.depth += 1
        try:
            if self.depth > 80:
                return ("unk", "expression too deep")
            return self._ev(e, env)
        finally:
            self.depth -= 1

    def alts(self, v):
        v = self.force(v)
        if v[0] == "alt":
            out = []
            for x in v[1]:
                out.extend(self.alts(x))
            return out
        return [v]

    def mk_alt(self, vs):
        flat = []
        for v in vs:
            for x in self.alts(v):
                if x not in flat:
                    flat.append(x)
        return flat[0] if len(flat) == 1 else ("alt", flat)

    def _ev(self, e, env):
        e = strip(e)
        if not isinstance(e, dict):
            return ("unk", "no expression")
        k = e.get("k")
        if k in ("VarRef", "UpvarRef"):
            v = env.lookup(e["v"])
            if v is None:
                return ("unk", "unbound variable %s" % e["v"])
            return self.force(v)
        if k == "Literal":
            lv = lit_value(e)
            if isinstance(lv, bool):
                return ("b", lv)
            if isinstance(lv, int):
                return ("n", lv)
            return ("unk", "literal")
        if k in ("Borrow", "Deref", "RawBorrow", "Cast", "Scope"):
            return self.ev(e["e"], env)
        if k == "Unary" and e.get("op") == "Not":
            out = []
            for v in self.alts(self.ev(e["e"], env)):
                out.append(("b", not v[1]) if v[0] == "b" else ("unk", "negation of %s" % v[0]))
            return self.mk_alt(out)
        if k == "LogicalOp":
            l = self.ev(e["l"], env)
            r = self.ev(e["r"], env)
            if l[0] == "b" and r[0] == "b":
                return ("b", (l[1] and r[1]) if e.get("op") == "And" else (l[1] or r[1]))
            if l[0] == "b" and e.get("op") == "And" and not l[1]:
                return ("b", False)
            if l[0] == "b" and e.get("op") == "Or" and l[1]:
                return ("b", True)
            return ("unk", "logical operation on unknown flags")
        if k == "Binary":
            l = self.ev(e["l"], env)
            r = self.ev(e["r"], env)
            op = e.get("op")
            if l[0] == "b" and r[0] == "b":
                if op == "Eq":
                    return ("b", l[1] == r[1])
                if op in ("Ne", "BitXor"):
                    return ("b", l[1] != r[1])
                if op == "BitAnd":
                    return ("b", l[1] and r[1])
                if op == "BitOr":
                    return ("b", l[1] or r[1])
            return ("unk", "binary %s" % op)
        if k == "Tuple":
            return ("tup", [Lazy(x, env) for x in e["fields"]])
        if k == "Array":
            return ("vec", [Lazy(x, env) for x in e["fields"]])
        if k == "Field":
            base = self.ev(e["e"], env)
            idx = e.get("idx")
            if idx is None:
                try:
                    idx = int(e.get("name"))
                except (TypeError, ValueError):
                    return ("unk", "field %s" % e.get("name"))
            return self.force(("proj", base, idx))
        if k == "Index":
            return self.index(self.ev(e["e"], env), self.ev(e["i"], env))
        if k == "Adt" and e.get("adt") == OPTION:
            if e.get("variant") == "Some":
                return ("opt", self.ev(e["fields"][0]["e"], env))
            return ("opt", None)
        if k == "Adt" and e.get("adt_local") and e.get("variant") and not e.get("fields"):
            return ("enum", e.get("adt"), e.get("variant"))       # a field-less variant of a crate-local enum (a named case)
        if k == "Block":
            if e.get("e") is None:
                return ("unk", "block without value")
            return self.ev(e["e"], self.block_env(e, env))
        if k == "If":
            cond = e["cond"]
            if strip(cond).get("k") == "Let":
                return self.ev_iflet(e, strip(cond), env)
            c = self.ev(cond, env)
            outs = []
            for cv in self.alts(c):
                if cv[0] == "b":
                    br = e["then"] if cv[1] else e.get("else")
                    outs.append(self.ev(br, env) if br is not None else ("unk", "unit"))
                else:
                    outs.append(self.ev(e["then"], env))
                    if e.get("else") is not None:
                        outs.append(self.ev(e["else"], env))
            return self.mk_alt(outs)
        if k == "Match":
            return self.ev_match(e, env)
        if k == "Closure":
            return ("clo", e["closure"], env)
        if k == "Call":
            return self.call(e, env)
        if k == "Use":
            return self.ev(e["e"], env)
        return ("unk", "expression kind %s" % k)

    def index(self, base, idx):
        outs = []
        for b in self.alts(base):
            for i in self.alts(idx):
                if b[0] == "vec" and i[0] == "n" and 0 <= i[1] < len(b[1]):
                    outs.append(self.force(b[1][i[1]]))
                else:
                    outs.append(("unk", "index %s[%s]" % (b[0], i[0])))
        return self.mk_alt(outs)

    def ev_iflet(self, e, let, env):
        scrut = self.ev(let["e"], env)
        outs = []
        for sv in self.alts(scrut):
            e2 = Env(env)
            m = self.matches(let["pat"], sv, e2)
            if m is True:
                outs.append(self.ev(e["then"], e2))
            elif m is False:
                outs.append(self.ev(e["else"], env) if e.get("else") is not None else ("unk", "unit"))
            else:
                outs.append(self.ev(e["then"], e2))
                if e.get("else") is not None:
                    outs.append(self.ev(e["else"], env))
        return self.mk_alt(outs)

    def matches(self, pat, val, env):
        """True / False / None (unknown)"""
        k = pat.get("k")
        val = self.force(val)
        if k in ("Wild", "Missing"):
            return True
        if k == "Binding":
            env[pat["v"]] = val
            if isinstance(pat.get("sub"), dict):
                return self.matches(pat["sub"], val, env)
            return True
        if k in ("Deref", "DerefPattern"):
            return self.matches(pat["sub"], val, env)
        if k == "Constant":
            want = pat.get("value")
            if isinstance(want, str) and want in ("true", "false") and val[0] == "b":
                return val[1] == (want == "true")
            lv = lit_value(pat.get("e")) if isinstance(pat.get("e"), dict) else None
            if isinstance(lv, bool) and val[0] == "b":
                return val[1] == lv
            return None
        if k == "Leaf":
            if val[0] != "tup":
                for v, _, _, _ in F.pat_bindings(pat):
                    env[v] = ("unk", "destructuring %s" % val[0])
                return None
            res = True
            for s in pat["subs"]:
                item = val[1][s["idx"]] if s["idx"] < len(val[1]) else ("unk", "tuple arity")
                m = self.matches(s["pat"], item, env)
                if m is False:
                    return False
                if m is None:
                    res = None
            return res
        if k == "Variant" and pat.get("adt") != OPTION and not pat.get("subs"):
            if val[0] == "enum" and val[1] == pat.get("adt"):
                return val[2] == pat.get("variant")
            return None
        if k == "Variant" and pat.get("adt") == OPTION:
            if val[0] != "opt":
                for v, _, _, _ in F.pat_bindings(pat):
                    env[v] = ("unk", "option pattern on %s" % val[0])
                return None
            if pat.get("variant") == "Some":
                if val[1] is None:
                    return False
                for s in pat.get("subs", []):
                    self.matches(s["pat"], val[1], env)
                return True
            return val[1] is None
        if k == "Or":
            res = False
            for q in pat["pats"]:
                m = self.matches(q, val, env)
                if m is True:
                    return True
                if m is None:
                    res = None
            return res
        for v, _, _, _ in F.pat_bindings(pat):
            env[v] = ("unk", "pattern %s" % k)
        return None

    def ev_match(self, e, env):
        outs = []
        for sv in self.alts(self.ev(e["scrutinee"], env)):
            decided = False
            if self.force(sv)[0] == "unk" and len(e["arms"]) > 1 and all(a["pat"].get("k") == "Variant" and a["pat"].get("adt") != OPTION for a in e["arms"]):
                # which case of an enum is selected is not known: the arms are mutually exclusive cases, not alternatives that must all type-check
                raise Abstain("match on a value of an enum that is not tracked (%s)" % show(e["scrutinee"])[:50])
            for a in e["arms"]:
                e2 = Env(env)
                m = self.matches(a["pat"], sv, e2)
                if a.get("guard") is not None:
                    g = self.ev(a["guard"], e2)
                    if g[0] == "b":
                        if not g[1]:
                            m = False
                    else:
                        m = None if m is not False else False
                if m is False:
                    continue
                outs.append(self.ev(a["body"], e2))
                if m is True:
                    decided = True
                    break
            if not decided and not outs:
                outs.append(("unk", "no arm matched"))
        return self.mk_alt(outs)

    # ---------------------------------------------------------------- calls
    def apply(self, f, args):
        if f[0] != "clo":
            return ("unk", "call of %s" % f[0])
        cb = self.facts.body(f[1])
        if cb is None:
            return ("unk", "closure body missing")
        e2 = Env(f[2])
        ps = [p for p in self.facts.params(cb) if p.get("pat")]
        for p, a in zip(ps, args):
            self.bind(p["pat"], a, e2)
        return self.ev(self.facts.root(cb), e2)

    def product(self, p, q):
        """typing rule of the matrix product"""
        (pa, pf), (qa, qf) = p, q
        if pa[0] != "arr" or qa[0] != "arr" or pf[0] != "b" or qf[0] != "b":
            bad = [x for x in (pa, pf, qa, qf) if x[0] not in ("arr", "b")]
            raise Abstain("operand of a product is not typed: %s" % (bad[0][1] if bad and len(bad[0]) > 1 else bad))
        ps = pa[1] if not pf[1] else (pa[1][1], pa[1][0])
        qs = qa[1] if not qf[1] else (qa[1][1], qa[1][0])
        if ps[1] != qs[0]:
            raise TypeErr("product %s%s %s x %s%s %s: inner dimensions `%s` and `%s` differ for generic sizes"
                          % (pa[2], "^T" if pf[1] else "", fmt(ps), qa[2], "^T" if qf[1] else "", fmt(qs), ps[1], qs[0]))
        return ("arr", (ps[0], qs[1]), "(%s%s.%s%s)" % (pa[2], "^T" if pf[1] else "", qa[2], "^T" if qf[1] else ""))

    def call(self, e, env):
        c = callee(e) or ""
        r = resolved(e) or ""
        args = e["args"]
        if r == self.ctor or c == self.ctor:
            outs = []
            third = self.ev(args[2], env) if len(args) > 2 else ("opt", None)
            for p in self.alts(self.ev(args[0], env)):
                for q in self.alts(self.ev(args[1], env)):
                    if p[0] != "tup" or q[0] != "tup" or len(p[1]) != 2 or len(q[1]) != 2:
                        raise Abstain("product called with an operand pair that is not a tuple literal / typed tuple")
                    for pa in self.alts(p[1][0]):
                        for pf in self.alts(p[1][1]):
                            for qa in self.alts(q[1][0]):
                                for qf in self.alts(q[1][1]):
                                    outs.append(self.product((pa, pf), (qa, qf)))
            return self.mk_alt(outs)
        if c in PASS_THROUGH or r in PASS_THROUGH or r == "<%s as core::clone::Clone>::clone" % ARRAY or c.endswith("::clone"):
            if args:
                return self.ev(args[0], env)
        if c in ("core::bool::<impl bool>::then", "core::bool::<impl bool>::then_some"):
            cond = self.ev(args[0], env)
            outs = []
            for cv in self.alts(cond):
                if cv[0] == "b" and not cv[1]:
                    outs.append(("opt", None))
                    continue
                v = self.apply(self.ev(args[1], env), []) if c.endswith("::then") else self.ev(args[1], env)
                outs.append(("opt", v))
                if cv[0] != "b":
                    outs.append(("opt", None))
            return self.mk_alt(outs)
        if c in ("core::option::Option::<T>::map",):
            o = self.ev(args[0], env)
            outs = []
            for ov in self.alts(o):
                if ov[0] == "opt":
                    outs.append(("opt", None) if ov[1] is None else ("opt", self.apply(self.ev(args[1], env), [ov[1]])))
                else:
                    outs.append(("unk", "map on %s" % ov[0]))
            return self.mk_alt(outs)
        if c in ("core::option::Option::<T>::unwrap", "core::option::Option::<T>::expect", "core::option::Option::<T>::cloned",
                 "core::option::Option::<T>::as_ref", "core::option::Option::<&T>::cloned", "core::option::Option::<&T>::copied"):
            o = self.ev(args[0], env)
            if c.endswith("unwrap") or c.endswith("expect"):
                outs = [ov[1] if ov[0] == "opt" and ov[1] is not None else ("unk", "unwrap") for ov in self.alts(o)]
                return self.mk_alt(outs)
            return o
        if c in ("core::option::Option::<T>::unwrap_or",) and len(args) == 2:
            outs = []
            for ov in self.alts(self.ev(args[0], env)):
                if ov[0] == "opt":
                    outs.append(ov[1] if ov[1] is not None else self.ev(args[1], env))
                else:
                    outs.append(("unk", "unwrap_or on %s" % ov[0]))
            return self.mk_alt(outs)
        if c in ("core::slice::<impl [T]>::iter", "core::iter::traits::collect::IntoIterator::into_iter", "core::iter::traits::iterator::Iterator::copied",
                 "core::iter::traits::iterator::Iterator::cloned", "core::iter::traits::iterator::Iterator::collect", "core::array::<impl [T; N]>::iter") and args:
            return self.ev(args[0], env)
        if c == "core::iter::traits::iterator::Iterator::map" and len(args) == 2:
            v = self.ev(args[0], env)
            f = self.ev(args[1], env)
            if v[0] == "vec" and f[0] == "clo":
                return ("vec", [self.apply(f, [self.force(it)]) for it in v[1]])
            return ("unk", "map over %s" % v[0])
        if c in ("core::ops::index::Index::index",) and len(args) == 2:
            return self.index(self.ev(args[0], env), self.ev(args[1], env))
        if c in ("core::slice::<impl [T]>::get",) and len(args) == 2:
            return ("opt", self.index(self.ev(args[0], env), self.ev(args[1], env)))
        if c in ("core::ops::function::Fn::call", "core::ops::function::FnMut::call_mut", "core::ops::function::FnOnce::call_once"):
            f = self.ev(args[0], env)
            a = self.ev(args[1], env)
            return self.apply(f, [self.force(x) for x in a[1]] if a[0] == "tup" else [])
        els = vec_literal_elems(e)
        if els is not None:
            return ("vec", [Lazy(x, env) for x in els])
        cal = e.get("callee") or {}
        if cal.get("resolved_local"):
            cb = self.facts.body(cal.get("resolved"))
            if cb is not None and cb["def"] != self.ctor:
                e2 = Env(None)
                ps = [p for p in self.facts.params(cb) if p.get("pat")]
                for p, a in zip(ps, args):
                    self.bind(p["pat"], Lazy(a, env), e2)
                return self.ev(self.facts.root(cb), e2)
        return ("unk", "call of %s" % (r or c))


def find_product_ctor(facts):
    out = []
    pair = "(&%s, bool)" % ARRAY
    for b in facts.fns():
        ins = b.get("inputs") or []
        if (b.get("output") == ARRAY) and len([t for t in ins if t == pair]) == 2:
            out.append(b)
    return out


def _children_order(facts, ev, ctor, env):
    """labels of the operands in the order the constructor records them (the closure's `c` / slot order)"""
    from .engine_rules import SLICED_OP, WITH_CHILDREN
    root = facts.root(ctor)
    for n in walk(root):
        if n.get("k") != "Call":
            continue
        r = resolved(n)
        arr = None
        if r == SLICED_OP:
            arr = n["args"][0]
        elif r == WITH_CHILDREN:
            arr = n["args"][1]
        if arr is None:
            continue
        v = ev.ev(arr, env)
        if v[0] != "vec":
            return None, "operands are not recorded through a vector literal: %s" % show(arr)[:80]
        labels = []
        for it in v[1]:
            x = ev.force(it)
            xs = ev.alts(x)
            labs = {y[2] if y[0] == "arr" else "?" for y in xs}
            labels.append(labs.pop() if len(labs) == 1 else "?")
        return labels, ""
    return None, "no sliced_op / with_children call in the constructor"


def r29_matmul_adjoint_shapes(facts):
    """ADJOINT-SHAPE: with op(A)=[m,k], op(B)=[k,n], seed [m,n], every slot of the matrix product's derivative closure has its operand's shape under all four transpose-flag assignments"""
    c = Ctx("R29", facts, "matrix product: each delta has the shape of its operand for every transposition")
    ctors = find_product_ctor(facts)
    c.floor("operation constructors taking two (array, transpose) pairs", len(ctors), 1)
    for ctor in ctors:
        name = ctor.get("name") or ctor["def"].rsplit("::", 1)[-1]
        reach = {ctor["def"]}
        from .repr_rules import callees_closure
        try:
            reach |= {b["def"] for b in callees_closure(facts, ctor)}
        except Exception:
            pass
        clos = [b for b in facts.closures() if is_backward_closure(b) and (b.get("root") in reach or b.get("parent") in reach)]
        c.count("derivative closures of %s" % name, len(clos))
        if not clos:
            c.unk("%s:closure" % name, F.loc(ctor, facts.root(ctor)), "no derivative closure literal found in %s or the local functions it calls" % name)
            continue
        params = [p for p in facts.params(ctor) if p.get("pat")]
        for cb in clos:
            cname = name if len(clos) == 1 else "%s:%s" % (name, cb["def"].rsplit("::", 2)[-1])
            for ta in (False, True):
                for tb in (False, True):
                    tag = "%s:ta=%s,tb=%s" % (cname, "T" if ta else "F", "T" if tb else "F")
                    ev = ShapeEval(facts, ctor["def"])
                    A = ("arr", ("k", "m") if ta else ("m", "k"), "A")
                    B = ("arr", ("n", "k") if tb else ("k", "n"), "B")
                    X = ("arr", ("m", "n"), "X")
                    Cc = ("arr", ("m", "n"), "C")
                    env0 = Env(None)
                    vals = [("tup", [A, ("b", ta)]), ("tup", [B, ("b", tb)])]
                    pair_i = 0
                    for p in params:
                        if p["ty"] == "(&%s, bool)" % ARRAY and pair_i < 2:
                            ev.bind(p["pat"], vals[pair_i], env0)
                            pair_i += 1
                        elif "Option<&%s>" % ARRAY in p["ty"]:
                            ev.bind(p["pat"], ("alt", [("opt", Cc), ("opt", None)]), env0)
                        else:
                            ev.bind(p["pat"], ("unk", "parameter"), env0)
                    croot = strip(facts.root(ctor))
                    cenv = ev.block_env(croot, env0) if croot.get("k") == "Block" else env0
                    # environment of the closure's defining body
                    try:
                        denv = _defining_env(facts, ev, ctor, cb, cenv)
                        order, why = _children_order(facts, ev, ctor, cenv)
                    except (Abstain, TypeErr) as ex:
                        c.unk("%s:env" % tag, F.loc(cb, facts.root(cb)), "cannot set up the typing environment: %s" % ex)
                        continue
                    if denv is None:
                        c.unk("%s:env" % tag, F.loc(cb, facts.root(cb)), "the closure is defined in a function whose call from %s is not recognised" % name)
                        continue
                    if order is None or "A" not in order or "B" not in order:
                        c.unk("%s:order" % tag, F.loc(ctor, facts.root(ctor)), "operand order not recognised: %s %s" % (order, why))
                        continue
                    slots, tvar, why = closure_slots(facts, cb)
                    if slots is None or (slots and slots[0].get("k") == "UniformGated"):
                        c.unk("%s:slots" % tag, F.loc(cb, facts.root(cb)), "slot vector not recognised: %s" % why)
                        continue
                    e2 = Env(denv)
                    ps = [p for p in facts.params(cb) if p.get("pat")]
                    base = {"A": A, "B": B}
                    cvals = [base.get(l, Cc if l == "C" else ("unk", "operand")) for l in order]
                    pv = [("vec", cvals), ("vec", [("b", True)] * len(order)), X]
                    for p, v in zip(ps, pv):
                        ev.bind(p["pat"], v, e2)
                    broot = strip(facts.root(cb))
                    benv = ev.block_env(broot, e2) if broot.get("k") == "Block" else e2
                    for i, se in enumerate(slots):
                        if i >= len(order):
                            break
                        lab = order[i]
                        inst = "%s:slot%d" % (tag, i)
                        where = F.loc(cb, se)
                        want = {"A": A[1], "B": B[1]}.get(lab, ("m", "n"))
                        try:
                            v = ev.ev(se, benv)
                            res = []
                            for x in ev.alts(v):
                                if x[0] == "opt" and x[1] is None:
                                    continue
                                inner = x[1] if x[0] == "opt" else x
                                for y in ev.alts(inner):
                                    res.append(y)
                            unk = [y for y in res if y[0] != "arr"]
                            if unk:
                                c.unk(inst, where, "the delta expression is outside the shape type system (%s): %s" % (unk[0][1] if len(unk[0]) > 1 else unk[0][0], show(se)[:100]))
                                continue
                            if not res:
                                c.ok(inst, where, "slot is None for this assignment", nontrivial=False)
                                continue
                            wrong = [y for y in res if y[1] != want]
                            if wrong:
                                c.bad(inst, where, "the delta for operand %s is typed %s %s but the operand is %s (op(A)=[m, k], op(B)=[k, n], seed [m, n]): the adjoint is transposed wrongly or built from the wrong operand"
                                      % (lab, wrong[0][2], fmt(wrong[0][1]), fmt(want)))
                            else:
                                c.ok(inst, where, "delta for %s typed %s = %s" % (lab, res[0][2], fmt(want)))
                        except TypeErr as ex:
                            c.bad(inst, where, "ill-typed adjoint for operand %s: %s" % (lab, ex))
                        except Abstain as ex:
                            c.unk(inst, where, "outside the shape type system: %s" % ex)
    return c


def _defining_env(facts, ev, ctor, cb, cenv):
    """environment in which the closure literal `cb` is created"""
    parent = cb.get("parent")
    if parent == ctor["def"]:
        # the literal may sit in a nested block of the constructor: bind lets of enclosing blocks lazily
        return _env_at(facts, ev, facts.root(ctor), cb["def"], cenv)
    pb = facts.body(parent)
    if pb is None:
        return None
    if pb["kind"] == "Closure":
        # the literal sits inside another closure (e.g. `tracked.then(|| Rc::new(move |c, t, x| ..))`): the environment is the one
        # in which that closure was created, plus the lets of its body on the way to the literal
        outer = _defining_env(facts, ev, ctor, pb, cenv)
        if outer is None:
            return None
        proot = strip(facts.root(pb))
        penv = ev.block_env(proot, outer) if proot.get("k") == "Block" else outer
        return _env_at(facts, ev, facts.root(pb), cb["def"], penv)
    # a local function building the closure: find its call in the constructor
    for n in walk(facts.root(ctor)):
        if n.get("k") == "Call" and resolved(n) == parent:
            e0 = Env(None)
            ps = [p for p in facts.params(pb) if p.get("pat")]
            site_env = _env_at_node(facts, ev, facts.root(ctor), n, cenv)
            for p, a in zip(ps, n["args"]):
                ev.bind(p["pat"], Lazy(a, site_env), e0)
            proot = strip(facts.root(pb))
            penv = ev.block_env(proot, e0) if proot.get("k") == "Block" else e0
            return _env_at(facts, ev, facts.root(pb), cb["def"], penv)
    return None


def _env_at(facts, ev, root, closure_def, env):
    target = None
    for n in walk(root):
        if n.get("k") == "Closure" and n.get("closure") == closure_def:
            target = n
            break
    if target is None:
        return env
    return _env_at_node(facts, ev, root, target, env)


def _env_at_node(facts, ev, root, target, env):
    """extend env with the lets of every block on the path from root to target"""
    path = []

    def find(n):
        if n is target:
            return True
        for ch in F.kids(n):
            if find(ch):
                path.append(n)
                return True
        return False
    find(root)
    e = env
    top = strip(root)
    for n in reversed(path):
        if n.get("k") == "Block" and n is not top and n is not root:
            e = ev.block_env(n, e)
    return e


# ---------------------------------------------------------------------------------- R31

def _ancestors(root):
    """yield (node, [ancestors from the root down to the parent])"""
    stack = [(root, [])]
    while stack:
        n, anc = stack.pop()
        yield n, anc
        for ch in F.kids(n):
            stack.append((ch, anc + [n]))


ARITH_MARK = ("core::ops::arith::Add", "core::ops::arith::Sub", "core::ops::arith::Mul", "core::ops::arith::Div")


def r31_reduce_last(facts):
    """REDUCE-LAST: inside a derivative closure, an adjoint that has been summed down (flatten_to / sum) is not afterwards combined element-wise with an operand (the sum does not commute with a factor that varies along the summed dimensions)"""
    c = Ctx("R31", facts, "derivative closures do not scale an already-reduced adjoint by an operand")
    reducers = set()
    for b in facts.fns():
        if b.get("impl_self") == ARRAY and b.get("impl_trait_def") is None and b.get("name") in ("flatten_to", "sum"):
            reducers.add(b["def"])
    c.floor("reducing array operations (flatten_to, sum)", len(reducers), 2)
    n_clo = 0
    for cb in facts.closures():
        if not is_backward_closure(cb):
            continue
        n_clo += 1
        ps = [p for p in facts.params(cb) if p.get("pat")]
        if len(ps) < 3:
            continue
        cvars = {v for v, _, _, _ in F.pat_bindings(ps[0]["pat"])}
        xvars = {v for v, _, _, _ in F.pat_bindings(ps[2]["pat"])}
        if not xvars:
            continue
        bodies = facts.nested(cb)
        # lets: a variable initialised from x is adjoint-derived, from c operand-derived (one pass per nesting level is enough here)
        for _ in range(3):
            for nb in bodies:
                for n in walk(facts.root(nb)):
                    if n.get("k") == "Block":
                        for s in n["stmts"]:
                            if s["s"] == "let" and s.get("init") is not None:
                                vs = {x["v"] for x in walk(s["init"]) if x.get("k") in ("VarRef", "UpvarRef")}
                                for v, _, _, _ in F.pat_bindings(s["pat"]):
                                    if vs & xvars:
                                        xvars.add(v)
                                    if vs & cvars:
                                        cvars.add(v)

        def mentions(e, vs):
            return any(x.get("k") in ("VarRef", "UpvarRef") and x["v"] in vs for x in walk(e))
        found = 0
        for nb in bodies:
            for n, anc in _ancestors(facts.root(nb)):
                if n.get("k") != "Call" or resolved(n) not in reducers or not n["args"] or not mentions(n["args"][0], xvars):
                    continue
                found += 1
                inst = "closure:%s#%s" % (cb["def"], (resolved(n) or "").rsplit("::", 1)[-1])
                where = F.loc(nb, n)

                def judge(node, anc):
                    for a in reversed(anc):
                        k = a.get("k")
                        if k in ("Borrow", "Deref", "Use", "NeverToAny", "PointerCoercion", "Block", "If", "Match", "Scope", "Adt", "Array", "Tuple"):
                            continue
                        if k == "Call":
                            ca = callee(a) or ""
                            ra = resolved(a) or ""
                            if ca in PASS_THROUGH or ca.endswith("::clone") or ca.endswith("box_assume_init_into_vec_unsafe") or ca.endswith("write_box_via_move") \
                                    or ca in ("core::bool::<impl bool>::then_some", "alloc::vec::Vec::<T, A>::push", "core::iter::sources::once::once"):
                                continue
                            others = [x for x in a["args"] if not any(y is node for y in walk(x))]
                            is_arith = any(m in ca for m in ARITH_MARK) or (a.get("ty") == ARRAY and (a.get("callee") or {}).get("resolved_local"))
                            if is_arith and any(mentions(o, cvars) for o in others):
                                return ("bad", "the adjoint is reduced by `%s` and then combined with an operand in `%s`: a sum over the broadcast dimensions does not commute "
                                        "with a factor that varies along them (wrong for a broadcast operand)" % (show(n)[:60], show(a)[:80]))
                            elif is_arith:
                                return ("unk", "the reduced adjoint enters `%s`" % show(a)[:80])
                            return ("unk", "the reduced adjoint is passed to `%s`" % (ra or ca))
                        return ("unk", "the reduced adjoint is used in a %s expression" % k)
                    return None
                verdict = judge(n, anc)
                # a reduced adjoint bound to a local: every later use of the local is a use of the reduced value
                bound = None
                if verdict is None:
                    for nb2 in bodies:
                        for blk in walk(facts.root(nb2)):
                            if blk.get("k") == "Block":
                                for st in blk["stmts"]:
                                    if st["s"] == "let" and st.get("init") is not None and st["pat"].get("k") == "Binding" and any(y is n for y in walk(st["init"])):
                                        bound = st["pat"]["v"]
                    if bound is not None:
                        for nb2 in bodies:
                            for u, anc_u in _ancestors(facts.root(nb2)):
                                if u.get("k") in ("VarRef", "UpvarRef") and u["v"] == bound and verdict is None:
                                    verdict = judge(u, anc_u)
                # ... and a contribution that is reduced at all is reduced to the dimensions of the operand whose slot it fills
                if verdict is None and len(n["args"]) >= 2:
                    tgt = None
                    for y in walk(n["args"][1]):
                        base_, i_ = None, None
                        if y.get("k") == "Index":
                            base_, i_ = y["e"], y["i"]
                        elif y.get("k") == "Call" and callee(y) == "core::ops::index::Index::index" and len(y["args"]) == 2:
                            base_, i_ = y["args"][0], y["args"][1]
                        if base_ is not None and F.var_of(F.peel(base_)) in cvars and isinstance(lit_value(i_), int):
                            tgt = lit_value(i_)
                    slots_, _, _ = closure_slots(facts, cb) if nb is cb or True else (None, None, None)
                    if tgt is not None and slots_:
                        for i_s, sl in enumerate(slots_):
                            uses = any(y is n for y in walk(sl)) or (bound is not None and any(y.get("k") in ("VarRef", "UpvarRef") and y["v"] == bound for y in walk(sl)))
                            if uses and i_s != tgt and verdict is None:
                                verdict = ("bad", "the contribution delivered to operand %d is reduced to the dimensions of operand %d (`%s`): for operands of different shapes it "
                                           "arrives with another operand's shape and its broadcast sums" % (i_s, tgt, show(n)[:70]))
                if verdict is None:
                    c.ok(inst, where, "the reduction is the last operation on this slot's value")
                elif verdict[0] == "bad":
                    c.bad(inst, where, verdict[1])
                else:
                    c.unk(inst, where, verdict[1])
        if not found:
            c.ok("closure:%s" % cb["def"], "%s:%d" % (F.rel(cb["file"]), cb["sp"][0]), "no reduction of the adjoint inside the closure", nontrivial=False)
    c.floor("derivative closures", n_clo, 17)
    return c


# ---------------------------------------------------------------------------------- R32

RESHAPE_SUFFIX = "::reshape"
DIMS_PASS = ("core::clone::Clone::clone", "alloc::slice::<impl [T]>::to_vec", "alloc::borrow::ToOwned::to_owned", "core::ops::deref::Deref::deref",
             "core::borrow::Borrow::borrow", "core::convert::AsRef::as_ref", "core::convert::Into::into", "core::convert::From::from",
             "alloc::vec::Vec::<T, A>::as_slice")


def _lets(facts, b):
    env = {}
    for n in walk(facts.root(b)):
        if n.get("k") == "Block":
            for s in n["stmts"]:
                if s["s"] == "let" and s["pat"].get("k") == "Binding" and s.get("init") is not None:
                    env[s["pat"]["v"]] = s["init"]
    return env


def _dims_term(e, env, depth=0):
    """symbolic value of a dimensions expression: ('dims', array-key) | ('var', v) | ('unk', text)"""
    e = F.peel(e)
    if not isinstance(e, dict) or depth > 10:
        return ("unk", "?")
    k = e.get("k")
    if k in ("VarRef", "UpvarRef"):
        v = e["v"]
        if v in env:
            t = _dims_term(env[v], env, depth + 1)
            if t[0] != "unk":
                return t
        return ("var", v)
    if k == "Field" and e.get("adt") == ARRAY and e.get("name") == "dimensions":
        return ("dims", _array_key(e["e"], env))
    if k == "Call":
        c = callee(e) or ""
        r = resolved(e) or ""
        if r == "corgi::array::Array::dimensions" and e["args"]:
            return ("dims", _array_key(e["args"][0], env))
        if (c in DIMS_PASS or r in DIMS_PASS) and e["args"]:
            return _dims_term(e["args"][0], env, depth + 1)
    return ("unk", show(e)[:60])


def _array_key(e, env, depth=0):
    e = F.peel(e)
    if not isinstance(e, dict) or depth > 8:
        return ("?",)
    if e.get("k") in ("VarRef", "UpvarRef"):
        v = e["v"]
        if v in env:
            i = F.peel(env[v])
            # a clone / a re-borrow of an array is the same array as far as its shape goes
            while isinstance(i, dict) and i.get("k") == "Call" and i.get("args") and ((resolved(i) or "") == "<%s as core::clone::Clone>::clone" % ARRAY
                                                                                      or (callee(i) or "") in ("core::clone::Clone::clone", "core::borrow::Borrow::borrow", "core::convert::AsRef::as_ref")):
                i = F.peel(i["args"][0])
            if isinstance(i, dict) and i.get("k") in ("VarRef", "UpvarRef", "Index") and F.var_of(i) != v:
                return _array_key(i, env, depth + 1)
        return ("v", v)
    if e.get("k") == "Index":
        return ("idx", _array_key(e["e"], env, depth + 1), lit_value(e["i"]))
    if e.get("k") == "Call" and callee(e) == "core::ops::index::Index::index" and len(e["args"]) == 2:
        return ("idx", _array_key(e["args"][0], env, depth + 1), lit_value(e["args"][1]))
    return ("?", show(e)[:40])


def r32_sliced_shape_contract(facts):
    """SLICED-SHAPE: a sliced_op call with a single operand walks that operand along `input_dimensions`; they must be the operand's own shape. The adjoint of an operation has the shape of the operation's result, i.e. the constructor's output dimensions with the last flatten_count dimensions collapsed into one"""
    from .engine_rules import SLICED_OP
    c = Ctx("R32", facts, "single-operand sliced_op calls slice their operand along its own dimensions (forward / backward agreement on flattened dimensions)")
    n_sites = 0
    for b in facts.bodies:
        root = facts.root(b)
        if root is None:
            continue
        rootdef = b.get("root", b["def"])
        ctor = facts.body(rootdef)
        env = {}
        if ctor is not None:
            for nb in facts.nested(ctor):
                env.update(_lets(facts, nb))
        for n in walk(root):
            if n.get("k") != "Call" or resolved(n) != SLICED_OP or len(n["args"]) < 7:
                continue
            els = vec_literal_elems(n["args"][0])
            if els is None:
                v = F.var_of(n["args"][0])
                if v and v in env:
                    els = vec_literal_elems(env[v])
            if els is None or len(els) != 1:
                continue
            n_sites += 1
            inst = "site:%s" % b["def"]
            where = F.loc(b, n)
            in_t = _dims_term(n["args"][3], env)
            arr = F.peel(els[0])
            shape = None
            why = ""
            # reshape(a, D) has shape D
            a0 = arr
            if isinstance(a0, dict) and a0.get("k") in ("VarRef", "UpvarRef") and a0["v"] in env:
                init = strip(env[a0["v"]])
                if isinstance(init, dict) and init.get("k") == "Call" and (resolved(init) or "").endswith(RESHAPE_SUFFIX) and len(init["args"]) == 2:
                    shape = _dims_term(init["args"][1], env)
                    why = "reshaped to %s" % show(init["args"][1])[:40]
            if shape is None and isinstance(a0, dict) and a0.get("k") == "Call" and (resolved(a0) or "").endswith(RESHAPE_SUFFIX) and len(a0["args"]) == 2:
                shape = _dims_term(a0["args"][1], env)
                why = "reshaped"
            if shape is None:
                key = _array_key(arr, env)
                # the adjoint parameter of a derivative closure: shape of the constructor's result
                if is_backward_closure(b):
                    ps = [p for p in facts.params(b) if p.get("pat")]
                    xv = ps[2]["pat"].get("v") if len(ps) >= 3 and ps[2]["pat"].get("k") == "Binding" else None
                    if key == ("v", xv) and ctor is not None:
                        attach = [m for m in walk(facts.root(ctor)) if m.get("k") == "Call" and resolved(m) == SLICED_OP and len(m["args"]) >= 7
                                  and not (strip(m["args"][2]).get("k") == "Adt" and strip(m["args"][2]).get("variant") == "None")]
                        if len(attach) == 1:
                            out_t = _dims_term(attach[0]["args"][4], env)
                            fc = strip(attach[0]["args"][6])
                            fcv = lit_value(fc)
                            if fcv == 0 or fcv == 1:
                                shape = out_t
                            else:
                                shape = ("flat", out_t, show(fc)[:40], fcv)
                            why = "adjoint of the result of %s" % (ctor.get("name") or ctor["def"])
                        else:
                            shape = ("unk", "adjoint of a constructor with %d attaching sliced_op calls" % len(attach))
                if shape is None:
                    shape = ("dims", key)
            if shape == in_t:
                c.ok(inst, where, "operand shape %s = input_dimensions%s" % (_fmt_term(shape), (" (" + why + ")") if why else ""))
            elif shape[0] == "flat" and shape[1] == in_t:
                n_ = shape[3]
                if isinstance(n_, int) and n_ <= 1:
                    c.ok(inst, where, "collapsing %d dimension(s) keeps the shape" % n_)
                else:
                    c.bad(inst, where, "the operand (%s) has the shape %s with its last `%s` dimensions collapsed into ONE, but it is sliced along `%s` as if it still had one dimension for each: "
                          "whenever `%s` >= 2 the walk mis-aligns the leading dimensions (every position receives the first element)"
                          % (why, _fmt_term(in_t), shape[2], _fmt_term(in_t), shape[2]))
            elif shape[0] == "unk" or in_t[0] == "unk" or "?" in str(shape) or "?" in str(in_t):
                c.unk(inst, where, "operand shape %s vs input_dimensions %s not comparable" % (_fmt_term(shape), _fmt_term(in_t)))
            else:
                c.unk(inst, where, "operand shape %s and input_dimensions %s are different symbolic values" % (_fmt_term(shape), _fmt_term(in_t)))
    c.floor("single-operand sliced_op call sites", n_sites, 4)
    _sliced_flatten_guard(facts, c)
    _sliced_depth_agreement(facts, c)
    return c


def _sliced_depth_agreement(facts, c):
    """a derivative closure that walks the adjoint back over the operand with sliced_op slices at the same depth as the forward call it belongs to
    (the backward walk is the forward walk with input and output exchanged): the slice depth is the same value, not a function of the operand's rank"""
    from .engine_rules import SLICED_OP
    for b in facts.closures():
        if not is_backward_closure(b):
            continue
        ctor = facts.body(b.get("root", b["def"]))
        if ctor is None:
            continue
        env = {}
        for nb in facts.nested(ctor):
            env.update(_lets(facts, nb))
        attach = [m for m in walk(facts.root(ctor)) if m.get("k") == "Call" and resolved(m) == SLICED_OP and len(m["args"]) >= 7
                  and not (strip(m["args"][2]).get("k") == "Adt" and strip(m["args"][2]).get("variant") == "None")]
        if len(attach) != 1:
            continue
        ps = [p for p in facts.params(b) if p.get("pat")]
        cparam = ps[0]["pat"].get("v") if ps and ps[0]["pat"].get("k") == "Binding" else None
        ctor_params = {v for p_ in facts.params(ctor) if p_.get("pat") for v, _, _, _ in F.pat_bindings(p_["pat"])}

        def term(e, depth=0):
            e = F.peel(e)
            if isinstance(e, dict) and e.get("k") in ("VarRef", "UpvarRef") and depth < 6:
                if e["v"] in env and e["v"] not in ctor_params:
                    return term(env[e["v"]], depth + 1)
                return ("var", e["v"])
            return ("expr", e)
        fwd = term(attach[0]["args"][5])
        for nb in facts.nested(b):
            for n in walk(facts.root(nb)):
                if n.get("k") != "Call" or resolved(n) != SLICED_OP or len(n["args"]) < 7:
                    continue
                inst = "depth:%s" % b["def"]
                where = F.loc(nb, n)
                bwd = term(n["args"][5])
                if fwd[0] == "var" and bwd == fwd:
                    c.ok(inst, where, "the derivative slices at the forward call's depth (`%s`)" % str(fwd[1]).split("#")[0])
                elif fwd[0] == "var" and fwd[1] in ctor_params and bwd[0] == "expr":
                    names = {x["v"] for x in walk(bwd[1]) if x.get("k") in ("VarRef", "UpvarRef")}
                    if names <= {cparam}:
                        c.bad(inst, where, "the forward call slices its operand at depth `%s` (the caller's parameter) but the derivative walks the adjoint back at depth `%s`, a function of the "
                              "operand's rank alone: whenever the two differ the adjoint of one slice is spread over several" % (str(fwd[1]).split("#")[0], show(bwd[1])[:50]))
                    else:
                        c.unk(inst, where, "the derivative's slice depth `%s` is not the forward call's `%s` in a form read here" % (show(bwd[1])[:50], str(fwd[1]).split("#")[0]))
                elif fwd[0] == "var":
                    c.unk(inst, where, "the derivative's slice depth is another variable than the forward call's `%s`" % str(fwd[1]).split("#")[0])


def _sliced_flatten_guard(facts, c):
    """the summary the call sites are judged with - "the last flatten_count output dimensions are collapsed into one" - holds for the primitive
    itself: the statements that rewrite the output dimensions run exactly when flatten_count > 0"""
    so = facts.body("corgi::array::Array::sliced_op")
    if so is None:
        return
    ps = [p for p in facts.params(so) if p.get("pat")]
    fcv = ps[6]["pat"].get("v") if len(ps) > 6 and ps[6]["pat"].get("k") == "Binding" else None
    odv = ps[4]["pat"].get("v") if len(ps) > 4 and ps[4]["pat"].get("k") == "Binding" else None
    if fcv is None:
        return
    root = facts.root(so)
    # the local copy of the output dimensions that is rewritten
    sites = []
    for n, ctx in F.walk_ctx(root):
        if n.get("k") == "Call" and (callee(n) or "").rsplit("::", 1)[-1] in ("truncate", "pop", "drain", "resize", "split_off") and n["args"] and "usize" in (strip(n["args"][0]).get("ty") or ""):
            sites.append((n, ctx))
    inst = "flatten-guard:sliced_op"
    if not sites:
        c.unk(inst, F.loc(so, root), "the statement that collapses the flattened output dimensions is not recognised")
        return
    n, ctx = sites[0]
    # the branches the statement sits in (assertions passed on the way are not guards of it)
    conds = F.path_facts(tuple(fr for fr in ctx if fr[0] in ("if", "logic", "arm", "guard")))
    ok_guard = False
    extra = []
    for cond, truth in conds:
        cs = strip(cond)
        good = False
        if truth and cs.get("k") == "Binary" and F.var_of(cs["l"]) == fcv:
            k_ = lit_value(cs["r"])
            good = (cs["op"], k_) in (("Gt", 0), ("Ne", 0), ("Ge", 1))
        if good:
            ok_guard = True
        else:
            extra.append(cond)
    if ok_guard and not extra:
        c.ok(inst, F.loc(so, n), "the output dimensions are collapsed exactly when flatten_count > 0")
    elif ok_guard:
        c.bad(inst, F.loc(so, n), "the collapse of the last flatten_count output dimensions is additionally conditioned on `%s`: for the other inputs the result keeps one unit dimension per "
              "flattened dimension instead of a single one (its rank depends on something else than flatten_count)" % show(extra[0])[:60])
    else:
        c.unk(inst, F.loc(so, n), "the condition under which the flattened output dimensions are collapsed is not `flatten_count > 0`")


def _fmt_term(t):
    if t[0] == "dims":
        k = t[1]
        return "dims(%s)" % ("c[%s]" % k[2] if k[0] == "idx" else str(k[-1]).split("#")[0])
    if t[0] == "var":
        return str(t[1]).split("#")[0]
    if t[0] == "flat":
        return "collapse(%s, %s)" % (_fmt_term(t[1]), t[2])
    return "?(%s)" % (t[1] if len(t) > 1 else "")
