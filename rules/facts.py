"""Fact extraction (runs the rustc_private driver over /repo's working tree) and the
helpers every rule uses to navigate the THIR / MIR JSON.

Nothing here executes corgi code: the driver stops after analysis (`cargo check`)."""

import fcntl
import glob
import json
import os
import shutil
import subprocess
import sys
import time
import uuid

VERIF = os.path.dirname(os.path.dirname(os.path.abspath(__file__)))
REPO = os.environ.get("CORGI_REPO", "/repo")
DRIVER = os.path.join(VERIF, "driver", "target", "release", "corgi-facts")
CACHE = os.path.join(VERIF, ".cache")
RUN = os.path.join(VERIF, ".run")

CONFIGS = {
    "default": [],
    "f32": ["--features", "f32"],
}


class ExtractionError(Exception):
    pass


def sysroot():
    return subprocess.check_output(["rustc", "+nightly", "--print", "sysroot"], text=True).strip()


def ensure_driver():
    if os.path.exists(DRIVER):
        # rebuild if sources are newer than the binary
        newest = max(os.path.getmtime(p) for p in glob.glob(os.path.join(VERIF, "driver", "src", "*.rs")))
        if newest <= os.path.getmtime(DRIVER):
            return
    env = dict(os.environ, CARGO_NET_OFFLINE="true")
    r = subprocess.run(
        ["cargo", "+nightly", "build", "--release", "--offline"],
        cwd=os.path.join(VERIF, "driver"), env=env, capture_output=True, text=True)
    if r.returncode != 0:
        raise ExtractionError("driver build failed:\n" + r.stderr[-4000:])


def extract(config="default", repo=None, crate="corgi", manifest=None, target_tag=None, lib_only=True):
    """Run the driver on `repo` (default /repo) under `config`; returns parsed facts.
    Fails closed (ExtractionError) if the crate does not type-check or the fact file of
    *this* run (nonce) is not produced."""
    repo = repo or REPO
    ensure_driver()
    os.makedirs(CACHE, exist_ok=True)
    os.makedirs(RUN, exist_ok=True)
    tag = target_tag or config
    tgt = os.path.join(CACHE, "tgt-" + tag)
    nonce = uuid.uuid4().hex
    out = os.path.join(RUN, "facts-%s-%s.json" % (tag, nonce))
    lock_path = os.path.join(CACHE, "lock-" + tag)
    with open(lock_path, "w") as lock:
        fcntl.flock(lock, fcntl.LOCK_EX)
        # cargo's freshness cache would skip the wrapper: forget the crate's fingerprints
        for p in glob.glob(os.path.join(tgt, "debug", ".fingerprint", crate + "-*")):
            shutil.rmtree(p, ignore_errors=True)
        env = dict(os.environ)
        env.update({
            "LD_LIBRARY_PATH": os.path.join(sysroot(), "lib"),
            "CARGO_INCREMENTAL": "0",
            "CARGO_NET_OFFLINE": "true",
            "RUSTFLAGS": "-Zmir-opt-level=0 -Awarnings",
            "RUSTC_WORKSPACE_WRAPPER": DRIVER,
            "CORGI_FACTS_OUT": out,
            "CORGI_FACTS_NONCE": nonce,
            "CORGI_FACTS_CRATE": crate,
            "CARGO_TARGET_DIR": tgt,
        })
        env.pop("RUSTC_WRAPPER", None)
        cmd = ["cargo", "+nightly", "check", "--offline", "--manifest-path",
               manifest or os.path.join(repo, "Cargo.toml")]
        if lib_only:
            cmd.append("--lib")
        cmd += CONFIGS.get(config, [])
        t0 = time.time()
        r = subprocess.run(cmd, env=env, capture_output=True, text=True, cwd=repo)
        dt = time.time() - t0
    if r.returncode != 0:
        raise ExtractionError("cargo check failed for config %s:\n%s" % (config, r.stderr[-6000:]))
    if not os.path.exists(out):
        raise ExtractionError("driver produced no fact file for config %s (wrapper skipped?)" % config)
    with open(out) as f:
        data = json.load(f)
    os.unlink(out)
    if data.get("nonce") != nonce:
        raise ExtractionError("stale fact file (nonce mismatch)")
    data["_config"] = config
    data["_extract_s"] = round(dt, 2)
    data["_cmd"] = " ".join(cmd)
    return Facts(data)


# ----------------------------------------------------------------------------------
# navigation helpers

WRAPPERS = ("Use", "NeverToAny", "PointerCoercion", "ValueTypeAscription", "PlaceTypeAscription")

DEREF_FNS = ("core::ops::deref::Deref::deref", "core::ops::deref::DerefMut::deref_mut")
BORROW_FNS = ("core::borrow::Borrow::borrow", "core::convert::AsRef::as_ref")


def kids(n):
    """Immediate child expression nodes of a THIR node (in evaluation order where it matters)."""
    if n is None:
        return
    k = n.get("k")
    if k == "Block":
        for s in n["stmts"]:
            if s["s"] == "expr":
                yield s["e"]
            else:
                if s.get("init") is not None:
                    yield s["init"]
                for g in pat_exprs(s["pat"]):
                    yield g
                if s.get("else") is not None:
                    yield s["else"]
        if n.get("e") is not None:
            yield n["e"]
        return
    if k == "Match":
        yield n["scrutinee"]
        for a in n["arms"]:
            for g in pat_exprs(a["pat"]):
                yield g
            if a.get("guard") is not None:
                yield a["guard"]
            yield a["body"]
        return
    if k == "Call":
        if n.get("fun") is not None:
            yield n["fun"]
        for a in n["args"]:
            yield a
        return
    if k == "Adt":
        for f in n["fields"]:
            yield f["e"]
        if n.get("base") is not None:
            yield n["base"]
        return
    if k == "Closure":
        for u in n["upvars"]:
            yield u
        return
    if k == "Let":
        yield n["e"]
        for g in pat_exprs(n["pat"]):
            yield g
        return
    for key in ("cond", "then", "else", "e", "l", "r", "i", "body"):
        v = n.get(key)
        if isinstance(v, dict) and "k" in v:
            yield v
    for key in ("fields",):
        v = n.get(key)
        if isinstance(v, list):
            for x in v:
                if isinstance(x, dict) and "k" in x:
                    yield x


def pat_exprs(p):
    """Expressions nested in a pattern (guards)."""
    if not isinstance(p, dict):
        return
    if p.get("k") == "Guard":
        yield p["cond"]
    for key in ("sub", "slice"):
        if isinstance(p.get(key), dict):
            for g in pat_exprs(p[key]):
                yield g
    for key in ("subs",):
        for s in p.get(key, []) or []:
            for g in pat_exprs(s["pat"]):
                yield g
    for key in ("pats", "prefix", "suffix"):
        for s in p.get(key, []) or []:
            for g in pat_exprs(s):
                yield g


def pat_bindings(p):
    """(var, name, type, path) for every binding of a pattern; path is the list of field
    names / 'deref' leading to it."""
    out = []

    def go(p, path):
        if not isinstance(p, dict):
            return
        k = p.get("k")
        if k == "Binding":
            out.append((p["v"], p["name"], p["ty"], list(path)))
            if isinstance(p.get("sub"), dict):
                go(p["sub"], path)
        elif k in ("Leaf", "Variant"):
            for s in p.get("subs", []):
                tag = s["field"] if k == "Leaf" else "%s.%s" % (p.get("variant"), s["field"])
                go(s["pat"], path + [tag])
        elif k in ("Deref", "DerefPattern"):
            go(p["sub"], path + ["*"])
        elif k == "Guard":
            go(p["sub"], path)
        elif k == "Or":
            for q in p["pats"]:
                go(q, path)
        elif k in ("Slice", "Array"):
            for i, q in enumerate(p.get("prefix", [])):
                go(q, path + ["[%d]" % i])
            if isinstance(p.get("slice"), dict):
                go(p["slice"], path + ["[..]"])
            for i, q in enumerate(p.get("suffix", [])):
                go(q, path + ["[-%d]" % i])

    go(p, [])
    return out


def walk(n):
    """All expression nodes under n (pre-order), not crossing into other bodies (closure
    bodies are separate bodies; the Closure node itself is yielded)."""
    if n is None:
        return
    stack = [n]
    while stack:
        x = stack.pop()
        yield x
        ch = list(kids(x))
        stack.extend(reversed(ch))


def callee(n):
    """Canonical path of a Call node's callee (trait item path for trait methods)."""
    if n.get("k") != "Call":
        return None
    c = n.get("callee")
    return c["path"] if c else None


def resolved(n):
    """Resolved implementation path for a Call node (falls back to the declared path)."""
    c = n.get("callee") if n.get("k") == "Call" else None
    if not c:
        return None
    return c.get("resolved") or c["path"]


def is_call(n, *paths):
    return n.get("k") == "Call" and (callee(n) in paths or resolved(n) in paths)


def strip(n):
    """Peel value-preserving wrappers: Use, NeverToAny, coercions, ascriptions and
    blocks that consist only of a tail expression."""
    while isinstance(n, dict):
        k = n.get("k")
        if k in WRAPPERS:
            n = n["e"]
        elif k == "Block" and not n["stmts"] and n.get("e") is not None:
            n = n["e"]
        else:
            break
    return n


def peel(n):
    """strip + remove borrows, built-in derefs and Deref::deref / AsRef / Borrow calls:
    what is left is the *place or value the expression refers to*."""
    while True:
        n = strip(n)
        if not isinstance(n, dict):
            return n
        k = n.get("k")
        if k in ("Borrow", "Deref", "RawBorrow"):
            n = n["e"]
        elif k == "Call" and callee(n) in DEREF_FNS + BORROW_FNS and len(n["args"]) == 1:
            n = n["args"][0]
        else:
            return n


def loc(body, n):
    sp = n.get("sp") if isinstance(n, dict) else None
    if sp:
        return "%s:%d" % (rel(body["file"]), sp[0])
    return "%s:%d" % (rel(body["file"]), body["sp"][0])


def rel(path):
    for prefix in (REPO + "/",):
        if path.startswith(prefix):
            return path[len(prefix):]
    return path


def field_chain(n):
    """For a (peeled) place expression return (root_node, [field names]) e.g.
    `self.children` -> (VarRef self, ['children']); index projections are recorded as '[]'."""
    names = []
    n = peel(n)
    while isinstance(n, dict):
        k = n.get("k")
        if k == "Field":
            names.append(n["name"])
            n = peel(n["e"])
        elif k == "Index":
            names.append("[]")
            n = peel(n["e"])
        elif k == "Call" and callee(n) in ("core::ops::index::Index::index", "core::ops::index::IndexMut::index_mut"):
            names.append("[]")
            n = peel(n["args"][0])
        else:
            break
    names.reverse()
    return n, names


def var_of(n):
    n = peel(n)
    if isinstance(n, dict) and n.get("k") in ("VarRef", "UpvarRef"):
        return n["v"]
    return None


def lit_value(n):
    """Python value of a literal node (int / float / bool) or None."""
    n = strip(n)
    if not isinstance(n, dict):
        return None
    if n.get("k") == "Literal":
        s = n["lit"]
        neg = n.get("neg")
        if s in ("true", "false"):
            return s == "true"
        t = s
        for suf in ("usize", "isize", "u8", "u16", "u32", "u64", "u128", "i8", "i16", "i32", "i64", "i128", "f32", "f64"):
            if t.endswith(suf) and not t.startswith("0x"):
                t = t[: -len(suf)]
                break
        t = t.rstrip("_").replace("_", "")
        try:
            v = int(t)
        except ValueError:
            try:
                v = float(t)
            except ValueError:
                return None
        return -v if neg else v
    if n.get("k") == "Unary" and n.get("op") == "Neg":
        v = lit_value(n["e"])
        return -v if v is not None else None
    return None


BOP_SIG = "core::ops::function::Fn(&'a [corgi::array::Array], &'b [bool], &'c corgi::array::Array)"


def canonicalise(data):
    """Rename-robustness: private fields of `Array` and private engine/builder functions are
    identified by *role* (type, signature, which public accessor reads them) and renamed, in
    the fact set, to the canonical names the rules use.  Public names are never touched (a
    public rename is an API change).  Returns {old: new} for the report."""
    arr = None
    for a in data["adts"]:
        if a["def"] == "corgi::array::Array":
            arr = a
    if arr is None:
        return {}
    fields = [f for v in arr["variants"] for f in v["fields"]]
    names = {f["name"] for f in fields}
    fl = data.get("float", "f64")
    by_def = {b["def"]: b for b in data["bodies"]}

    def array_fields_touched(b):
        out = set()
        mir = b.get("mir") or {}
        for p in mir.get("field_places", []):
            for e in p["proj"]:
                if isinstance(e, dict) and e.get("adt") == "corgi::array::Array":
                    out.add(e["field"])
        return out

    def pub_method(name):
        for b in data["bodies"]:
            if b.get("impl_self") == "corgi::array::Array" and b.get("impl_trait_def") is None and b.get("name") == name and b.get("reachable"):
                return b
        return None
    fmap = {}

    def unique_by_type(pred, canon):
        c = [f["name"] for f in fields if pred(f["ty"])]
        if len(c) == 1:
            fmap[c[0]] = canon
    unique_by_type(lambda t: t == "alloc::rc::Rc<alloc::vec::Vec<corgi::array::Array>>", "children")
    unique_by_type(lambda t: t.startswith("core::option::Option<alloc::rc::Rc<") and BOP_SIG in t, "backward_op")
    unique_by_type(lambda t: t == "alloc::rc::Rc<core::cell::Cell<usize>>", "consumer_count")
    unique_by_type(lambda t: t == "alloc::rc::Rc<core::cell::Cell<core::option::Option<corgi::array::Array>>>", "delta")
    unique_by_type(lambda t: t == "alloc::rc::Rc<core::cell::RefCell<core::option::Option<corgi::array::Array>>>", "gradient")
    for acc, canon in (("dimensions", "dimensions"), ("values", "values")):
        b = pub_method(acc)
        if b is not None:
            t = array_fields_touched(b)
            if len(t) == 1:
                fmap[next(iter(t))] = canon
    flags = [f["name"] for f in fields if f["ty"] == "core::cell::Cell<bool>"]
    st = pub_method("start_tracking")
    if st is not None and len(flags) == 2:
        t = array_fields_touched(st) & set(flags)
        if len(t) == 1:
            tf = next(iter(t))
            fmap[tf] = "is_tracked"
            fmap[[x for x in flags if x != tf][0]] = "keep_gradient"
    fmap = {o: n for o, n in fmap.items() if o != n}
    # refuse on collisions (a different field already carries the canonical name)
    for o, n in list(fmap.items()):
        if n in names and n not in fmap:
            fmap = {}
            break

    # private functions by signature
    dmap = {}
    A = "corgi::array::Array"

    def priv(b):
        return b["kind"] in ("Fn", "AssocFn") and not b.get("reachable") and not b.get("impl_trait_def")

    def unique_fn(pred, canon):
        c = [b for b in data["bodies"] if priv(b) and pred(b)]
        if len(c) == 1 and c[0]["def"] != A + "::" + canon:
            dmap[c[0]["def"]] = A + "::" + canon
    counter_field = next((o for o, n in fmap.items() if n == "consumer_count"), "consumer_count")
    unique_fn(lambda b: b.get("impl_self") == A and b.get("inputs") == ["&" + A] and b.get("output") == "()"
              and counter_field in array_fields_touched(b), "propagate_consumers")
    unique_fn(lambda b: b.get("impl_self") == A and b.get("inputs") == [A, "&[usize]"] and b.get("output") == A, "flatten_to")
    unique_fn(lambda b: b.get("impl_self") == A and b.get("inputs") == [A, "alloc::vec::Vec<corgi::array::Array>"] and b.get("output") == A, "with_children")
    unique_fn(lambda b: b.get("impl_self") == A and len(b.get("inputs") or []) == 2 and b["inputs"][0] == A and b["inputs"][1].startswith("alloc::rc::Rc<")
              and BOP_SIG in b["inputs"][1] and b.get("output") == A, "with_backward_op")
    unique_fn(lambda b: any(i.startswith("core::option::Option<alloc::rc::Rc<") and BOP_SIG in i for i in (b.get("inputs") or []))
              and "alloc::vec::Vec<&corgi::array::Array>" in (b.get("inputs") or []) and b.get("output") == A, "sliced_op")
    # never map onto a def that already exists
    dmap = {o: n for o, n in dmap.items() if n not in by_def}
    if not fmap and not dmap:
        return {}

    olds = sorted(dmap, key=len, reverse=True)

    def fix_def(sv):
        for o in olds:
            if sv == o:
                return dmap[o]
            if sv.startswith(o + "::"):
                return dmap[o] + sv[len(o):]
        return sv
    DEF_KEYS = ("def", "parent", "root", "path", "resolved", "closure")

    def rec(x, parent_adt=None):
        if isinstance(x, dict):
            if dmap:
                for k in DEF_KEYS:
                    v = x.get(k)
                    if isinstance(v, str) and "::" in v:
                        x[k] = fix_def(v)
                if x.get("name") and isinstance(x.get("def"), str) and x.get("kind") in ("Fn", "AssocFn"):
                    x["name"] = x["def"].rsplit("::", 1)[-1]
            if fmap:
                if x.get("k") == "Field" and x.get("adt") == A and x.get("name") in fmap:
                    x["name"] = fmap[x["name"]]
                if "field" in x and x.get("adt") == A and x.get("field") in fmap:
                    x["field"] = fmap[x["field"]]
                if x.get("k") == "Adt" and x.get("adt") == A:
                    for f in x.get("fields", []):
                        if f.get("name") in fmap:
                            f["name"] = fmap[f["name"]]
                if x.get("k") in ("Leaf", "Variant") and x.get("adt") == A:
                    for sp in x.get("subs", []):
                        if sp.get("field") in fmap:
                            sp["field"] = fmap[sp["field"]]
            for v in x.values():
                if isinstance(v, (dict, list)):
                    rec(v)
        elif isinstance(x, list):
            for v in x:
                if isinstance(v, (dict, list)):
                    rec(v)
    rec(data["bodies"])
    rec(data["items"])
    for f in fields:
        if f["name"] in fmap:
            f["orig_name"] = f["name"]
            f["name"] = fmap[f["name"]]
    # MIR aggregates carry field names too
    for b in data["bodies"]:
        for ag in (b.get("mir") or {}).get("aggregates", []):
            if ag.get("adt") == A:
                for f in ag.get("fields", []):
                    if f.get("name") in fmap:
                        f["name"] = fmap[f["name"]]
    out = dict(fmap)
    out.update(dmap)
    return out


class Facts:
    def __init__(self, data):
        self.renamed = canonicalise(data) if "bodies" in data and "adts" in data and not data.get("_canonical") else {}
        data["_canonical"] = True
        self.data = data
        self.config = data.get("_config")
        self.bodies = data["bodies"]
        self.by_def = {}
        for b in self.bodies:
            self.by_def[b["def"]] = b
        self.adts = {a["def"]: a for a in data["adts"]}
        self.items = data["items"]
        self.float = data.get("float")
        self.children_of = {}
        for b in self.bodies:
            if b.get("parent"):
                self.children_of.setdefault(b["parent"], []).append(b)
        self._fold_literal_consts()
        if not self.data.get("_flag_matches_normalised"):
            self.data["_flag_matches_normalised"] = True
            from . import normalise
            self.flag_matches_rewritten = normalise.normalise_flag_matches(self)

    def _fold_literal_consts(self):
        """A use of a crate-local `const NAME: T = <literal>;` reads as that literal (the name is a spelling of the number: `== NO_CONSUMERS`
        for `== 0`).  Constants with a computed initialiser stay named."""
        if self.data.get("_consts_folded"):
            return
        self.data["_consts_folded"] = True
        lits = {}
        for b in self.bodies:
            if b["kind"].startswith("Const") and b.get("thir"):
                r = strip(b["thir"]["root"])
                neg = False
                if isinstance(r, dict) and r.get("k") == "Unary" and r.get("op") == "Neg":
                    r, neg = strip(r["e"]), True
                if isinstance(r, dict) and r.get("k") == "Literal":
                    lits[b["def"]] = (r, neg)
        if not lits:
            return
        for b in self.bodies:
            if not b.get("thir"):
                continue
            for x in walk(b["thir"]["root"]):
                if x.get("k") == "NamedConst" and x.get("def") in lits:
                    r, neg = lits[x["def"]]
                    sp, ty, d = x.get("sp"), x.get("ty"), x["def"]
                    x.clear()
                    x.update({"k": "Literal", "ty": ty, "sp": sp, "lit": r["lit"], "neg": bool(r.get("neg")) != neg, "const_name": d})

    def body(self, d):
        return self.by_def.get(d)

    def root(self, b):
        return b["thir"]["root"] if b.get("thir") else None

    def params(self, b):
        return b["thir"]["params"] if b.get("thir") else []

    def fns(self):
        return [b for b in self.bodies if b["kind"] in ("Fn", "AssocFn")]

    def closures(self):
        return [b for b in self.bodies if b["kind"] == "Closure"]

    def nested(self, b):
        """b and all closure bodies nested (transitively) in it."""
        out = [b]
        for c in self.children_of.get(b["def"], []):
            out.extend(self.nested(c))
        return out

    def find(self, suffix):
        """The unique body whose def path ends with `suffix`; None when absent/ambiguous."""
        m = [b for b in self.bodies if b["def"].endswith(suffix)]
        return m[0] if len(m) == 1 else None

    def adt_fields(self, adt):
        a = self.adts.get(adt)
        if not a:
            return []
        out = []
        for v in a["variants"]:
            out.extend(v["fields"])
        return out


ARRAY = "corgi::array::Array"


def is_backward_closure(b):
    """Closure literal whose signature is Fn(&[Array], &[bool], &Array) -> Vec<Option<Array>>."""
    if b["kind"] != "Closure":
        return False
    ins = b.get("closure_inputs")
    out = b.get("closure_output")
    if not ins or len(ins) != 1:
        return False
    return (ins[0] == "(&[corgi::array::Array], &[bool], &corgi::array::Array)"
            and out == "alloc::vec::Vec<core::option::Option<corgi::array::Array>>")


def is_sliced_closure(b, facts=None):
    if b["kind"] != "Closure":
        return False
    ins = b.get("closure_inputs")
    fl = (facts.float if facts else None) or "f64"
    if not ins or len(ins) != 1:
        return False
    return ins[0] in ("(&mut [%s], &[&[%s]])" % (fl, fl),) and b.get("closure_output") == "()"


# ----------------------------------------------------------------------------------
# context-carrying traversal (control dependence read off THIR nesting)

def _diverging(n):
    """does evaluating n always leave the enclosing statement sequence (return / break /
    continue / panic)?  Used for early-exit guards: `if c { continue }`."""
    n = strip(n)
    if not isinstance(n, dict):
        return False
    k = n.get("k")
    if k in ("Return", "Break", "Continue"):
        return True
    if k == "Call":
        return n.get("ty") == "!" or (callee(n) or "").startswith("core::panicking::") or (callee(n) or "").startswith("std::panicking::")
    if k == "Block":
        for s in n["stmts"]:
            if s["s"] == "expr" and _diverging(s["e"]):
                return True
        return n.get("e") is not None and _diverging(n["e"])
    if k == "If":
        return n.get("else") is not None and _diverging(n["then"]) and _diverging(n["else"])
    return False


def walk_ctx(n, ctx=()):
    """Yield (node, ctx) for every expression node under n.  ctx is a tuple of frames:
    ('if', if_node, 'cond'|'then'|'else'), ('arm', match_node, index), ('guard', match_node, index),
    ('loop', loop_node), ('logic', node, op), and — for statements that follow an early-exit
    guard in the same block — ('after', if_node, truth) meaning "if_node's condition had
    value `truth` (the other branch left the block)", ('after-arm', match_node, [indices of
    the arms that did not leave]) and ('let-else', stmt).  Structured control flow only: a
    node is executed only if every enclosing frame holds."""
    if n is None:
        return
    yield n, ctx
    k = n.get("k")
    if k == "If":
        for x in walk_ctx(n["cond"], ctx + (("if", n, "cond"),)):
            yield x
        for x in walk_ctx(n["then"], ctx + (("if", n, "then"),)):
            yield x
        if n.get("else") is not None:
            for x in walk_ctx(n["else"], ctx + (("if", n, "else"),)):
                yield x
        return
    if k == "Match":
        for x in walk_ctx(n["scrutinee"], ctx):
            yield x
        for i, a in enumerate(n["arms"]):
            if a.get("guard") is not None:
                for x in walk_ctx(a["guard"], ctx + (("guard", n, i),)):
                    yield x
            for x in walk_ctx(a["body"], ctx + (("arm", n, i),)):
                yield x
        return
    if k == "Loop":
        for x in walk_ctx(n["body"], ctx + (("loop", n),)):
            yield x
        return
    if k == "LogicalOp":
        for x in walk_ctx(n["l"], ctx):
            yield x
        for x in walk_ctx(n["r"], ctx + (("logic", n, n["op"]),)):
            yield x
        return
    if k == "Block":
        cur = ctx
        for s in n["stmts"]:
            if s["s"] == "expr":
                for x in walk_ctx(s["e"], cur):
                    yield x
                e = strip(s["e"])
                if isinstance(e, dict) and e.get("k") == "If":
                    if e.get("else") is None and _diverging(e["then"]):
                        cur = cur + (("after", e, False),)
                    elif e.get("else") is not None and _diverging(e["else"]) and not _diverging(e["then"]):
                        cur = cur + (("after", e, True),)
                    elif e.get("else") is not None and _diverging(e["then"]) and not _diverging(e["else"]):
                        cur = cur + (("after", e, False),)
                elif isinstance(e, dict) and e.get("k") == "Match" and not str(e.get("source", "")).startswith("ForLoopDesugar"):
                    stay = [i for i, a in enumerate(e["arms"]) if not _diverging(a["body"])]
                    if len(stay) < len(e["arms"]):
                        cur = cur + (("after-arm", e, stay),)
            else:
                if s.get("init") is not None:
                    for x in walk_ctx(s["init"], cur):
                        yield x
                    # `let g = match opt { Some(g) => g, None => continue };` / `let v = if c { return } else { .. };`:
                    # the statements that follow run only on the arms / branch that did not leave
                    e = strip(s["init"])
                    if isinstance(e, dict) and e.get("k") == "Match" and not str(e.get("source", "")).startswith("ForLoopDesugar"):
                        stay = [i for i, a in enumerate(e["arms"]) if not _diverging(a["body"])]
                        if 0 < len(stay) < len(e["arms"]):
                            cur = cur + (("after-arm", e, stay),)
                    elif isinstance(e, dict) and e.get("k") == "If" and e.get("else") is not None:
                        if _diverging(e["then"]) and not _diverging(e["else"]):
                            cur = cur + (("after", e, False),)
                        elif _diverging(e["else"]) and not _diverging(e["then"]):
                            cur = cur + (("after", e, True),)
                for g in pat_exprs(s["pat"]):
                    for x in walk_ctx(g, cur):
                        yield x
                if s.get("else") is not None:
                    for x in walk_ctx(s["else"], cur):
                        yield x
                    cur = cur + (("let-else", s),)
        if n.get("e") is not None:
            for x in walk_ctx(n["e"], cur):
                yield x
        return
    for ch in kids(n):
        for x in walk_ctx(ch, ctx):
            yield x


def path_facts(ctx):
    """[(condition expr, truth)] that hold on the path described by ctx: conditions of the
    enclosing ifs and of the early-exit guards passed on the way."""
    out = []
    for fr in ctx:
        if fr[0] == "if" and fr[2] in ("then", "else"):
            out.append((fr[1]["cond"], fr[2] == "then"))
        elif fr[0] == "after":
            out.append((fr[1]["cond"], fr[2]))
        elif fr[0] == "logic":
            # right operand of && is evaluated only if the left is true; of || only if false
            out.append((fr[1]["l"], fr[2] == "And"))
        elif fr[0] == "arm":
            # `match cond { true => .., false => .. }` is an if
            tv = _bool_arm_value(fr[1], fr[2])
            if tv is not None:
                out.append((fr[1]["scrutinee"], tv))
        elif fr[0] == "after-arm" and len(fr[2]) == 1:
            tv = _bool_arm_value(fr[1], fr[2][0])
            if tv is not None:
                out.append((fr[1]["scrutinee"], tv))
    norm = []
    for cond, truth in out:
        c = strip(cond)
        # a block used as a condition has the value of its tail (e.g. an inlined helper returning a bool)
        while isinstance(c, dict) and c.get("k") == "Block" and c.get("e") is not None:
            c = strip(c["e"])
        while isinstance(c, dict) and ((c.get("k") == "Unary" and c.get("op") == "Not") or (c.get("k") == "Call" and callee(c) == "core::ops::bit::Not::not")):
            c = strip(c["e"] if c.get("k") == "Unary" else c["args"][0])
            truth = not truth
        # a true conjunction makes both conjuncts true; a false disjunction makes both false
        stack = [(c, truth)]
        while stack:
            e, t = stack.pop()
            e = strip(e)
            neg = False
            while isinstance(e, dict) and ((e.get("k") == "Unary" and e.get("op") == "Not") or (e.get("k") == "Call" and callee(e) == "core::ops::bit::Not::not")):
                e = strip(e["e"] if e.get("k") == "Unary" else e["args"][0])
                t = not t
            if isinstance(e, dict) and e.get("k") == "LogicalOp" and ((e["op"] == "And" and t) or (e["op"] == "Or" and not t)):
                stack.append((e["l"], t))
                stack.append((e["r"], t))
            else:
                norm.append((e, t))
    return norm


def _bool_arm_value(m, i):
    """truth value of the (bool) scrutinee in arm i of a match over `true` / `false` / `_`, or None"""
    def val(p):
        if isinstance(p, dict) and p.get("k") == "Constant" and p.get("ty") == "bool" and p.get("value") in ("true", "false"):
            return p["value"] == "true"
        return None
    arms = m["arms"]
    if any(a.get("guard") is not None for a in arms[:i + 1]):
        return None
    v = val(arms[i]["pat"])
    if v is not None:
        return v
    p = arms[i]["pat"]
    if isinstance(p, dict) and p.get("k") in ("Wild", "Binding") and not p.get("sub") and (p.get("ty") == "bool" or strip(m["scrutinee"]).get("ty") == "bool"):
        prev = [val(a["pat"]) for a in arms[:i]]
        if prev and all(x is not None for x in prev) and len(set(prev)) == 1:
            return not prev[0]
    return None


def some_bindings_on_path(ctx):
    """Option scrutinee expressions known to be `Some` on this path (if-let / match arm /
    let-else / early `None => continue`), with the pattern that binds the payload."""
    out = []
    for fr in ctx:
        if fr[0] == "if" and fr[2] == "then":
            cond = strip(fr[1]["cond"])
            if cond.get("k") == "Let" and _is_some_pat(cond["pat"]):
                out.append((cond["e"], cond["pat"]))
        elif fr[0] == "arm":
            a = fr[1]["arms"][fr[2]]
            if _is_some_pat(a["pat"]):
                out.append((fr[1]["scrutinee"], a["pat"]))
        elif fr[0] == "after-arm":
            for i in fr[2]:
                a = fr[1]["arms"][i]
                if _is_some_pat(a["pat"]):
                    out.append((fr[1]["scrutinee"], a["pat"]))
        elif fr[0] == "let-else":
            if _is_some_pat(fr[1]["pat"]):
                out.append((fr[1].get("init"), fr[1]["pat"]))
    return out


def _is_some_pat(p):
    while isinstance(p, dict) and p.get("k") in ("Deref", "DerefPattern"):
        p = p["sub"]
    return isinstance(p, dict) and p.get("k") == "Variant" and p.get("adt") == "core::option::Option" and p.get("variant") == "Some"


def none_on_path(ctx):
    """Option scrutinee expressions known to be `None` on this path."""
    out = []
    for fr in ctx:
        if fr[0] == "if" and fr[2] == "else":
            cond = strip(fr[1]["cond"])
            if cond.get("k") == "Let" and _is_some_pat(cond["pat"]):
                out.append(cond["e"])
        elif fr[0] == "arm":
            p = fr[1]["arms"][fr[2]]["pat"]
            while isinstance(p, dict) and p.get("k") in ("Deref", "DerefPattern"):
                p = p["sub"]
            if isinstance(p, dict) and p.get("k") == "Variant" and p.get("adt") == "core::option::Option" and p.get("variant") == "None":
                out.append(fr[1]["scrutinee"])
    return out


def bindings_of(root):
    """var -> ('let', init_expr) | ('pat', scrutinee_expr, path, owner_node) for every
    binding introduced inside root (let statements, match arms, if-let)."""
    out = {}
    for n in walk(root):
        k = n.get("k")
        if k == "Block":
            for s in n["stmts"]:
                if s["s"] == "let":
                    for v, name, ty, path in pat_bindings(s["pat"]):
                        if not path:
                            out[v] = ("let", s.get("init"))
                        else:
                            out[v] = ("pat", s.get("init"), path, s)
        elif k == "Match":
            for a in n["arms"]:
                for v, name, ty, path in pat_bindings(a["pat"]):
                    out[v] = ("pat", n["scrutinee"], path, n)
        elif k == "Let":
            for v, name, ty, path in pat_bindings(n["pat"]):
                out[v] = ("pat", n["e"], path, n)
    return out


def for_loop_parts(n):
    """If n is the desugaring of `for PAT in ITER { BODY }` return (iter_expr, pat, body)."""
    n = strip(n)
    if n.get("k") != "Match" or not n.get("source", "").startswith("ForLoopDesugar"):
        return None
    it = strip(n["scrutinee"])
    if it.get("k") == "Call" and callee(it) == "core::iter::traits::collect::IntoIterator::into_iter":
        it = it["args"][0]
    try:
        loop = strip(n["arms"][0]["body"])
        inner = strip(loop["body"])
        # loop { match next(&mut iter) { None => break, Some(pat) => body } }
        while inner.get("k") == "Block":
            if inner["stmts"]:
                inner = strip(inner["stmts"][0]["e"]) if inner["stmts"][0]["s"] == "expr" else None
            else:
                inner = strip(inner["e"])
        for a in inner["arms"]:
            if a["pat"].get("k") == "Variant" and a["pat"]["variant"] == "Some":
                return it, a["pat"]["subs"][0]["pat"], a["body"], loop
    except (KeyError, IndexError, TypeError, AttributeError):
        return None
    return None


def clone_body(facts):
    """The body that builds `<Array as Clone>::clone`'s result: the impl itself, or - when the impl only delegates (`fn clone(&self) -> Self {
    self.share() }`) - the private function of `&self` it delegates to (followed twice at most)."""
    b = None
    for x in facts.fns():
        if x.get("impl_self") == ARRAY and x.get("impl_trait_def") == "core::clone::Clone" and x.get("name") == "clone":
            b = x
    hops = 0
    while b is not None and hops < 2:
        root = strip(facts.root(b)) if b.get("thir") else None
        tl = root
        while isinstance(tl, dict) and tl.get("k") == "Block" and not tl["stmts"] and tl.get("e") is not None:
            tl = strip(tl["e"])
        if isinstance(tl, dict) and tl.get("k") == "Call" and (tl.get("callee") or {}).get("resolved_local") and len(tl.get("args") or []) == 1:
            ps = [p_ for p_ in facts.params(b) if p_.get("pat")]
            a0 = peel(tl["args"][0])
            nb = facts.body(resolved(tl))
            if ps and ps[0]["pat"].get("k") == "Binding" and isinstance(a0, dict) and a0.get("k") in ("VarRef",) and a0["v"] == ps[0]["pat"]["v"] \
                    and nb is not None and nb.get("thir") and nb.get("impl_self") == ARRAY and nb.get("impl_trait_def") is None and not nb.get("reachable"):
                b = nb
                hops += 1
                continue
        break
    return b
