"""Linearity type system (rule R13) — an abstract interpreter over THIR.

Abstract values
    Z  identically zero                       L  linear-homogeneous in the incoming adjoint x
    C  independent of x                        N  anything else (non-linear / affine / unknown)
plus structure: tuples, vectors of arrays, options with known presence, Boolean constants,
closures, function items and references to mutable buffers (so that stores through
`iter_mut()`, `buf[i] = ..`, `+=` and `&mut` out-parameters update the buffer's type).

Crate-local callees are analysed through their bodies (memoised on the argument types),
so the verdict for a backward closure covers the sliced-op closures and helper functions it
reaches.  `Array::sliced_op` is the one trusted primitive: "applies `op` to slices of the
input arrays, writing into a zero-initialised output".  Foreign callees need a summary
(SUMMARIES below, one line of mathematical reason each); a foreign callee without one
that receives a non-C argument makes the result N and is reported as unclassified."""

from . import facts as F
from .facts import callee, resolved, strip, ARRAY, lit_value
from .show import show

Z, L, C, N = "Z", "L", "C", "N"


class T:
    """abstract value"""
    __slots__ = ("k", "const", "items", "present", "inner", "cell", "d", "env", "fn")

    def __init__(self, k, const=None, items=None, present=None, inner=None, cell=None, d=None, env=None, fn=None):
        self.k = k          # Z L C N | 'tup' | 'vec' | 'opt' | 'ref' | 'clo' | 'fn'
        self.const = const
        self.items = items
        self.present = present
        self.inner = inner
        self.cell = cell
        self.d = d
        self.env = env
        self.fn = fn

    def __repr__(self):
        if self.k in (Z, L, C, N):
            return self.k + ("=%s" % self.const if self.const is not None else "")
        if self.k in ("tup", "vec"):
            return "%s%s" % (self.k, self.items)
        if self.k == "opt":
            return "opt(%s,%s)" % (self.present, self.inner)
        if self.k == "ref":
            return "ref(%s)" % self.cell.t
        if self.k == "clo":
            return "clo(%s)" % self.d.split("::")[-1]
        return "fn(%s)" % self.fn


tZ, tL, tC, tN = T(Z), T(L), T(C), T(N)


class Cell:
    __slots__ = ("t",)

    def __init__(self, t):
        self.t = t


def scalar(t):
    """collapse a structured value to one of Z/L/C/N"""
    if t is None:
        return N
    if t.k in (Z, L, C, N):
        return t.k
    if t.k == "ref":
        return scalar(t.cell.t)
    if t.k in ("tup", "vec"):
        out = Z
        for x in t.items:
            out = join_branch(out, scalar(x))
        return out
    if t.k == "opt":
        if t.present is False:
            return Z
        return scalar(t.inner) if t.inner is not None else N
    if t.k in ("clo", "fn"):
        return C
    return N


def join_branch(a, b):
    """value that is a on some paths/elements and b on others (path conditions are C)"""
    if a == b:
        return a
    if N in (a, b):
        return N
    if a == Z:
        return b
    if b == Z:
        return a
    return N        # L vs C


def add(a, b):
    if N in (a, b):
        return N
    if a == Z:
        return b
    if b == Z:
        return a
    if a == b:
        return a
    return N        # L + C is affine, not linear-homogeneous


def mul(a, b):
    if Z in (a, b):
        return Z
    if N in (a, b):
        return N
    if a == C and b == C:
        return C
    if a == L and b == L:
        return N
    return L


def div(a, b):
    if b != C:
        return N if b != Z else N
    if a in (Z, L, C):
        return a
    return N


def nonlinear(*args):
    return C if all(a == C for a in args) else N


# callee path (declared or resolved) -> handler name.  Reasons in SUMMARY_REASONS.
IDENT_FIRST = {
    "core::ops::deref::Deref::deref", "core::ops::deref::DerefMut::deref_mut", "core::clone::Clone::clone",
    "alloc::rc::Rc::<T>::new", "alloc::boxed::Box::<T>::new", "alloc::slice::<impl [T]>::to_vec",
    "alloc::borrow::ToOwned::to_owned", "core::convert::AsRef::as_ref", "core::borrow::Borrow::borrow",
    "core::slice::<impl [T]>::iter", "core::iter::traits::collect::IntoIterator::into_iter",
    "core::iter::traits::iterator::Iterator::copied", "core::iter::traits::iterator::Iterator::cloned",
    "core::iter::traits::iterator::Iterator::rev", "core::iter::traits::iterator::Iterator::collect",
    "core::iter::traits::iterator::Iterator::sum", "core::iter::traits::iterator::Iterator::cycle",
    "core::iter::traits::iterator::Iterator::by_ref", "core::iter::traits::iterator::Iterator::peekable",
    "alloc::vec::Vec::<T, A>::as_slice", "alloc::vec::Vec::<T, A>::into_boxed_slice",
    "core::option::Option::<T>::unwrap", "core::option::Option::<T>::expect", "core::option::Option::<&T>::copied",
    "core::option::Option::<&T>::cloned", "core::option::Option::<T>::as_ref",
    "corgi::array::Array::values", "corgi::array::Array::with_children", "corgi::array::Array::with_backward_op",
    "corgi::array::Array::tracked", "corgi::array::Array::untracked",
    "core::convert::Into::into",
    "core::slice::<impl [T]>::last", "core::slice::<impl [T]>::first",
}
IDENT_FIRST_C_REST = {
    "core::iter::traits::iterator::Iterator::skip", "core::iter::traits::iterator::Iterator::take",
    "core::iter::traits::iterator::Iterator::step_by", "core::iter::traits::iterator::Iterator::nth",
    "core::slice::<impl [T]>::chunks", "core::slice::<impl [T]>::split_at",
}
SHAPE_ONLY = {
    "corgi::array::Array::dimensions", "alloc::vec::Vec::<T, A>::len", "core::slice::<impl [T]>::len",
    "alloc::vec::Vec::<T, A>::is_empty", "core::slice::<impl [T]>::is_empty", "alloc::vec::Vec::<T, A>::capacity",
}
NONLINEAR_FLOAT = ("::powf", "::powi", "::exp", "::ln", "::sqrt", "::abs", "::recip", "::tanh", "::sin", "::cos",
                   "::max", "::min", "::signum", "::log", "::log2", "::log10", "::exp2", "::mul_add", "::clamp")

SUMMARY_REASONS = {
    "Add/Sub": "x+y, x-y: L+L=L, C+C=C, L+C affine (N)",
    "Neg": "-x keeps the class",
    "Mul": "bilinear: L*C=L, C*C=C, L*L=N, 0*anything=0",
    "Div": "linear in the numerator for a C denominator; anything/L = N",
    "identity-like": "deref/clone/Rc::new/iter/copied/collect/sum/reshape-like: linear maps that keep the class",
    "shape-only": "dimensions()/len(): depend on shapes, which do not depend on adjoint values",
    "float-nonlinear": "powf/exp/ln/...: C->C, otherwise N",
    "sliced_op": "TRUSTED PRIMITIVE: applies the given op closure to slices of the inputs, writing into a zero-initialised buffer; output class = class of the buffer after the closure's stores",
    "from_elem": "vec![v; n]: class of v (0.0 -> Z); n must be C",
    "constructors": "Array::from((dims, values)) / From<Vec<Float>>: class of the values; dims must be C",
}


class Unclassified(Exception):
    pass


class Lin:
    def __init__(self, facts):
        self.facts = facts
        self.memo = {}
        self.in_progress = set()
        self.notes = []          # unclassified constructs met
        self.control_on_adjoint = []
        self.depth = 0
        self.analysed_fns = set()
        self.frames = []           # [{'body': def, 'loops': [...], 'kind': ..}] evaluation context
        self.adjoint_stores = []   # element stores whose value is adjoint data (class L)
        self.adjoint_bodies = set()

    def push(self, body, kind="fn", loops=None):
        self.frames.append({"body": body, "kind": kind, "loops": list(loops or []),
                            "outer": sum(len(f["loops"]) for f in self.frames) if kind in ("for_each", "map", "closure") else 0})

    def pop(self):
        self.frames.pop()

    # ----------------------------------------------------------------- utilities
    def note(self, msg):
        if msg not in self.notes:
            self.notes.append(msg)

    def read(self, t):
        if t is not None and t.k == "ref":
            return t.cell.t
        return t

    def bind(self, pat, t, env):
        k = pat.get("k")
        if k == "Binding":
            # by-reference bindings to buffers keep the reference
            env[pat["v"]] = Cell(t)
            if pat.get("sub"):
                self.bind(pat["sub"], t, env)
        elif k in ("Wild", "Missing", "Constant", "Range"):
            return
        elif k in ("Deref", "DerefPattern"):
            self.bind(pat["sub"], t, env)
        elif k == "Leaf":
            tv = self.read(t)
            for s in pat["subs"]:
                if tv is not None and tv.k == "tup" and s["idx"] < len(tv.items):
                    self.bind(s["pat"], tv.items[s["idx"]], env)
                else:
                    self.bind(s["pat"], T(scalar(tv)), env)
        elif k == "Variant":
            tv = self.read(t)
            for s in pat["subs"]:
                if tv is not None and tv.k == "opt":
                    self.bind(s["pat"], tv.inner if tv.inner is not None else tN, env)
                else:
                    self.bind(s["pat"], T(scalar(tv)), env)
        elif k == "Or":
            for p in pat["pats"]:
                self.bind(p, t, env)
        elif k in ("Slice", "Array"):
            tv = self.read(t)
            for p in pat.get("prefix", []) + pat.get("suffix", []):
                self.bind(p, T(scalar(tv)), env)
            if isinstance(pat.get("slice"), dict):
                self.bind(pat["slice"], T(scalar(tv)), env)
        elif k == "Guard":
            self.bind(pat["sub"], t, env)

    def matches(self, pat, t):
        """True / False / None(unknown) : does the refutable pattern match"""
        k = pat.get("k")
        if k in ("Deref", "DerefPattern"):
            return self.matches(pat["sub"], t)
        if k == "Variant" and pat.get("adt") == "core::option::Option":
            tv = self.read(t)
            if tv is not None and tv.k == "opt" and tv.present is not None:
                return tv.present == (pat["variant"] == "Some")
            return None
        if k == "Constant":
            tv = self.read(t)
            if tv is not None and tv.const is not None and pat["value"] in ("true", "false"):
                return tv.const == (pat["value"] == "true")
            return None
        if k in ("Binding", "Wild"):
            return True
        return None

    # ----------------------------------------------------------------- stores
    def target_cell(self, lhs, env):
        """cell updated by an assignment to place expression lhs (None if not a tracked buffer)"""
        lhs = strip(lhs)
        k = lhs.get("k")
        if k in ("VarRef", "UpvarRef"):
            c = env.get(lhs["v"])
            if c is None:
                return None
            if c.t is not None and c.t.k == "ref":
                return c.t.cell
            return c
        if k == "Deref":
            return self.target_cell(lhs["e"], env)
        if k == "Index":
            it = self.ev(lhs["i"], env)
            if scalar(it) != C:
                self.control_on_adjoint.append("store index depends on the adjoint: %s" % show(lhs)[:80])
            return self.target_cell(lhs["e"], env)
        if k == "Call" and callee(lhs) in ("core::ops::index::IndexMut::index_mut", "core::ops::index::Index::index",
                                           "core::ops::deref::DerefMut::deref_mut", "core::ops::deref::Deref::deref"):
            if len(lhs["args"]) > 1 and scalar(self.ev(lhs["args"][1], env)) != C:
                self.control_on_adjoint.append("store index depends on the adjoint: %s" % show(lhs)[:80])
            return self.target_cell(lhs["args"][0], env)
        if k == "Borrow":
            return self.target_cell(lhs["e"], env)
        if k == "Call" and callee(lhs) in ("core::option::Option::<T>::unwrap", "core::option::Option::<T>::expect",
                                           "core::iter::traits::iterator::Iterator::next", "core::slice::<impl [T]>::iter_mut",
                                           "core::slice::<impl [T]>::first_mut", "core::slice::<impl [T]>::last_mut",
                                           "core::iter::traits::double_ended::DoubleEndedIterator::next_back"):
            return self.target_cell(lhs["args"][0], env)
        if k == "Field":
            # a field of a tuple/struct local: collapse into the whole
            return self.target_cell(lhs["e"], env)
        return None

    def store(self, lhs, val, env, op=None, rhs=None):
        cell = self.target_cell(lhs, env)
        v = scalar(self.read(val))
        l0 = strip(lhs)
        if cell is None:
            self.note("store to an untracked place: %s" % show(lhs)[:80])
        if v == L and self.frames and l0.get("k") in ("Index", "Deref", "Call") and (l0.get("ty") in ("f64", "f32") or l0.get("ty") is None):
            fr = self.frames[-1]
            self.adjoint_bodies.add(fr["body"])
            self.adjoint_stores.append({"body": fr["body"], "kind": fr["kind"], "loops": list(fr["loops"]), "outer": fr["outer"],
                                        "lhs": l0, "op": op, "rhs": rhs, "enclosing": [f["body"] for f in self.frames],
                                        "kinds": [f["kind"] for f in self.frames], "notes_before": len(self.notes)})
        if cell is None:
            return
        old = cell.t
        if old is not None and old.k in ("tup", "vec", "opt", "clo", "fn") and op is None:
            cell.t = val
            return
        o = scalar(old)
        if op is None:
            # whole-variable assignment of a scalar local replaces; an element store joins
            if strip(lhs).get("k") in ("VarRef", "UpvarRef") and not (old is not None and old.k == "ref"):
                new = join_branch(o, v)     # flow-insensitive: may or may not have happened
            else:
                new = join_branch(o, v)
        elif op in ("Add", "Sub"):
            new = join_branch(o, add(o, v))
        elif op == "Mul":
            new = join_branch(o, mul(o, v))
        elif op == "Div":
            new = join_branch(o, div(o, v))
        else:
            new = N if (o, v) != (C, C) else C
        cell.t = T(new)

    # ----------------------------------------------------------------- expressions
    def truth(self, cond, env):
        """(const or None, class)"""
        t = self.read(self.ev(cond, env))
        s = scalar(t)
        if s not in (C, Z):
            self.control_on_adjoint.append("branch condition depends on the adjoint: %s" % show(cond)[:100])
        return (t.const if t is not None else None), s

    def ev(self, e, env):
        e = strip(e)
        if e is None:
            return tC
        k = e.get("k")
        if k in ("VarRef", "UpvarRef"):
            c = env.get(e["v"])
            if c is None:
                if k == "UpvarRef":
                    return tC          # captured from the constructor: a forward-pass value
                self.note("unbound variable %s" % e["v"])
                return tN
            return c.t
        if k == "Literal":
            v = lit_value(e)
            if isinstance(v, bool):
                return T(C, const=v)
            if isinstance(v, float) and v == 0.0 and "f" in e.get("ty", "f"):
                return tZ
            return tC
        if k in ("NamedConst", "ConstParam", "StaticRef", "NonHirLiteral", "ZstLiteral", "ConstBlock"):
            return tC
        if k == "FnItem":
            return T("fn", fn=e["fn"])
        if k in ("Borrow", "RawBorrow"):
            inner = strip(e["e"])
            t = self.ev(inner, env)
            if e.get("bk") == "mut" or k == "RawBorrow":
                # &mut place: hand out a reference to the cell so that stores are seen
                cell = self.target_cell(inner, env)
                if cell is not None:
                    return T("ref", cell=cell)
            return t
        if k == "Deref":
            return self.read(self.ev(e["e"], env)) if strip(e["e"]).get("k") not in ("VarRef", "UpvarRef") else self.ev(e["e"], env)
        if k == "Cast":
            return T(scalar(self.read(self.ev(e["e"], env))))
        if k == "Unary":
            t = self.read(self.ev(e["e"], env))
            if e["op"] == "Not":
                s = scalar(t)
                return T(C if s in (C, Z) else N, const=(not t.const) if t is not None and t.const is not None else None)
            return T(scalar(t))
        if k == "Binary":
            a = scalar(self.read(self.ev(e["l"], env)))
            b = scalar(self.read(self.ev(e["r"], env)))
            op = e["op"]
            if op in ("Add", "Sub", "AddUnchecked", "SubUnchecked"):
                return T(add(a, b))
            if op in ("Mul", "MulUnchecked"):
                return T(mul(a, b))
            if op == "Div":
                return T(div(a, b))
            if op == "Rem":
                return T(C if a in (C, Z) and b in (C, Z) else N)
            # comparisons / bit ops
            return T(C if a in (C, Z) and b in (C, Z) else N)
        if k == "LogicalOp":
            a = self.read(self.ev(e["l"], env))
            b = self.read(self.ev(e["r"], env))
            sa, sb = scalar(a), scalar(b)
            const = None
            if a.const is not None and b.const is not None:
                const = (a.const and b.const) if e["op"] == "And" else (a.const or b.const)
            elif a.const is False and e["op"] == "And":
                const = False
            elif a.const is True and e["op"] == "Or":
                const = True
            return T(C if sa in (C, Z) and sb in (C, Z) else N, const=const)
        if k == "Tuple":
            return T("tup", items=[self.ev(x, env) for x in e["fields"]])
        if k == "Array":
            return T("vec", items=[self.ev(x, env) for x in e["fields"]])
        if k == "Repeat":
            return T(scalar(self.read(self.ev(e["e"], env))))
        if k == "Field":
            base = self.read(self.ev(e["e"], env))
            if base is not None and base.k == "tup" and e["idx"] < len(base.items):
                return base.items[e["idx"]]
            if e.get("adt") == ARRAY:
                if e["name"] in ("dimensions", "is_tracked", "keep_gradient", "consumer_count"):
                    return tC
                if e["name"] == "values":
                    return T(scalar(base))
                return T(scalar(base))
            if e.get("adt") in ("core::ops::range::Range", "core::ops::range::RangeInclusive"):
                return T(scalar(base))
            return T(scalar(base))
        if k == "Index":
            base = self.read(self.ev(e["e"], env))
            idx = self.read(self.ev(e["i"], env))
            if scalar(idx) not in (C, Z):
                self.control_on_adjoint.append("index depends on the adjoint: %s" % show(e)[:80])
                return tN
            if base is not None and base.k == "vec":
                i = lit_value(e["i"])
                if isinstance(i, int) and 0 <= i < len(base.items):
                    return base.items[i]
                out = Z
                for x in base.items:
                    out = join_branch(out, scalar(x))
                return T(out)
            return T(scalar(base))
        if k == "Adt":
            if e["adt"] == "core::option::Option":
                if e["variant"] == "Some":
                    return T("opt", present=True, inner=self.ev(e["fields"][0]["e"], env))
                return T("opt", present=False)
            if e["adt"].startswith("core::ops::range::"):
                s = Z
                for f in e["fields"]:
                    s = join_branch(s, scalar(self.read(self.ev(f["e"], env))))
                return T(C if s in (C, Z) else N)
            if e["adt"] == ARRAY:
                # an array's class is that of its values; its dimensions must not depend on the adjoint
                cls = {f["name"]: scalar(self.read(self.ev(f["e"], env))) for f in e["fields"]}
                if cls.get("dimensions", C) not in (C, Z):
                    return tN
                return T(cls.get("values", N))
            s = Z
            for f in e["fields"]:
                s = join_branch(s, scalar(self.read(self.ev(f["e"], env))))
            return T(s)
        if k == "Closure":
            return T("clo", d=e["closure"], env=env)
        if k == "Block":
            return self.block(e, env)
        if k == "If":
            return self.ev_if(e, env)
        if k == "Match":
            fl = F.for_loop_parts(e)
            if fl is not None:
                return self.for_loop(fl, env)
            return self.ev_match(e, env)
        if k == "Loop":
            if self.frames:
                self.frames[-1]["loops"].append({"vars": [], "pat": None, "iter": None})
            try:
                for _ in range(2):
                    try:
                        self.ev(e["body"], env)
                    except _Break:
                        pass
            finally:
                if self.frames:
                    self.frames[-1]["loops"].pop()
            return tC
        if k == "Let":
            t = self.ev(e["e"], env)
            self.bind(e["pat"], t, env)
            m = self.matches(e["pat"], t)
            return T(C, const=m)
        if k == "Assign":
            self.store(e["l"], self.ev(e["r"], env), env, rhs=e["r"])
            return tC
        if k == "AssignOp":
            self.store(e["l"], self.ev(e["r"], env), env, op=e["op"].replace("Assign", "").replace("Unchecked", "") if isinstance(e["op"], str) else None)
            return tC
        if k == "Return":
            raise _Return(self.ev(e["e"], env) if e.get("e") is not None else tC)
        if k == "Break":
            raise _Break()
        if k == "Continue":
            raise _Break()
        if k == "Call":
            return self.call(e, env)
        self.note("expression kind %s" % k)
        return tN

    def block(self, e, env):
        env = _Scope(env)
        for s in e["stmts"]:
            if s["s"] == "let":
                if s.get("init") is None:
                    for v, _, _, _ in F.pat_bindings(s["pat"]):
                        env[v] = Cell(tZ)
                    continue
                t = self.ev(s["init"], env)
                # a `let mut buf = <value>` owns its value: copy so that later stores do not alias
                self.bind(s["pat"], self.own(t), env)
                if s.get("else") is not None:
                    try:
                        self.ev(s["else"], env)
                    except (_Return, _Break):
                        pass
            else:
                self.ev(s["e"], env)
        if e.get("e") is not None:
            return self.ev(e["e"], env)
        return tC

    def own(self, t):
        if t is None:
            return tN
        if t.k == "ref":
            return t
        return t

    def ev_if(self, e, env):
        cond = strip(e["cond"])
        const, cls = self.truth(cond, env)
        results = []
        if const is not False:
            results.append(self._branch(e["then"], env))
        if const is not True:
            if e.get("else") is not None:
                results.append(self._branch(e["else"], env))
            else:
                results.append(tC)
        return self.join_values(results, cls)

    def _branch(self, e, env):
        try:
            return self.ev(e, env)
        except _Break:
            return None
        # _Return propagates

    def join_values(self, results, cond_cls=C):
        results = [r for r in results if r is not None]
        if not results:
            return tC
        if cond_cls not in (C, Z):
            return tN
        if len(results) == 1:
            return results[0]
        a = results[0]
        for b in results[1:]:
            a = self.join2(a, b)
        return a

    def join2(self, a, b):
        a0, b0 = self.read(a), self.read(b)
        if a0 is None or b0 is None:
            return a0 or b0
        if a0.k == b0.k == "tup" and len(a0.items) == len(b0.items):
            return T("tup", items=[self.join2(x, y) for x, y in zip(a0.items, b0.items)])
        if a0.k == b0.k == "opt":
            pres = a0.present if a0.present == b0.present else None
            inner = a0.inner if b0.inner is None else b0.inner if a0.inner is None else self.join2(a0.inner, b0.inner)
            return T("opt", present=pres, inner=inner)
        if a0.k == "clo" and b0.k == "clo":
            return a0
        s = join_branch(scalar(a0), scalar(b0))
        const = a0.const if (a0.const is not None and a0.const == b0.const) else None
        return T(s, const=const)

    def ev_match(self, e, env):
        st = self.ev(e["scrutinee"], env)
        s_cls = scalar(self.read(st))
        results = []
        # matching on an Option's presence / an enum discriminant is a C decision when the
        # scrutinee is structured; a match on a float/array value would be control on the value
        sv = self.read(st)
        is_presence = sv is not None and sv.k in ("opt", "tup")
        for a in e["arms"]:
            m = self.matches(a["pat"], st)
            if m is False:
                continue
            env2 = _Scope(env)
            self.bind(a["pat"], st, env2)
            if a.get("guard") is not None:
                self.truth(a["guard"], env2)
            r = self._branch(a["body"], env2)
            results.append(r)
            if m is True and a.get("guard") is None:
                break
        has_refutable_value_pat = any(_value_pattern(a["pat"]) for a in e["arms"])
        if has_refutable_value_pat and s_cls not in (C, Z):
            self.control_on_adjoint.append("match on a value that depends on the adjoint: %s" % show(e["scrutinee"])[:80])
            return tN
        return self.join_values(results)

    def for_loop(self, fl, env):
        it, pat, body, _loop = fl
        t = self.ev(it, env)
        elem = self.elem(t)
        info = {"vars": [v for v, _, _, _ in F.pat_bindings(pat)], "pat": pat, "iter": it}
        if self.frames:
            self.frames[-1]["loops"].append(info)
        try:
            for _ in range(2):
                env2 = _Scope(env)
                self.bind(pat, elem, env2)
                try:
                    self.ev(body, env2)
                except _Break:
                    pass
        finally:
            if self.frames:
                self.frames[-1]["loops"].pop()
        return tC

    def elem(self, t):
        """element type of an iterable value"""
        if t is None:
            return tN
        if t.k == "ref":
            # iterating a mutable reference to a buffer: elements are references into it
            return t
        return t

    # ----------------------------------------------------------------- calls
    def apply(self, f, args, env=None, kind="closure"):
        f = self.read(f)
        if f is None:
            return tN
        if f.k == "clo":
            b = self.facts.body(f.d)
            if b is None:
                return tN
            env2 = _Scope(f.env)
            ps = [p for p in self.facts.params(b) if p.get("pat")]
            for p, a in zip(ps, args):
                self.bind(p["pat"], a, env2)
            pv = []
            for p in ps:
                pv.extend(v for v, _, _, _ in F.pat_bindings(p["pat"]))
            self.push(f.d, kind, loops=[{"vars": pv, "pat": None, "iter": None, "per_element": True}] if kind in ("for_each", "map") else None)
            try:
                return self.ev(self.facts.root(b), env2)
            except _Return as r:
                return r.val
            finally:
                self.pop()
        if f.k == "fn":
            return self.call_path(f.fn.get("path"), f.fn.get("resolved"), f.fn, args, None)
        self.note("call of an unknown function value")
        return tN

    def call(self, e, env):
        c = e.get("callee")
        if c is None:
            # indirect call through a function value
            fv = self.ev(e.get("fun"), env) if e.get("fun") is not None else tN
            return self.apply(fv, [self.ev(a, env) for a in e["args"]])
        path = c["path"]
        res = c.get("resolved") or path
        # closure / fn-item calls via the Fn traits
        if path in ("core::ops::function::Fn::call", "core::ops::function::FnMut::call_mut", "core::ops::function::FnOnce::call_once"):
            f = self.ev(e["args"][0], env)
            tup = self.read(self.ev(e["args"][1], env))
            args = tup.items if tup is not None and tup.k == "tup" else [tup]
            return self.apply(f, args)
        args = [self.ev(a, env) for a in e["args"]]
        return self.call_path(path, res, c, args, e, env)

    def call_path(self, path, res, c, args, e, env=None):
        rd = [self.read(a) for a in args]
        sc = [scalar(a) for a in rd]
        res = res or path
        first = sc[0] if sc else C

        # --- the trusted primitive
        if res == "corgi::array::Array::sliced_op":
            arrays = rd[0]
            op = rd[1]
            for i in (3, 4, 5, 6):
                if i < len(sc) and sc[i] not in (C, Z):
                    return tN
            if arrays is None or arrays.k != "vec" or op is None or op.k != "clo":
                self.note("sliced_op with arrays/op that are not a literal vector / closure")
                return tN
            out = Cell(tZ)
            for _ in range(2):
                self.apply(op, [T("ref", cell=out), T("vec", items=list(arrays.items))], kind="sliced_op")
            return T(scalar(out.t))
        # --- crate-local callees: analyse the body
        if c is not None and c.get("resolved_local") and res not in IDENT_FIRST and res != "<corgi::array::Array as core::clone::Clone>::clone":
            b = self.facts.body(res)
            if b is not None and b.get("thir"):
                return self.local_fn(b, args)
        # --- operators
        tail = path.rsplit("::", 1)[-1]
        if path in ("core::ops::arith::Add::add", "core::ops::arith::Sub::sub"):
            return T(add(sc[0], sc[1]))
        if path == "core::ops::arith::Neg::neg":
            return T(first)
        if path == "core::ops::arith::Mul::mul":
            return T(mul(sc[0], sc[1]))
        if path == "core::ops::arith::Div::div":
            return T(div(sc[0], sc[1]))
        if path in ("core::ops::arith::AddAssign::add_assign", "core::ops::arith::SubAssign::sub_assign"):
            if args[0] is not None and args[0].k == "ref":
                o = scalar(args[0].cell.t)
                args[0].cell.t = T(join_branch(o, add(o, sc[1])))
            return tC
        if path in ("core::ops::arith::MulAssign::mul_assign",):
            if args[0] is not None and args[0].k == "ref":
                o = scalar(args[0].cell.t)
                args[0].cell.t = T(join_branch(o, mul(o, sc[1])))
            return tC
        if path in ("core::ops::index::Index::index", "core::ops::index::IndexMut::index_mut"):
            if sc[1] not in (C, Z):
                self.control_on_adjoint.append("index depends on the adjoint")
                return tN
            if rd[0] is not None and rd[0].k == "vec":
                out = Z
                for x in rd[0].items:
                    out = join_branch(out, scalar(x))
                return T(out)
            return T(first)
        if path in IDENT_FIRST or res in IDENT_FIRST:
            if rd and rd[0] is not None and rd[0].k in ("clo", "fn"):
                return rd[0]
            if rd and rd[0] is not None and rd[0].k in ("tup", "vec", "opt") and tail in ("clone", "deref", "as_ref", "borrow", "into_iter", "iter", "collect", "to_vec", "to_owned", "new", "copied", "cloned", "rev", "into"):
                return rd[0]
            if rd and rd[0] is not None and rd[0].k == "opt" and tail in ("unwrap", "expect"):
                return rd[0].inner if rd[0].inner is not None else tN
            return T(first, const=rd[0].const if rd and rd[0] is not None else None)
        if path in IDENT_FIRST_C_REST:
            if any(s not in (C, Z) for s in sc[1:]):
                return tN
            if args and args[0] is not None and args[0].k == "ref":
                return args[0]
            return rd[0] if rd[0] is not None and rd[0].k in ("tup", "vec") else T(first)
        if path in SHAPE_ONLY or res in SHAPE_ONLY:
            return tC
        if path == "core::slice::<impl [T]>::iter_mut" or path == "core::iter::traits::collect::IntoIterator::into_iter" and False:
            return args[0]
        if path == "core::slice::<impl [T]>::iter_mut":
            return args[0]
        if path == "core::iter::traits::iterator::Iterator::enumerate":
            return T("tup", items=[tC, args[0]])
        if path == "core::iter::traits::iterator::Iterator::zip":
            return T("tup", items=[args[0], args[1]])
        if path == "core::iter::traits::iterator::Iterator::chain":
            return T(join_branch(sc[0], sc[1]))
        if path == "core::iter::traits::iterator::Iterator::map" and rd[0] is not None and rd[0].k == "vec" and rd[0].items \
                and any(x is not None and x.k in ("opt", "tup", "vec") for x in [self.read(i) for i in rd[0].items]):
            # a literal collection of structured values (e.g. `[Some(a), Some(b), c]`): element-wise
            return T("vec", items=[self.apply(args[1], [it], kind="map") for it in rd[0].items])
        if path == "core::iter::traits::iterator::Iterator::flatten" and rd[0] is not None and rd[0].k == "vec":
            out = []
            for it in rd[0].items:
                x = self.read(it)
                if x is not None and x.k == "opt":
                    if x.present is not False:
                        out.append(x.inner if x.inner is not None else tN)
                else:
                    out.append(it)
            return T("vec", items=out)
        if path in ("core::iter::traits::iterator::Iterator::map", "core::iter::traits::iterator::Iterator::flat_map",
                    "core::iter::traits::iterator::Iterator::filter_map"):
            return self.apply(args[1], [args[0]], kind="map")
        if path in ("core::slice::<impl [T]>::chunks_exact_mut", "core::slice::<impl [T]>::chunks_mut", "core::slice::<impl [T]>::split_at_mut",
                    "core::slice::<impl [T]>::rchunks_mut", "core::slice::<impl [T]>::first_mut", "core::slice::<impl [T]>::last_mut",
                    "core::slice::<impl [T]>::get_mut", "core::slice::<impl [T]>::as_mut"):
            if any(s_ not in (C, Z) for s_ in sc[1:]):
                return tN
            return args[0]      # references into the same buffer
        if path in ("core::slice::<impl [T]>::chunks_exact", "core::slice::<impl [T]>::chunks", "core::slice::<impl [T]>::windows",
                    "core::slice::<impl [T]>::rchunks", "core::slice::<impl [T]>::get", "core::slice::<impl [T]>::split_at",
                    "core::iter::traits::iterator::Iterator::flatten", "core::iter::traits::iterator::Iterator::step_by",
                    "core::iter::sources::once::once", "core::iter::sources::repeat::repeat"):
            if any(s_ not in (C, Z) for s_ in sc[1:]):
                return tN
            return T(first) if rd else tC
        if path in ("core::iter::traits::iterator::Iterator::for_each",):
            for _ in range(2):
                self.apply(args[1], [args[0]], kind="for_each")
            return tC
        if path in ("core::iter::traits::iterator::Iterator::filter", "core::iter::traits::iterator::Iterator::take_while",
                    "core::iter::traits::iterator::Iterator::skip_while"):
            r = scalar(self.read(self.apply(args[1], [args[0]])))
            if r not in (C, Z):
                self.control_on_adjoint.append("filter predicate depends on the adjoint")
                return tN
            return args[0]
        if path in ("core::iter::traits::iterator::Iterator::all", "core::iter::traits::iterator::Iterator::any"):
            r = scalar(self.read(self.apply(args[1], [args[0]])))
            return T(C if r in (C, Z) else N)
        if path == "core::iter::traits::iterator::Iterator::fold":
            acc = Cell(T(sc[1]))
            for _ in range(3):
                r = scalar(self.read(self.apply(args[2], [acc.t, args[0]])))
                acc.t = T(join_branch(scalar(acc.t), r))
            return acc.t
        if path == "core::iter::traits::iterator::Iterator::product":
            return T(C if first in (C,) else N)
        if path in ("core::iter::traits::iterator::Iterator::next", "core::iter::traits::iterator::Iterator::last",
                    "core::iter::traits::iterator::Iterator::max", "core::iter::traits::iterator::Iterator::min"):
            return T("opt", present=None, inner=T(first))
        if path == "core::iter::traits::iterator::Iterator::count":
            return tC
        if path in ("core::bool::<impl bool>::then", "core::bool::<impl bool>::then_some") and len(args) == 2:
            if sc[0] not in (C, Z):
                self.control_on_adjoint.append("`then` on a condition that depends on the adjoint")
                return tN
            const = rd[0].const if rd[0] is not None else None
            if const is False:
                return T("opt", present=False)
            inner = args[1] if path.endswith("then_some") else self.apply(args[1], [])
            return T("opt", present=const, inner=inner)
        if path == "alloc::vec::from_elem":
            if sc[1] not in (C, Z):
                return tN
            return T(first)
        if path in ("alloc::vec::Vec::<T>::new", "alloc::vec::Vec::<T>::with_capacity"):
            return T("vec", items=[])       # a growable vector: top-level pushes keep their positions
        if path == "core::default::Default::default":
            return tZ
        if path in ("alloc::vec::Vec::<T, A>::push", "alloc::vec::Vec::<T, A>::extend_from_slice", "core::iter::traits::collect::Extend::extend",
                    "alloc::vec::Vec::<T, A>::insert"):
            if args[0] is not None and args[0].k == "ref":
                cur = args[0].cell.t
                in_loop = any(f["loops"] for f in self.frames)
                if path.endswith("::push") and cur is not None and cur.k == "vec" and not in_loop and not getattr(self, "_second_pass", False):
                    cur.items.append(args[1])
                else:
                    o = scalar(cur)
                    args[0].cell.t = T(join_branch(o, sc[-1]))
            return tC
        if path in ("core::slice::<impl [T]>::clone_from_slice", "core::slice::<impl [T]>::copy_from_slice", "core::slice::<impl [T]>::fill"):
            if args[0] is not None and args[0].k == "ref":
                o = scalar(args[0].cell.t)
                args[0].cell.t = T(join_branch(o, sc[1]))
            return tC
        if path.endswith("::box_assume_init_into_vec_unsafe") or path.endswith("::write_box_via_move") or path == "alloc::slice::<impl [T]>::into_vec":
            return rd[-1]
        if path == "alloc::boxed::Box::<T>::new_uninit":
            return tZ
        if (res or "").startswith("<corgi::array::Array as core::convert::From<"):
            a0 = rd[0]
            if a0 is not None and a0.k == "tup" and len(a0.items) == 2:
                if scalar(a0.items[0]) not in (C, Z):
                    return tN
                return T(scalar(a0.items[1]))
            if "alloc::vec::Vec<usize>" in res and "(" not in res.split("From<")[1]:
                return tZ       # zeros of the given dimensions
            return T(first)
        if path.startswith("core::cell::Cell::<T>::") or path.startswith("core::cell::RefCell::<T>::"):
            return T(C if tail in ("get", "borrow") and first in (C, Z) else first)
        if path.startswith("core::option::Option::<"):
            o = rd[0]
            if tail in ("map_or",) and o is not None and o.k == "opt":
                outs = []
                if o.present is not True:
                    outs.append(args[1])
                if o.present is not False:
                    outs.append(self.apply(args[2], [o.inner if o.inner is not None else tN]))
                return self.join_values(outs)
            if tail in ("is_some_and", "is_none_or") and o is not None and o.k == "opt":
                if o.present is False:
                    return T(C, const=(tail == "is_none_or"))
                r = self.read(self.apply(args[1], [o.inner if o.inner is not None else tN]))
                cls = scalar(r)
                return T(C if cls in (C, Z) else N, const=(r.const if o.present is True and r is not None else None))
            if tail in ("is_some", "is_none") and o is not None and o.k == "opt":
                const = None if o.present is None else (o.present == (tail == "is_some"))
                return T(C, const=const)
            if tail == "map" and o is not None and o.k == "opt":
                if o.present is False:
                    return o
                return T("opt", present=o.present, inner=self.apply(args[1], [o.inner if o.inner is not None else tN]))
            if tail in ("unwrap_or",) and o is not None and o.k == "opt":
                return self.join_values([o.inner if o.inner is not None else tN, args[1]])
            if tail in ("take", "replace"):
                return o if o is not None else tN
        if any(path.endswith(s) for s in NONLINEAR_FLOAT) and ("f64" in path or "f32" in path or "core::num" in path or "std::f" in path):
            return T(nonlinear(*sc))
        if path.startswith("core::num::") and tail.startswith("checked_"):
            return T("opt", present=None, inner=T(C if all(s in (C, Z) for s in sc) else N))
        if path.startswith("core::num::") or path.startswith("core::cmp::") or path.startswith("core::fmt::") \
                or path.startswith("core::panicking::") or path.startswith("std::panicking::"):
            return T(C if all(s in (C, Z) for s in sc) else N)
        if path in ("core::cmp::PartialEq::eq", "core::cmp::PartialEq::ne", "core::cmp::PartialOrd::lt", "core::cmp::PartialOrd::gt",
                    "core::cmp::PartialOrd::le", "core::cmp::PartialOrd::ge"):
            return T(C if all(s in (C, Z) for s in sc) else N)
        if path == "core::ops::range::RangeInclusive::<Idx>::new":
            return T(C if all(s in (C, Z) for s in sc) else N)
        # --- unknown callee
        if any(a is not None and a.k == "ref" for a in args):
            for a in args:
                if a is not None and a.k == "ref":
                    a.cell.t = tN
            self.note("no summary for callee %s which receives a mutable buffer" % path)
            return tN
        if any(a is not None and a.k in ("clo", "fn") for a in rd):
            self.note("no summary for callee %s which receives a closure" % path)
            return tN
        if all(s in (C, Z) for s in sc):
            return tC
        self.note("no summary for callee %s with a non-C argument" % path)
        return tN

    def local_fn(self, b, args):
        key = (b["def"], tuple(repr(self.read(a)) + ("&" if a is not None and a.k == "ref" else "") for a in args))
        has_ref = any(a is not None and a.k == "ref" for a in args)
        if not has_ref and key in self.memo:
            return self.memo[key]
        if key in self.in_progress or self.depth > 10:
            self.note("recursive call of %s: assumed N" % b["def"])
            return tN
        self.in_progress.add(key)
        self.depth += 1
        self.analysed_fns.add(b["def"])
        # a helper that SELECTS among its arguments by the case of an enum (a lookup table of operand pairs): the join over its arms
        # forgets which argument ends up in which position, so a verdict built on its result is not exact
        if (b.get("output") or "").startswith("(") and "corgi::array::Array" in (b.get("output") or ""):
            for n_ in F.walk(self.facts.root(b)):
                if n_.get("k") == "Match" and not str(n_.get("source", "")).startswith("ForLoopDesugar") and len(n_.get("arms") or []) > 1 \
                        and all(a_["pat"].get("k") == "Variant" and not (a_["pat"].get("adt") or "").endswith("option::Option") for a_ in n_["arms"]):
                    self.note("helper %s selects among its arguments by the case of an enum: positions are joined over the arms" % b.get("name"))
                    break
        try:
            env = _Scope({})
            ps = [p for p in self.facts.params(b) if p.get("pat")]
            for p, a in zip(ps, args):
                self.bind(p["pat"], a, env)
            self.push(b["def"], "fn")
            try:
                r = self.ev(self.facts.root(b), env)
            except _Return as rr:
                r = rr.val
            finally:
                self.pop()
            r = self.read(r)
            if r is None:
                r = tN
            if r.k == "ref":
                r = r.cell.t
            if not has_ref:
                self.memo[key] = r
            return r
        finally:
            self.depth -= 1
            self.in_progress.discard(key)


def _value_pattern(p):
    k = p.get("k")
    if k in ("Constant", "Range"):
        return True
    if k in ("Deref", "DerefPattern", "Guard"):
        return _value_pattern(p["sub"])
    if k in ("Leaf", "Variant"):
        return any(_value_pattern(s["pat"]) for s in p.get("subs", []))
    if k == "Or":
        return any(_value_pattern(q) for q in p["pats"])
    return False


class _Return(Exception):
    def __init__(self, val):
        self.val = val


class _Break(Exception):
    pass


class _Scope(dict):
    """lexically nested environment: lookups fall through to the parent, bindings are local"""

    def __init__(self, parent):
        dict.__init__(self)
        self.parent = parent

    def get(self, k, default=None):
        s = self
        while isinstance(s, _Scope):
            if dict.__contains__(s, k):
                return dict.__getitem__(s, k)
            s = s.parent
        if isinstance(s, dict):
            return s.get(k, default)
        return default

    def __contains__(self, k):
        return self.get(k, None) is not None


def type_backward_closure(facts, b):
    """Type the result slots of a backward closure with x:L, operands C, mask C.
    -> (list of (slot index, class, expr) , Lin instance)"""
    lin = Lin(facts)
    env = _Scope({})
    ps = [p for p in facts.params(b) if p.get("pat")]
    kinds = [T("vec", items=[tC, tC, tC, tC]), tC, tL]
    for p, t in zip(ps, kinds):
        lin.bind(p["pat"], t, env)
    lin.push(b["def"], "backward")
    try:
        r = lin.ev(facts.root(b), env)
    except _Return as rr:
        r = rr.val
    finally:
        lin.pop()
    r = lin.read(r)
    return r, lin
