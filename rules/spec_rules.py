"""R34 / R35 FORMULA-SPEC: the documented formulas of the point-wise functions, softmax, the
costs, the layers and the model, decided by translating the source into the exact algebra of
`symalg` (see deriv_rules) and comparing with the formula the property states.

Nothing is executed.  Shape-changing array functions of the public API (`matmul`, `conv`,
`sum`, `sum_all`) and callable fields (`activation`, `cost`) are *uninterpreted function
symbols* here: what is decided is that the right function is applied to the right
arguments in the right order, not what those functions compute (C05/C06, not claimed)."""

from . import facts as F
from .core import Ctx
from .facts import callee, resolved, strip, peel, walk, ARRAY
from .facts import lit_value as lit_value_
from .show import show
from .repr_rules import MUTATING
from .symalg import Frac, Poly, PW, Unsupported, same, lf
import copy

from .deriv_rules import Forward, SymEval, Env, Abstain, UNINTERPRETED
from .inline import eliminate_returns


def _root_without_returns(facts, b):
    root = facts.root(b)
    if any(x.get("k") == "Return" for x in walk(root)):
        r2 = copy.deepcopy(root)
        if eliminate_returns(r2):
            return r2
    return root


def _forward(facts, b, uninterp=True):
    fw = Forward(facts)
    fw.ev.uninterp = uninterp
    if uninterp:
        fw.ev.extra_uninterp = {"reshape"}     # in a documented formula a reshape of an argument is not that argument (its dimensions change what it is combined with)
    return fw


def _single_arr(fw, val):
    vals = fw.ev.alts(val)
    if len(vals) == 1 and vals[0][0] == "arr":
        return vals[0][1], None
    why = vals[0][1] if vals and vals[0][0] == "unk" else "%d possible values" % len(vals)
    return None, str(why)[:120]


def _sum_loop_verdict(facts, nb, accv, acc_ops, init, inv):
    """('ok'|'bad', why) or None for the accumulate-in-a-loop form of the sum kernel"""
    from .facts import walk_ctx
    if init is None or lit_value_(init) != 0:
        return ("bad", "the running total of the sum kernel starts from `%s`, not from zero" % show(init)[:20]) if init is not None and lit_value_(init) is not None else None
    loops = [(n_, F.for_loop_parts(n_)) for n_ in walk(facts.root(nb)) if F.for_loop_parts(n_)]
    loops = list({id(fl_[3]): (n_, fl_) for n_, fl_ in loops}.values())
    if len(loops) != 1 or len(acc_ops) != 1:
        return None
    ln_, (it, pat, body, loop) = loops[0]
    op_ = acc_ops[0]
    if not any(x is op_ for x in walk(body)):
        return None
    src_ok = any(y.get("k") in ("VarRef", "UpvarRef") and y["v"] == inv for y in walk(it))
    adaptors = {(callee(y) or "").rsplit("::", 1)[-1] for y in walk(it) if y.get("k") == "Call" and (callee(y) or "").startswith("core::iter::")}
    if not src_ok or not adaptors <= {"copied", "cloned", "into_iter", "by_ref", "rev"} or pat.get("k") != "Binding":
        return None
    # a value-dependent way out of the loop (or around the addition) leaves elements of the slice out of the total
    for x, ctx in walk_ctx(body):
        leaves = x.get("k") in ("Break", "Continue", "Return")
        if not (leaves or x is op_):
            continue
        for fr in ctx:
            cnd = fr[1].get("cond") if fr[0] in ("if", "after") else (fr[1].get("scrutinee") if fr[0] in ("arm", "guard", "after-arm") else None)
            if cnd is None:
                continue
            floaty = [y for y in walk(cnd) if y.get("k") == "Binary" and y.get("op") in ("Eq", "Ne", "Lt", "Le", "Gt", "Ge")
                      and any((strip(z).get("ty") or "").lstrip("&") in ("f64", "f32") for z in (y["l"], y["r"]))]
            if floaty:
                return ("bad", "the summing loop of the sum kernel %s under the value test `%s`: the elements it passes over are missing from the total"
                        % ("is left (`%s`)" % x["k"].lower() if leaves else "skips the addition", show(floaty[0])[:50]))
            return None
    if op_.get("k") == "Call":
        if callee(op_) != "core::ops::arith::AddAssign::add_assign":
            return ("bad", "the summing loop of the sum kernel updates its total with `%s`, not `+=`" % callee(op_).rsplit("::", 1)[-1])
        r_ = peel(op_["args"][1])
    elif op_.get("k") != "AssignOp" or op_.get("op") != "Add":
        return ("bad", "the summing loop of the sum kernel updates its total with `%s`, not `+=`" % (op_.get("op") or "=")) if op_.get("k") == "AssignOp" else None
    else:
        r_ = peel(op_["r"])
    if F.var_of(r_) != pat.get("v") or r_.get("k") not in ("VarRef", "UpvarRef"):
        return None
    return ("ok", "the kernel adds every element of its slice to a total that starts at zero")


def _parents(facts, nb):
    out = []
    cur = nb
    while cur is not None and cur.get("kind") == "Closure" and cur.get("parent"):
        cur = facts.body(cur["parent"])
        if cur is not None:
            out.append(cur)
    return out


def _same_safe(x, y):
    try:
        return same(x, y)
    except Unsupported:
        return True     # undecided: not counted as a difference


def _find_fn(facts, name, impl_self=ARRAY, trait=None):
    out = []
    for b in facts.fns():
        if b.get("name") == name and b.get("impl_self") == impl_self and (b.get("impl_trait_def") == trait):
            out.append(b)
    return out


def _cmp(c, inst, where, got, want, what):
    try:
        if same(got, want):
            c.ok(inst, where, "%s = %r" % (what, want))
        else:
            c.bad(inst, where, "%s is documented as %r but the code computes %r" % (what, want, got))
    except Unsupported as ex:
        # the same two pieces under thresholds that differ by a constant: a different function on the strip between the thresholds
        try:
            if isinstance(got, PW) and isinstance(want, PW) and got.cfrac is not None and want.cfrac is not None and got.cfrac[0] == want.cfrac[0] \
                    and same(got.t, want.t) and same(got.f, want.f) and not same(got.t, got.f):
                d = got.cfrac[1] - want.cfrac[1]
                import re as _re
                if not d.is_zero() and not any(_re.match(r"a\d+$", a) for a in d.atoms()):
                    c.bad(inst, where, "%s has the documented pieces but switches between them at a different threshold (`%s` instead of `%s`): on the values between the two thresholds it returns the other piece"
                          % (what, got.cond, want.cond))
                    return
        except Unsupported:
            pass
        c.unk(inst, where, "%s: comparison outside the algebra (%s)" % (what, ex))


# ====================================================================================== R35 (C07)

def r35_pointwise_definitions(facts):
    """POINTWISE-SPEC: negation, scaling, powf, ln, exp, reciprocal, relu, sigmoid apply exactly their scalar function to every element and keep the dimensions; softmax is exp / sum(exp, 1); sum_all is the sum of the values; reshape keeps the values in order (forward maps read from the source, compared in an exact algebra)"""
    c = Ctx("R35", facts, "point-wise functions, softmax, sum_all, reshape compute their definitions")
    fl = facts.float or "f64"
    n = 0

    def spec_unary(alg, name, params):
        a = alg.atom("a0")
        p = alg.atom("p:" + params[0]) if params else None
        if name == "reciprocal":
            return Frac(1) / a
        if name == "powf":
            return a.powlf(lf(0, **{"p:" + params[0]: 1}))
        if name == "ln":
            return alg.ln(a)
        if name == "exp":
            return alg.exp(a)
        if name == "neg":
            return -a
        if name == "scale":
            return a * p
        if name == "relu":
            return PW("Gt(%r)" % a, a, Frac(0), ("Gt", a))
        if name == "sigmoid":
            return Frac(1) / (Frac(1) + alg.exp(-a))
        return None

    targets = []
    for nm in ("reciprocal", "powf", "ln", "exp", "relu", "sigmoid"):
        for b in _find_fn(facts, nm):
            targets.append((nm, b))
    for b in facts.fns():
        if b.get("impl_trait_def") == "core::ops::arith::Neg" and (b.get("inputs") or []) == ["&" + ARRAY]:
            targets.append(("neg", b))
        if b.get("impl_trait_def") == "core::ops::arith::Mul" and (b.get("inputs") or []) == ["&" + ARRAY, fl]:
            targets.append(("scale", b))
    c.floor("point-wise functions found (reciprocal, powf, ln, exp, relu, sigmoid, neg, scale)", len(targets), 8)
    for nm, b in targets:
        where = "%s:%d" % (F.rel(b["file"]), b["sp"][0])
        inst = "pointwise:%s" % nm
        fw = _forward(facts, b, uninterp=False)
        fw.ev.divisors = []
        try:
            val, names, n_arr = fw.ctor(b)
            got, why = _single_arr(fw, val)
        except (Abstain, Unsupported, RecursionError) as ex:
            got, why = None, str(ex)
        if got is None:
            c.unk(inst, where, "forward value of %s is not an element-wise expression the algebra can read (%s)" % (nm, why))
            continue
        params = [p["pat"].get("name") for p in facts.params(b) if p.get("pat") and p["ty"] == fl]
        want = spec_unary(fw.alg, nm, params)
        n += 1
        # equal as formulas, but computed through a negative power of (a division by) the operand that the documented function does not have:
        # 0/0 or 0 * inf (NaN) where the operand element is 0 while the function is finite there
        sing = None
        try:
            from .deriv_rules import _introduced_singularity
            if not isinstance(want, PW) and not isinstance(got, PW) and same(got, want):
                sing = _introduced_singularity(list(fw.ev.divisors), want)
        except Unsupported:
            sing = None
        pdiv = getattr(fw.ev, "param_divisors", [])
        if not sing and pdiv:
            try:
                if not isinstance(want, PW) and not isinstance(got, PW) and same(got, want):
                    for base_, pl_ in pdiv:
                        s_ = base_.n.single() if base_.d == Poly.const(1) else None
                        if s_ and len(s_[1]) == 1 and s_[1][0][0] == "a0" and want.d == Poly.const(1):
                            # exponents of a0 in the documented function: none with a negative constant part
                            neg_in_want = any(a_ == "a0" and dict(e_).get("", 0) < 0 for m_, _c in want.n.t.items() for a_, e_ in m_)
                            if not neg_in_want:
                                sing = "a0 (raised to `%s`, which is negative for parameter values the function accepts)" % " + ".join("%s%s" % (v_, ("*" + k_) if k_ else "") for k_, v_ in pl_)
            except Unsupported:
                pass
        if sing:
            c.bad(inst, where, "%s(a0) is documented as %r and the code computes the same formula, but through a negative power of (a division by) `%s` that the function does not have: "
                  "NaN where that element is 0 (for the parameter values for which the function is finite there)" % (nm, want, sing))
            continue
        _cmp(c, inst, where, got, want, "%s(a0)" % nm)
        # keeps the dimensions: the result is built from self's own dimension vector
        from .shape_rules import _dims_term, _lets
        env = _lets(facts, b)
        ok_dims = None
        for x in walk(facts.root(b)):
            if x.get("k") == "Call" and (resolved(x) or "").startswith("<corgi::array::Array as core::convert::From<(") and x["args"]:
                t = strip(x["args"][0])
                if t.get("k") == "Tuple" and len(t["fields"]) == 2:
                    dt = _dims_term(t["fields"][0], env)
                    ps = [p for p in facts.params(b) if p.get("pat")]
                    selfv = ps[0]["pat"].get("v") if ps else None
                    ok_dims = dt == ("dims", ("v", selfv))
        if ok_dims is True:
            c.ok(inst + "#dims", where, "the result is built with the operand's own dimensions")
        elif ok_dims is False:
            c.bad(inst + "#dims", where, "the result of %s is not built with the operand's own dimensions" % nm)
        else:
            c.unk(inst + "#dims", where, "how the result of %s gets its dimensions is not recognised" % nm)
    # ---- softmax
    for b in _find_fn(facts, "softmax"):
        where = "%s:%d" % (F.rel(b["file"]), b["sp"][0])
        fw = _forward(facts, b)
        ex_ = fw.alg.exp(fw.alg.atom("a0"))
        want = ex_ / fw.alg.atom("sum[%r|1]" % ex_)
        try:
            val, _, _ = fw.ctor(b)
            alts_ = fw.ev.alts(val)
            got, why = _single_arr(fw, val)
        except (Abstain, Unsupported, RecursionError) as ex:
            got, why, alts_ = None, str(ex), []
        if got is None and len(alts_) > 1 and all(a_[0] == "arr" for a_ in alts_):
            # several possible values (a condition on the shape on the way): each is returned for some input, so each must be the documented one
            off = [a_ for a_ in alts_ if not _same_safe(a_[1], want)]
            n += 1
            if off:
                c.bad("softmax", where, "softmax(a0) is documented as %r but for some inputs the code computes %r" % (want, off[0][1]))
            else:
                c.ok("softmax", where, "softmax(a0) = %r on every path" % (want,))
            continue
        if got is None:
            c.unk("softmax", where, "softmax is not a composition the algebra can read (%s)" % why)
            continue
        n += 1
        _cmp(c, "softmax", where, got, want, "softmax(a0)")
    # ---- sum_all
    for b in _find_fn(facts, "sum_all"):
        where = "%s:%d" % (F.rel(b["file"]), b["sp"][0])
        fw = _forward(facts, b)
        try:
            val = fw.call(b, [("arr", fw.alg.atom("a0"))])
            vals = fw.ev.alts(val)
        except (Abstain, Unsupported, RecursionError) as ex:
            vals = [("unk", str(ex))]
        if len(vals) == 1 and vals[0][0] == "s":
            n += 1
            _cmp(c, "sum_all", where, vals[0][1], fw.alg.atom("sigma[%r]" % fw.alg.atom("a0")), "sum_all(a0)")
        else:
            c.unk("sum_all", where, "sum_all is not `values.iter().sum()` in a form the algebra reads (%s)" % (vals[0][1] if vals else "?"))
    # ---- sum(k): the operand itself is returned only for k == 0 (anything else must go through the reduction)
    from .pass_rules import _return_paths
    from .facts import path_facts
    for b in _find_fn(facts, "sum"):
        where = "%s:%d" % (F.rel(b["file"]), b["sp"][0])
        ps = [p for p in facts.params(b) if p.get("pat")]
        if len(ps) < 2 or ps[0]["pat"].get("k") != "Binding" or ps[1]["pat"].get("k") != "Binding":
            c.unk("sum:identity", where, "parameters of sum not recognised")
            continue
        selfv, kv = ps[0]["pat"]["v"], ps[1]["pat"]["v"]
        n_id = 0
        for ctx, e in _return_paths(facts.root(b)):
            e0 = strip(e)
            is_self = (e0.get("k") in ("VarRef", "Deref", "Borrow") and F.var_of(e0) == selfv) or \
                (e0.get("k") == "Call" and (callee(e0) or "").endswith("::clone") and e0["args"] and F.var_of(e0["args"][0]) == selfv)
            if not is_self:
                continue
            n_id += 1
            facts_ = path_facts(ctx)
            ok = False
            for cond, truth in facts_:
                cn = strip(cond)
                if truth and cn.get("k") == "Binary" and cn.get("op") == "Eq":
                    l, r = strip(cn["l"]), strip(cn["r"])
                    if (F.var_of(l) == kv and lit_value_(r) == 0) or (F.var_of(r) == kv and lit_value_(l) == 0):
                        ok = True
            if ok:
                c.ok("sum:identity", F.loc(b, e0), "sum returns its operand unchanged only under `dimension_count == 0`")
            else:
                c.bad("sum:identity", F.loc(b, e0), "sum can return its operand unchanged on a path that does not imply `%s == 0` (%s): for k >= 1 the summed dimensions are neither added up nor collapsed"
                      % (kv.split("#")[0], "; ".join("%s is %s" % (show(cn_)[:50], t_) for cn_, t_ in facts_) or "unconditionally"))
        if n_id == 0:
            c.ok("sum:identity", where, "sum never returns its operand itself (k = 0 goes through the general path)", nontrivial=False)
        # ... and the reduction kernel adds its slice up: the one element it writes is the SUM of the input slice, nothing else
        from .facts import is_sliced_closure, is_backward_closure
        kernels = [nb for nb in facts.nested(b) if nb is not b and is_sliced_closure(nb, facts) and not any(is_backward_closure(a_) for a_ in _parents(facts, nb))]
        for nb in kernels[:1]:
            kps = [p for p in facts.params(nb) if p.get("pat")]
            outv = kps[0]["pat"].get("v") if kps and kps[0]["pat"].get("k") == "Binding" else None
            inv = kps[1]["pat"].get("v") if len(kps) > 1 and kps[1]["pat"].get("k") == "Binding" else None
            stores = [x for x in walk(facts.root(nb)) if x.get("k") in ("Assign", "AssignOp") and any(y.get("k") in ("VarRef", "UpvarRef") and y["v"] == outv for y in walk(x["l"]))]
            kinst, kwhere = "sum:kernel", "%s:%d" % (F.rel(nb["file"]), nb["sp"][0])
            if len(stores) != 1 or stores[0]["k"] != "Assign":
                c.unk(kinst, kwhere, "the reduction kernel of sum does not consist of one plain store into its output slice")
                continue
            rhs = strip(stores[0]["r"])
            lets_ = {st["pat"]["v"]: st["init"] for x_ in walk(facts.root(nb)) if x_.get("k") == "Block" for st in x_["stmts"]
                     if st["s"] == "let" and st["pat"].get("k") == "Binding" and st.get("init") is not None}
            verdict = None
            # loop form: `let mut total = 0.0; for v in arrays[0] { total += v; } out[0] = total;`
            accv = rhs["v"] if isinstance(rhs, dict) and rhs.get("k") == "VarRef" else None
            acc_ops = [x for x in walk(facts.root(nb)) if (x.get("k") in ("AssignOp", "Assign") and F.var_of(strip(x["l"])) == accv and strip(x["l"]).get("k") == "VarRef")
                       or (x.get("k") == "Call" and (callee(x) or "").startswith("core::ops::arith::") and (callee(x) or "").endswith("_assign") and x.get("args")
                           and F.var_of(peel(x["args"][0])) == accv)] if accv else []
            if accv and acc_ops:
                verdict = _sum_loop_verdict(facts, nb, accv, acc_ops, lets_.get(accv), inv)
                if verdict is None:
                    c.unk(kinst, kwhere, "the reduction kernel of sum accumulates `%s` in a loop of a form this rule does not read" % accv.split("#")[0])
                    continue
            hops_ = 0
            while verdict is None and isinstance(rhs, dict) and rhs.get("k") == "VarRef" and rhs["v"] in lets_ and hops_ < 3:
                rhs = strip(lets_[rhs["v"]])
                hops_ += 1
            if isinstance(rhs, dict) and rhs.get("k") == "Call":
                cal_ = callee(rhs) or ""
                src_ok = any(y.get("k") in ("VarRef", "UpvarRef") and y["v"] == inv for y in walk(rhs["args"][0])) if rhs.get("args") else False
                adaptors = {(callee(y) or "").rsplit("::", 1)[-1] for y in walk(rhs["args"][0]) if y.get("k") == "Call" and (callee(y) or "").startswith("core::iter::")} if rhs.get("args") else set()
                plain = adaptors <= {"copied", "cloned", "into_iter", "by_ref", "rev"}
                if cal_ == "core::iter::traits::iterator::Iterator::sum" and src_ok and plain:
                    verdict = ("ok", "the kernel writes `arrays[0].iter().sum()`")
                elif cal_ == "core::iter::traits::iterator::Iterator::fold" and src_ok and plain and len(rhs["args"]) == 3:
                    init_ok = lit_value_(rhs["args"][1]) == 0
                    clo = strip(rhs["args"][2])
                    body_ok = None
                    if clo.get("k") == "Closure":
                        cb_ = facts.body(clo["closure"])
                        cps = [v for p_ in facts.params(cb_) if p_.get("pat") for v, _, _, _ in F.pat_bindings(p_["pat"])] if cb_ else []
                        tl = strip(facts.root(cb_)) if cb_ else None
                        while isinstance(tl, dict) and tl.get("k") == "Block" and not tl["stmts"] and tl.get("e") is not None:
                            tl = strip(tl["e"])
                        if isinstance(tl, dict) and len(cps) == 2:
                            sides = None
                            if tl.get("k") == "Binary" and tl.get("op") == "Add":
                                sides = [tl["l"], tl["r"]]
                            elif tl.get("k") == "Call" and callee(tl) == "core::ops::arith::Add::add" and len(tl["args"]) == 2:
                                sides = tl["args"]
                            body_ok = sides is not None and sorted(F.var_of(peel(x_)) or "" for x_ in sides) == sorted(cps) and all(peel(x_).get("k") in ("VarRef", "UpvarRef") for x_ in sides)
                    elif clo.get("k") == "FnItem" and ((clo.get("fn") or {}).get("path") or "") == "core::ops::arith::Add::add":
                        body_ok = True
                    if init_ok and body_ok:
                        verdict = ("ok", "the kernel folds its slice with `+` from 0")
                    elif body_ok is False or not init_ok:
                        verdict = ("bad", "the reduction kernel of sum folds its slice with `%s` from `%s`: the element it writes is not the sum of the slice (it agrees with the sum only for "
                                          "some inputs, e.g. non-negative ones)" % (show(clo)[:40] if clo.get("k") != "Closure" else show(tl)[:50], show(rhs["args"][1])[:12]))
            if verdict is None:
                c.unk(kinst, kwhere, "the reduction kernel of sum writes `%s`, a form this rule does not read" % show(rhs)[:60])
            elif verdict[0] == "ok":
                c.ok(kinst, kwhere, verdict[1])
            else:
                c.bad(kinst, kwhere, verdict[1])
    # ---- reshape keeps the values in row-major order (shares / copies the flat buffer unchanged)
    for b in _find_fn(facts, "reshape"):
        where = "%s:%d" % (F.rel(b["file"]), b["sp"][0])
        fw = _forward(facts, b, uninterp=False)
        try:
            val, _, _ = fw.ctor(b)
            got, why = _single_arr(fw, val)
        except (Abstain, Unsupported, RecursionError) as ex:
            got, why = None, str(ex)
        if got is None:
            c.unk("reshape", where, "reshape's value is not readable (%s)" % why)
        else:
            n += 1
            _cmp(c, "reshape", where, got, fw.alg.atom("a0"), "flat values of reshape(a0)")
        # ... the WHOLE buffer: a prefix / a part of it would make the constructor's element-count refusal pass for a smaller target
        lets_ = {}
        for x in walk(facts.root(b)):
            if x.get("k") == "Block":
                for st in x["stmts"]:
                    if st["s"] == "let" and st["pat"].get("k") == "Binding" and st.get("init") is not None:
                        lets_[st["pat"]["v"]] = st["init"]
        part = None
        for x in walk(facts.root(b)):
            if x.get("k") == "Call" and (resolved(x) or "").startswith("<%s as core::convert::From<(" % ARRAY) and x["args"]:
                tup = strip(x["args"][0])
                if tup.get("k") == "Tuple" and len(tup["fields"]) == 2:
                    todo = [tup["fields"][1]]
                    seen_ = set()
                    while todo:
                        e_ = todo.pop()
                        for y in walk(e_):
                            if y.get("k") in ("VarRef", "UpvarRef") and y["v"] in lets_ and y["v"] not in seen_:
                                seen_.add(y["v"])
                                todo.append(lets_[y["v"]])
                            if y.get("k") == "Adt" and (y.get("adt") or "").startswith("core::ops::range::"):
                                part = part or y
                            if y.get("k") == "Call" and (callee(y) or "").rsplit("::", 1)[-1] in ("take", "skip", "truncate", "split_at", "chunks", "step_by", "split_off", "drain", "first", "last"):
                                part = part or y
        if part is not None:
            c.bad("reshape:whole-buffer", F.loc(b, part), "reshape builds its result from a part of the operand's values (`%s`): the constructor's element-count refusal is then satisfied by a target "
                  "with fewer elements, which must be refused" % show(part)[:50])
        else:
            c.ok("reshape:whole-buffer", where, "reshape hands the operand's whole value buffer to the constructor", nontrivial=False)
    c.count("definitions compared", n)
    return c


# ====================================================================================== R34 (C15)

def _closure_in(facts, b):
    """the closure literal (or the private function passed by name) that a `Box::new(..)` cost constructor returns"""
    cl = [x for x in facts.closures() if x.get("parent") == b["def"]]
    if len(cl) == 1:
        return cl[0]
    if not cl:
        items = [n for n in walk(facts.root(b)) if n.get("k") == "FnItem" and (n.get("fn") or {}).get("resolved_local")]
        if len(items) == 1:
            fb = facts.body((items[0]["fn"].get("resolved") or items[0]["fn"].get("path")))
            if fb is not None and len([p for p in facts.params(fb) if p.get("pat")]) == 2:
                return fb
    return None


def r34_documented_formulas(facts):
    """FORMULA-SPEC: mse = (target - output)^2 / element count; cross-entropy = -target * ln(output) / leading dimension; Dense = activation(matmul(x, W^T) + b as one call); Conv = activation(conv(x, filters, stride) + biases); the model composes its layers in order and its backward returns sum_all(cost(output, target))"""
    c = Ctx("R34", facts, "costs, layers and model compute their documented formulas")
    fl = facts.float or "f64"
    n = 0
    # ---- costs
    for nm in ("mse", "cross_entropy"):
        b = facts.body("corgi::cost::%s" % nm)
        cb = _closure_in(facts, b) if b is not None else None
        if cb is None:
            c.unk("cost:%s" % nm, "-", "cost function %s not found as `Box::new(|output, target| ..)`" % nm)
            continue
        where = "%s:%d" % (F.rel(cb["file"]), cb["sp"][0])
        stateful = [cap for cap in cb.get("captures", []) if (cap.get("walk") or {}).get("cells")]
        if stateful:
            c.bad("cost:%s#state" % nm, where, "the cost closure captures interior-mutable state (`%s`: %s): what it returns can depend on earlier calls (a scale or a size remembered from "
                  "the first batch), so it is not a function of its output and target" % (stateful[0].get("var"), stateful[0].get("ty")))
        fw = _forward(facts, cb)
        out, tgt = fw.alg.atom("a0"), fw.alg.atom("a1")
        env = Env(None)
        ps = [p for p in facts.params(cb) if p.get("pat")]
        for p, v in zip(ps, [("arr", out), ("arr", tgt)]):
            fw.ev.bind(p["pat"], v, env)
        if nm == "mse":
            want = (tgt - out).powlf(lf(2)) / fw.alg.atom("count[%r]" % out)
        else:
            want = (-tgt) * fw.alg.ln(out) / fw.alg.atom("dim0[%r]" % out)
        try:
            val = fw.ev.ev(_root_without_returns(facts, cb), env)
            alts_ = fw.ev.alts(val)
            got, why = _single_arr(fw, val)
        except (Abstain, Unsupported, RecursionError) as ex:
            got, why, alts_ = None, str(ex), []
        if got is None and len(alts_) > 1 and all(a_[0] == "arr" for a_ in alts_):
            off = [a_ for a_ in alts_ if not _same_safe(a_[1], want)]
            n += 1
            if off:
                c.bad("cost:%s" % nm, where, "%s(output=a0, target=a1) is documented as %r but for some inputs the code computes %r" % (nm, want, off[0][1]))
            else:
                c.ok("cost:%s" % nm, where, "%s(output=a0, target=a1) = %r on every path" % (nm, want))
            continue
        if got is None:
            c.unk("cost:%s" % nm, where, "the cost closure is outside the algebra (%s)" % why)
            continue
        n += 1
        _cmp(c, "cost:%s" % nm, where, got, want, "%s(output=a0, target=a1)" % nm)
    # ---- layers
    layer_fwd = [b for b in facts.fns() if b.get("name") == "forward" and b.get("impl_trait_def") == "corgi::layer::Layer"]
    c.floor("Layer::forward implementations", len(layer_fwd), 2)
    for b in layer_fwd:
        where = "%s:%d" % (F.rel(b["file"]), b["sp"][0])
        self_ty = b.get("impl_self") or ""
        kind = "dense" if "Dense" in self_ty else ("conv" if "Conv" in self_ty else None)
        inst = "layer:%s" % (kind or self_ty)
        if kind is None:
            c.ok(inst, where, "a layer this rule has no documented formula for", nontrivial=False)
            continue
        fw = _forward(facts, b)
        x = fw.alg.atom("a0")
        env = Env(None)
        ps = [p for p in facts.params(b) if p.get("pat")]
        vals = [("opaque", "self"), ("arr", x)]
        for p, v in zip(ps, vals):
            fw.ev.bind(p["pat"], v, env)
        try:
            val = fw.ev.ev(_root_without_returns(facts, b), env)
            got = fw.ev.alts(val)
        except (Abstain, Unsupported, RecursionError) as ex:
            got = [("unk", str(ex))]
        bad = [g for g in got if g[0] != "arr"]
        if bad:
            c.unk(inst, where, "forward is outside the algebra (%s)" % str(bad[0][1])[:120])
            continue
        A = fw.alg.atom
        if kind == "dense":
            core = A("matmul[(%r,F)|(%r,T)|Some(%r)]" % (x, A("f:weights"), A("f:biases")))
        else:
            core = A("conv[%r|%r|f:stride_dimensions]" % (x, A("f:filters"))) + A("f:biases")
        want = [A("call:f:activation[%r]" % core), core]
        n += 1
        try:
            ok = len(got) == 2 and all(any(same(g[1], w) for g in got) for w in want)
        except Unsupported:
            ok = None
        if ok:
            c.ok(inst, where, "%s forward = activation?(%r)" % (kind, core))
        elif ok is None:
            c.unk(inst, where, "comparison outside the algebra")
        else:
            c.bad(inst, where, "%s forward is documented as activation?(%r) but the code computes %s" % (kind, core, " or ".join(repr(g[1]) for g in got)))
    # ---- activation closures: relu / sigmoid / softmax apply exactly that function, once
    for nm in ("relu", "sigmoid", "softmax"):
        b = facts.body("corgi::activation::%s" % nm)
        cb = _closure_in(facts, b) if b is not None else None
        if cb is None:
            c.unk("activation:%s" % nm, "-", "activation::%s is not a `Box::new(|x| ..)` closure (or a private function passed by name)" % nm)
            continue
        where = "%s:%d" % (F.rel(cb["file"]), cb["sp"][0])
        fw = _forward(facts, cb)
        x = fw.alg.atom("a0")
        env = Env(None)
        ps = [p for p in facts.params(cb) if p.get("pat")]
        for p, v in zip(ps, [("arr", x)]):
            fw.ev.bind(p["pat"], v, env)
        try:
            val = fw.ev.ev(_root_without_returns(facts, cb), env)
            got, why = _single_arr(fw, val)
        except (Abstain, Unsupported, RecursionError) as ex:
            got, why = None, str(ex)
        if got is None:
            c.unk("activation:%s" % nm, where, "the activation closure is outside the algebra (%s)" % why)
            continue
        if nm == "relu":
            want = PW("Gt(%r)" % x, x, Frac(0))
        elif nm == "sigmoid":
            want = Frac(1) / (Frac(1) + fw.alg.exp(-x))
        else:
            ex_ = fw.alg.exp(x)
            want = ex_ / fw.alg.atom("sum[%r|1]" % ex_)
        n += 1
        _cmp(c, "activation:%s" % nm, where, got, want, "activation::%s()(a0)" % nm)
    # ---- parameter shapes set up by the constructors: weights [outputs, inputs], one bias per output / per filter
    for ctor_name, self_ty_part, want_shapes in (("new", "Dense", {"weights": ["p1", "p0"], "biases": ["p1"]}),
                                                  ("new", "Conv", {"filters": ["p0.0", "p0.1", "p0.2", "p0.3"], "biases": ["p0.0", 1, 1]})):
        for b in facts.fns():
            if b.get("name") != ctor_name or self_ty_part not in (b.get("impl_self") or "") or b.get("impl_trait_def"):
                continue
            where = "%s:%d" % (F.rel(b["file"]), b["sp"][0])
            ps = [p for p in facts.params(b) if p.get("pat")]
            pnames = {}
            for i, p in enumerate(ps):
                if p["pat"].get("k") == "Binding":
                    pnames[p["pat"]["v"]] = "p%d" % i
            lets = {}
            for n_ in walk(facts.root(b)):
                if n_.get("k") == "Block":
                    for st in n_["stmts"]:
                        if st["s"] == "let" and st.get("init") is not None:
                            if st["pat"].get("k") == "Binding":
                                lets[st["pat"]["v"]] = st["init"]
                            elif st["pat"].get("k") == "Leaf" and F.var_of(st["init"]) in pnames:
                                for sb in st["pat"]["subs"]:
                                    if sb["pat"].get("k") == "Binding":
                                        pnames[sb["pat"]["v"]] = "%s.%d" % (pnames[F.var_of(st["init"])], sb["idx"])

            def dim_name(e, depth=0, pnames=pnames, lets=lets):
                e = strip(e)
                lv = lit_value_(e)
                if isinstance(lv, int):
                    return lv
                v = F.var_of(e)
                if v in pnames:
                    return pnames[v]
                if e.get("k") == "Field" and F.var_of(e["e"]) in pnames and e.get("idx") is not None:
                    return "%s.%d" % (pnames[F.var_of(e["e"])], e["idx"])
                if v in lets and depth < 4:
                    return dim_name(lets[v], depth + 1)
                return None
            from .repr_rules import vec_literal_elems
            # configuration handed to the constructor (the activation, the stride) is stored as given: a field whose type is that of exactly one
            # parameter is initialised with that parameter
            ptypes = {}
            for p_ in facts.params(b):
                if p_.get("pat") and p_["pat"].get("k") == "Binding":
                    ptypes.setdefault(p_.get("ty"), []).append(p_["pat"]["v"])
            for n_ in walk(facts.root(b)):
                if n_.get("k") == "Adt" and n_.get("adt_local") and n_.get("fields"):
                    for fld in n_["fields"]:
                        fty = (strip(fld["e"]).get("ty") or "")
                        cand = [t_ for t_ in ptypes if t_ == fty or (fty and t_ and t_.replace("'static ", "") == fty.replace("'static ", ""))]
                        if ARRAY in fty or len(cand) != 1 or len(ptypes[cand[0]]) != 1:
                            # also: an Option / closure-typed field set to a literal None although a parameter of an Option type exists
                            if strip(fld["e"]).get("k") == "Adt" and strip(fld["e"]).get("variant") == "None":
                                opt_params = [v for t_, vs in ptypes.items() if (t_ or "").startswith("core::option::Option<") for v in vs]
                                if len(opt_params) == 1:
                                    c.bad("config:%s.%s" % (self_ty_part, fld.get("name")), F.loc(b, fld["e"]), "`%s` is set to None although the constructor receives `%s`: the configuration the caller asked for is dropped"
                                          % (fld.get("name"), opt_params[0].split("#")[0]))
                            continue
                        pv = ptypes[cand[0]][0]
                        init0 = strip(fld["e"])
                        hops0 = 0
                        while isinstance(init0, dict) and init0.get("k") == "VarRef" and init0["v"] in lets and init0["v"] != pv and hops0 < 3:
                            init0 = strip(lets[init0["v"]])
                            hops0 += 1
                        cinst = "config:%s.%s" % (self_ty_part, fld.get("name"))
                        if F.var_of(init0) == pv:
                            c.ok(cinst, F.loc(b, fld["e"]), "`%s` is the constructor's `%s` as given" % (fld.get("name"), pv.split("#")[0]), nontrivial=False)
                        elif init0.get("k") == "Tuple":
                            # a pair re-assembled from the parameter's components: each component is stored as given (their order is the axis rule's business)
                            for i_, f_ in enumerate(init0["fields"]):
                                f0 = strip(f_)
                                hops1 = 0
                                while isinstance(f0, dict) and f0.get("k") == "VarRef" and f0["v"] in lets and hops1 < 3:
                                    f0 = strip(lets[f0["v"]])
                                    hops1 += 1
                                is_proj = isinstance(f0, dict) and f0.get("k") == "Field" and f0.get("idx") is not None and F.var_of(f0["e"]) == pv
                                if is_proj or (F.var_of(f0) in pnames and pv in pnames and str(pnames.get(F.var_of(f0), "")).startswith(str(pnames[pv]) + ".")):
                                    continue
                                local_ = any(y_.get("k") == "Call" and (y_.get("callee") or {}).get("resolved_local") for y_ in walk(f0))
                                if local_:
                                    c.unk(cinst + "#%d" % i_, F.loc(b, f_), "component %d of `%s` goes through a helper function" % (i_, fld.get("name")))
                                else:
                                    c.bad(cinst + "#%d" % i_, F.loc(b, f_), "component %d of `%s` is stored as `%s`, not as the constructor's `%s.%d` was given: the layer then works with another "
                                          "configuration than the caller asked for" % (i_, fld.get("name"), show(f0)[:50], pv.split("#")[0], i_))
                        elif any(x_.get("k") in ("VarRef", "UpvarRef") and x_["v"] == pv for x_ in walk(init0)):
                            pass        # derived from it: judged by the axis / provenance rules
                        else:
                            c.bad(cinst, F.loc(b, fld["e"]), "`%s` is not initialised from the constructor's `%s` (it is `%s`): the configuration the caller asked for is dropped"
                                  % (fld.get("name"), pv.split("#")[0], show(init0)[:40]))
            for n_ in walk(facts.root(b)):
                if n_.get("k") == "Adt" and n_.get("adt_local") and n_.get("fields"):
                    for fld in n_["fields"]:
                        fname = fld.get("name")
                        if fname not in want_shapes:
                            continue
                        init = strip(fld["e"])
                        hops = 0
                        while isinstance(init, dict) and init.get("k") in ("VarRef",) and init["v"] in lets and hops < 4:
                            init = strip(lets[init["v"]])
                            hops += 1
                        dims = None
                        for x_ in walk(init):
                            if x_.get("k") == "Call" and (resolved(x_) or "").startswith("<corgi::array::Array as core::convert::From<(") and x_["args"]:
                                t = strip(x_["args"][0])
                                if t.get("k") == "Tuple" and t["fields"]:
                                    d0 = strip(t["fields"][0])
                                    hops2 = 0
                                    while isinstance(d0, dict) and d0.get("k") == "VarRef" and d0["v"] in lets and hops2 < 4:
                                        d0 = strip(lets[d0["v"]])
                                        hops2 += 1
                                    els = vec_literal_elems(d0)
                                    if els is not None:
                                        dims = [dim_name(e_) for e_ in els]
                        inst = "shape:%s.%s" % (self_ty_part, fname)
                        if dims is None or any(d is None for d in dims):
                            c.unk(inst, where, "dimensions of `%s` are not a vector literal of constructor parameters (%s)" % (fname, dims))
                        else:
                            n += 1
                            c.check(dims == want_shapes[fname], inst, where, "`%s` has dimensions %s" % (fname, dims),
                                    "`%s` is created with dimensions %s, documented layout %s" % (fname, dims, want_shapes[fname]))
    # ---- model
    mf = [b for b in facts.fns() if b.get("name") == "forward" and (b.get("impl_self") or "").startswith("corgi::model::Model")]
    mb = [b for b in facts.fns() if b.get("name") == "backward" and (b.get("impl_self") or "").startswith("corgi::model::Model")]
    c.floor("Model::forward / Model::backward", len(mf) + len(mb), 2)
    for b in mf:
        where = "%s:%d" % (F.rel(b["file"]), b["sp"][0])
        ok, why = _composes_in_order(facts, b)
        n += 1
        if ok is True:
            c.ok("model:forward", where, "every layer is applied once, first to last, each to the previous result, and the last result is returned")
        elif ok is False:
            c.bad("model:forward", where, why)
        else:
            c.unk("model:forward", where, why)
    # the output remembered for backward is written by forward alone: backward (or anything else) that takes, clears or replaces it
    # changes what the next backward differentiates (a second backward on the same forward panics or uses another output)
    n_w = 0
    # backward, update, and the crate-local functions they call
    loop_fns = {x["def"] for x in facts.fns() if x.get("name") in ("backward", "update") and (x.get("impl_self") or "").startswith("corgi::model::Model")}
    for _ in range(3):
        for x in list(facts.bodies):
            if x.get("root", x["def"]) in loop_fns:
                for y in walk(facts.root(x)):
                    if y.get("k") == "Call" and (y.get("callee") or {}).get("resolved_local") and (resolved(y) or "").startswith("corgi::model::"):
                        loop_fns.add(resolved(y))
    for b in facts.bodies:
        mir = b.get("mir")
        if not mir:
            continue
        rootdef = b.get("root", b["def"])
        rb = facts.body(rootdef) or b
        for p_ in mir["field_places"]:
            if p_["ctx"] in MUTATING and any(isinstance(e_, dict) and (e_.get("adt") or "").startswith("corgi::model::Model") and e_.get("field") == "output" for e_ in p_["proj"]):
                n_w += 1
                is_fw = rb.get("name") == "forward" and (rb.get("impl_self") or "").startswith("corgi::model::Model")
                if not is_fw and rootdef not in loop_fns:
                    c.ok("model:output-writer:%s" % rootdef, "%s:%d" % (F.rel(b["file"]), p_["sp"][0]), "written outside backward / update (another entry point of the model)", nontrivial=False)
                    continue
                c.check(is_fw, "model:output-writer:%s" % rootdef, "%s:%d" % (F.rel(b["file"]), p_["sp"][0]),
                        "the stored output is set by forward",
                        "%s of Model.output in %s: backward and update leave the output that forward stored as it is (taking or clearing it makes a second backward "
                        "on the same forward panic instead of returning its loss)" % (p_["ctx"], rootdef))
    if mf:
        c.floor("writes of Model.output", n_w, 1)
    # forward records its result on EVERY path: an early return (a model of one layer, an input seen before) hands out a result that
    # backward will not find (it differentiates the output stored by an earlier forward, or panics)
    for b in mf:
        blocks = [x for x in walk(facts.root(b)) if x.get("k") == "Block"]
        for rn in walk(facts.root(b)):
            if rn.get("k") == "Return" and rn.get("e") is not None:
                stored = False
                for blk in blocks:
                    stmts_ = blk["stmts"]
                    for i_, st in enumerate(stmts_):
                        e_ = st.get("e") if st["s"] == "expr" else st.get("init")
                        if e_ is not None and any(y is rn for y in walk(e_)) or (blk.get("e") is not None and i_ == len(stmts_) - 1 and any(y is rn for y in walk(blk["e"]))):
                            for prev in stmts_[:i_ + (1 if not (e_ is not None and any(y is rn for y in walk(e_))) else 0)]:
                                pe_ = prev.get("e") if prev["s"] == "expr" else prev.get("init")
                                if pe_ is not None and any(y.get("k") == "Assign" and any(z.get("k") == "Field" and z.get("name") == "output" for z in walk(y["l"])) for y in walk(pe_)):
                                    stored = True
                if stored:
                    continue
                c.bad("model:forward#early-return", F.loc(b, rn), "Model::forward returns early (`%s`) without storing its result as the model's output: the next backward differentiates "
                      "another output, or none" % show(rn["e"])[:60])
    for b in mb:
        where = "%s:%d" % (F.rel(b["file"]), b["sp"][0])
        fw = _forward(facts, b)
        env = Env(None)
        ps = [p for p in facts.params(b) if p.get("pat")]
        tgt = fw.alg.atom("a0")
        for p, v in zip(ps, [("opaque", "self"), ("arr", tgt)]):
            fw.ev.bind(p["pat"], v, env)
        try:
            val = fw.ev.ev(_root_without_returns(facts, b), env)
            got = fw.ev.alts(val)
        except (Abstain, Unsupported, RecursionError) as ex:
            got = [("unk", str(ex))]
        A = fw.alg.atom
        want = A("sum_all[%r]" % A("call:f:cost[%r|%r]" % (A("f:output"), tgt)))
        if len(got) > 1 and all(g_[0] == "s" for g_ in got):
            # several possible values (a condition on the way): each of them is returned for some input, so each must be the documented one
            off = [g_ for g_ in got if not _same_safe(g_[1], want)]
            if off:
                c.bad("model:backward", where, "value returned by Model::backward(target=a0) is documented as %r but for some inputs the code computes %r" % (want, off[0][1]))
                continue
        if len(got) != 1 or got[0][0] != "s":
            c.unk("model:backward", where, "the returned value is outside the algebra (%s)" % (str(got[0][1])[:100] if got else "?"))
            continue
        n += 1
        _cmp(c, "model:backward", where, got[0][1], want, "value returned by Model::backward(target=a0)")
    c.count("formulas compared", n)
    return c


ADAPT_OK = ("core::slice::<impl [T]>::iter", "core::slice::<impl [T]>::iter_mut", "core::iter::traits::collect::IntoIterator::into_iter",
            "core::ops::deref::Deref::deref", "core::ops::deref::DerefMut::deref_mut")


def _layers_source(it):
    src = peel(it)
    while isinstance(src, dict) and src.get("k") == "Call":
        if callee(src) in ADAPT_OK and src["args"]:
            src = peel(src["args"][0])
        else:
            return False, "the layers are traversed through `%s`: not every layer once, first to last" % (callee(src) or "?").rsplit("::", 1)[-1]
    if not (isinstance(src, dict) and src.get("k") == "Field" and src.get("name") == "layers"):
        return None, "iteration source is not self.layers: %s" % show(src)[:60]
    return True, ""


def _composes_by_fold(facts, b, root, run, fold):
    """`self.layers.iter().fold(input, |acc, layer| layer.forward(acc))`, stored and returned"""
    ok, why = _layers_source(fold["args"][0])
    if ok is not True:
        return ok, why
    if F.var_of(fold["args"][1]) != run:
        return False, "the fold does not start from the model's input"
    clo = strip(fold["args"][2])
    if clo.get("k") != "Closure":
        return None, "fold function is not a closure literal"
    cb = facts.body(clo["closure"])
    ps = [p for p in facts.params(cb) if p.get("pat")]
    if len(ps) != 2 or any(p["pat"].get("k") != "Binding" for p in ps):
        return None, "fold closure parameters not recognised"
    acc, layer = ps[0]["pat"]["v"], ps[1]["pat"]["v"]
    t = strip(facts.root(cb))
    while isinstance(t, dict) and t.get("k") == "Block" and not t["stmts"] and t.get("e") is not None:
        t = strip(t["e"])
    if not (t.get("k") == "Call" and callee(t) == "corgi::layer::Layer::forward" and len(t["args"]) == 2):
        return False, "the fold step is not `layer.forward(acc)`: %s" % show(t)[:80]
    if F.var_of(t["args"][0]) != layer or F.var_of(t["args"][1]) != acc:
        return False, "the fold step does not apply the current layer to the accumulated result"
    # the fold's value is stored in self.output (clone) and returned
    res = None
    for n in walk(root):
        if n.get("k") == "Block":
            for s_ in n["stmts"]:
                if s_["s"] == "let" and s_["pat"].get("k") == "Binding" and s_.get("init") is not None and strip(s_["init"]) is fold:
                    res = s_["pat"]["v"]
    tail = strip(root)
    while isinstance(tail, dict) and tail.get("k") == "Block" and tail.get("e") is not None:
        tail = strip(tail["e"])
    if tail is fold:
        return None, "the fold's value is returned directly (nothing stored for Model::backward)"
    if res is None or F.var_of(tail) != res:
        return None, "the fold's value is not bound and returned in a recognised form"
    stored = False
    for n in walk(root):
        if n.get("k") == "Assign":
            r_, ch = F.field_chain(n["l"])
            if ch and ch[-1] == "output":
                rhs2 = strip(n["r"])
                if rhs2.get("k") == "Adt" and rhs2.get("variant") == "Some" and rhs2["fields"]:
                    inner = strip(rhs2["fields"][0]["e"])
                    if F.var_of(inner) == res or (inner.get("k") == "Call" and (callee(inner) or "").endswith("::clone") and F.var_of(inner["args"][0]) == res):
                        stored = True
    stored = stored or _stored_by_replace(root, res)
    if not stored:
        return None, "the last result is not stored in self.output in a recognised form (Model::backward reads it)"
    return True, ""


def _stored_by_replace(root, run):
    """`self.output.replace(x.clone())` / `self.output.insert(..)` / `self.output = Some(..)` handled elsewhere"""
    for n in walk(root):
        if n.get("k") == "Call" and callee(n) in ("core::option::Option::<T>::replace", "core::option::Option::<T>::insert") and len(n["args"]) == 2:
            r_, ch = F.field_chain(n["args"][0])
            inner = strip(n["args"][1])
            if ch and ch[-1] == "output" and (F.var_of(inner) == run or (inner.get("k") == "Call" and (callee(inner) or "").endswith("::clone")
                                                                      and F.var_of(inner["args"][0]) == run)):
                return True
    return False


def _composes_in_order(facts, b):
    """Model::forward: a plain iteration over self.layers whose body re-binds the running value to layer.forward(running value),
    which is what the function returns.  (True | False | None, why)"""
    root = facts.root(b)
    ps = [p for p in facts.params(b) if p.get("pat")]
    if len(ps) < 2 or ps[1]["pat"].get("k") != "Binding":
        return None, "parameters not recognised"
    run = ps[1]["pat"]["v"]
    loops = []
    seen = set()
    for n in walk(root):
        fl = F.for_loop_parts(n)
        if fl and id(fl[3]) not in seen:
            seen.add(id(fl[3]))
            loops.append(fl)
    folds = [n for n in walk(root) if n.get("k") == "Call" and callee(n) == "core::iter::traits::iterator::Iterator::fold"]
    if not loops and len(folds) == 1:
        return _composes_by_fold(facts, b, root, run, folds[0])
    if len(loops) != 1 or folds:
        return None, "the composition is not written as one `for` loop over the layers (%d loops, %d folds)" % (len(loops), len(folds))
    it, pat, body, _ = loops[0]
    # iteration source: self.layers, possibly behind & / iter() / iter_mut(), with no order-changing or selecting adaptor
    ok, why = _layers_source(it)
    if ok is not True:
        return ok, why
    lv = [v for v, _, _, _ in F.pat_bindings(pat)]
    assigns = [n for n in walk(body) if n.get("k") == "Assign"]
    if len(assigns) != 1 or F.var_of(assigns[0]["l"]) != run:
        return None, "the loop body does not re-bind the running value exactly once"
    rhs = strip(assigns[0]["r"])
    if not (rhs.get("k") == "Call" and callee(rhs) == "corgi::layer::Layer::forward" and len(rhs["args"]) == 2):
        return False, "the running value is not replaced by `layer.forward(..)`: %s" % show(rhs)[:80]
    if F.var_of(rhs["args"][0]) not in lv:
        return False, "forward is not called on the layer of the current iteration"
    if F.var_of(rhs["args"][1]) != run:
        return False, "the layer is not applied to the previous layer's result (`%s`)" % show(rhs["args"][1])[:60]
    conds = [n for n in walk(body) if n.get("k") in ("If", "Match") and n is not strip(body)]
    if any(n.get("k") == "If" for n in walk(body)) or any(x.get("k") in ("Break", "Continue", "Return") for x in walk(body)):
        return False, "a layer can be skipped (conditional / break / continue inside the loop)"
    tail = strip(root)
    while isinstance(tail, dict) and tail.get("k") == "Block" and tail.get("e") is not None:
        tail = strip(tail["e"])
    if F.var_of(tail) != run or tail.get("k") not in ("VarRef",):
        ret = show(tail)[:60]
        # `input.clone()` is the same value
        if not (isinstance(tail, dict) and tail.get("k") == "Call" and (callee(tail) or "").endswith("::clone") and F.var_of(tail["args"][0]) == run):
            return False, "the function returns `%s`, not the last layer's result" % ret
    # the result is what Model::backward later reads: self.output = Some(clone of the last result)
    stored = False
    for n in walk(root):
        if n.get("k") == "Assign":
            r_, ch = F.field_chain(n["l"])
            if ch and ch[-1] == "output":
                rhs2 = strip(n["r"])
                if rhs2.get("k") == "Adt" and rhs2.get("variant") == "Some" and rhs2["fields"]:
                    inner = strip(rhs2["fields"][0]["e"])
                    if F.var_of(inner) == run or (inner.get("k") == "Call" and (callee(inner) or "").endswith("::clone") and F.var_of(inner["args"][0]) == run):
                        stored = True
    stored = stored or _stored_by_replace(root, run)
    if not stored:
        return None, "the last result is not stored in self.output in a recognised form (Model::backward reads it)"
    return True, ""
