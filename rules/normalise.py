"""Load-time normalisations of derivative closures (semantics-preserving rewrites of the THIR facts, so that every rule reads one form).

flag matches:   match (t[0], t[1]) { (true, true) => vec![Some(a), Some(b)], (true, false) => vec![Some(a), None], .. }
becomes         vec![if t[0] { Some(a) } else { None }, if t[1] { Some(b) } else { None }]
when - and only when - every arm is a plain slot-vector literal of the same length, patterns are Boolean constants / wildcards without guards,
and the payload of a slot is the same expression in every arm where the slot is Some.  A slot that is Some under another set of flag values
than "its own flag is true" gets that set as its condition (a conjunction / disjunction of flags), so the engine rules judge it as they judge a
hand-written `if t[0] && t[1]`.  Anything else is left as it is (the rules then abstain on the unread form)."""
import copy
import itertools
from .facts import strip, walk, lit_value, is_backward_closure
from .show import show

OPTION = "core::option::Option"


def _vec_elems(n):
    from .facts import callee
    n = strip(n)
    if isinstance(n, dict) and n.get("k") == "Call" and callee(n) in ("alloc::boxed::box_assume_init_into_vec_unsafe", "alloc::slice::<impl [T]>::into_vec"):
        for x in walk(n):
            if x.get("k") == "Array":
                return x["fields"]
    return None


def _plain_tail(n):
    n = strip(n)
    while isinstance(n, dict) and n.get("k") == "Block":
        if n["stmts"] or n.get("e") is None:
            return None
        n = strip(n["e"])
    return n


def _flag_index(e, tvar):
    from .facts import peel, var_of, callee
    e = peel(e)
    if not isinstance(e, dict):
        return None
    if e.get("k") == "Index" and var_of(e["e"]) == tvar:
        v = lit_value(e["i"])
        return v if isinstance(v, int) else None
    if e.get("k") == "Call" and callee(e) == "core::ops::index::Index::index" and len(e["args"]) == 2 and var_of(e["args"][0]) == tvar:
        v = lit_value(e["args"][1])
        return v if isinstance(v, int) else None
    return None


def _pat_values(pat, n):
    """[True|False|None(wild)] * n for a tuple (or single) pattern of Boolean constants, or None"""
    def one(p):
        if p.get("k") == "Wild":
            return "any"
        if p.get("k") == "Constant" and p.get("value") in ("true", "false"):
            return p["value"] == "true"
        return "bad"
    if n == 1 and pat.get("k") in ("Wild", "Constant"):
        r = [one(pat)]
    elif pat.get("k") == "Wild":
        r = ["any"] * n
    elif pat.get("k") == "Leaf" and len(pat.get("subs") or []) <= n:
        r = ["any"] * n
        for s in pat["subs"]:
            if not isinstance(s.get("idx"), int) or s["idx"] >= n:
                return None
            r[s["idx"]] = one(s["pat"])
    else:
        return None
    return None if "bad" in r else r


def _is_some(n):
    n = strip(n)
    return isinstance(n, dict) and n.get("k") == "Adt" and n.get("adt") == OPTION and n.get("variant") == "Some" and len(n.get("fields") or []) == 1


def _is_none(n):
    n = strip(n)
    return isinstance(n, dict) and n.get("k") == "Adt" and n.get("adt") == OPTION and n.get("variant") == "None"


def _logic(op, l, r):
    return {"k": "LogicalOp", "op": op, "ty": "bool", "sp": l.get("sp"), "l": l, "r": r}


def _not(e):
    return {"k": "Unary", "op": "Not", "ty": "bool", "sp": e.get("sp"), "e": e}


def rewrite_flag_match(m, tvar):
    """the replacement node for Match m, or None"""
    if any(a.get("guard") is not None for a in m["arms"]):
        return None
    sc = strip(m["scrutinee"])
    reads = sc["fields"] if sc.get("k") == "Tuple" else [sc]
    flags = [_flag_index(r, tvar) for r in reads]
    if not flags or any(f is None for f in flags) or len(set(flags)) != len(flags) or len(flags) > 3:
        return None
    arms = []
    for a in m["arms"]:
        pv = _pat_values(a["pat"], len(flags))
        tl = _plain_tail(a["body"])
        el = _vec_elems(tl) if tl is not None else None
        if el is None and isinstance(tl, dict) and tl.get("k") == "Tuple" and (tl.get("ty") or "").count("core::option::Option<") == len(tl["fields"]) >= 1:
            el = tl["fields"]        # a tuple of slots (destructured by a `let` and assembled into the vector afterwards)
        if pv is None or el is None:
            return None
        if not all(_is_some(x) or _is_none(x) for x in el):
            return None
        arms.append((pv, el, tl))
    n_slots = len(arms[0][1])
    if any(len(el) != n_slots for _, el, _ in arms):
        return None
    table = {}
    for asg in itertools.product((True, False), repeat=len(flags)):
        hit = next((el for pv, el, _ in arms if all(p == "any" or p == v for p, v in zip(pv, asg))), None)
        if hit is None:
            return None
        table[asg] = hit
    read_of = {f: r for f, r in zip(flags, reads)}
    new_slots = []
    for i in range(n_slots):
        on = [asg for asg, el in table.items() if _is_some(el[i])]
        payloads = {}
        for asg in on:
            payloads.setdefault(show(strip(table[asg][i])["fields"][0]["e"]), []).append(asg)
        none_node = next((copy.deepcopy(strip(el[i])) for el in table.values() if _is_none(el[i])), None)
        if not on:
            new_slots.append(copy.deepcopy(strip(next(iter(table.values()))[i])))
            continue
        some_node = copy.deepcopy(strip(table[on[0]][i]))
        if len(payloads) > 1:
            # the payload differs between arms: it becomes a chain of ifs over the flag values (each rule then reads every alternative)
            groups = list(payloads.values())
            chain = copy.deepcopy(strip(table[groups[-1][0]][i])["fields"][0]["e"])
            for grp in reversed(groups[:-1]):
                terms = []
                for asg in grp:
                    lits = [copy.deepcopy(reads[j]) if v else _not(copy.deepcopy(reads[j])) for j, v in enumerate(asg)]
                    t_ = lits[0]
                    for l_ in lits[1:]:
                        t_ = _logic("And", t_, l_)
                    terms.append(t_)
                cnd_ = terms[0]
                for t_ in terms[1:]:
                    cnd_ = _logic("Or", cnd_, t_)
                e_ = copy.deepcopy(strip(table[grp[0]][i])["fields"][0]["e"])
                chain = {"k": "If", "ty": e_.get("ty"), "sp": e_.get("sp"), "cond": cnd_, "then": e_, "else": chain, "from_flag_match": True}
            some_node["fields"][0]["e"] = chain
        if len(on) == len(table):
            new_slots.append(some_node)
            continue
        # the condition under which the slot is Some
        pos = flags.index(i) if i in flags else None
        if pos is not None and set(on) == {asg for asg in table if asg[pos]}:
            cond = copy.deepcopy(read_of[i])
        else:
            # does it depend on a subset of flags as a pure conjunction / disjunction ?
            cond = None
            for op in ("And", "Or"):
                for k in range(1, len(flags) + 1):
                    for sub in itertools.combinations(range(len(flags)), k):
                        want = {asg for asg in table if (all(asg[j] for j in sub) if op == "And" else any(asg[j] for j in sub))}
                        if want == set(on) and cond is None:
                            parts = [copy.deepcopy(reads[j]) for j in sub]
                            cond = parts[0]
                            for p_ in parts[1:]:
                                cond = _logic(op, cond, p_)
            if cond is None:
                terms = []
                for asg in on:
                    lits = [copy.deepcopy(reads[j]) if v else _not(copy.deepcopy(reads[j])) for j, v in enumerate(asg)]
                    t_ = lits[0]
                    for l_ in lits[1:]:
                        t_ = _logic("And", t_, l_)
                    terms.append(t_)
                cond = terms[0]
                for t_ in terms[1:]:
                    cond = _logic("Or", cond, t_)
        if none_node is None:
            return None
        new_slots.append({"k": "If", "ty": some_node.get("ty"), "sp": some_node.get("sp"), "cond": cond, "then": some_node, "else": none_node, "from_flag_match": True})
    out = copy.deepcopy(arms[0][2])
    tgt = _vec_elems(out)
    if tgt is None and out.get("k") == "Tuple":
        tgt = out["fields"]
        # positions of a tuple are not slot numbers: a tuple slot is "its own flag" when its condition is exactly one flag (checked by the
        # engine rule once the tuple's parts have been placed in the vector)
        for i in range(n_slots):
            if new_slots[i].get("k") == "If":
                on = {asg for asg, el in table.items() if _is_some(el[i])}
                for j in range(len(flags)):
                    if on == {asg for asg in table if asg[j]}:
                        new_slots[i]["cond"] = copy.deepcopy(reads[j])
    if tgt is None or len(tgt) != n_slots:
        return None
    for i in range(n_slots):
        tgt[i].clear()
        tgt[i].update(new_slots[i])
    out["from_flag_match"] = True
    return out


def normalise_flag_matches(facts):
    n = 0
    for b in facts.bodies:
        if not b.get("thir") or not is_backward_closure(b):
            continue
        ps = [p for p in b["thir"]["params"] if p.get("pat")]
        if len(ps) < 2 or ps[1]["pat"].get("k") != "Binding":
            continue
        tvar = ps[1]["pat"]["v"]
        for x in list(walk(b["thir"]["root"])):
            if x.get("k") == "Match" and not str(x.get("source", "")).startswith(("ForLoopDesugar", "TryDesugar")):
                try:
                    new = rewrite_flag_match(x, tvar)
                except (KeyError, IndexError, TypeError, AttributeError):
                    new = None
                if new is not None:
                    x.clear()
                    x.update(new)
                    n += 1
        # `let (left, right) = (if t[0] {..} else {None}, if t[1] {..} else {None});` reads as two lets
        for blk in list(walk(b["thir"]["root"])):
            if blk.get("k") != "Block":
                continue
            out_stmts = []
            for st in blk["stmts"]:
                init = strip(st.get("init")) if st["s"] == "let" and st.get("init") is not None else None
                pat = st.get("pat") if st["s"] == "let" else None
                if isinstance(init, dict) and init.get("k") == "Tuple" and init.get("from_flag_match") and isinstance(pat, dict) and pat.get("k") == "Leaf" \
                        and len(pat.get("subs") or []) == len(init["fields"]) and all(s_["pat"].get("k") == "Binding" and isinstance(s_.get("idx"), int) for s_ in pat["subs"]) \
                        and st.get("else") is None:
                    for s_ in sorted(pat["subs"], key=lambda q: q["idx"]):
                        ns = dict(st)
                        ns["pat"] = s_["pat"]
                        ns["init"] = init["fields"][s_["idx"]]
                        out_stmts.append(ns)
                else:
                    out_stmts.append(st)
            blk["stmts"] = out_stmts
    return n
