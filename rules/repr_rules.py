"""Representation rules: R1 FREEZE, R2 NO-UNSAFE, R3 NO-IN-PLACE-WRITE, R4 API-SURFACE,
R5 CLONE-PROVENANCE, R6 CHILD-BY-CLONE, R7 NO-DROP, R16 CTOR-FUNNEL, R17 EQ-FIELDS,
R20 OWNERSHIP-EDGES.  See DESIGN.md section 3."""

from . import facts as F
from .core import Ctx
from .facts import ARRAY, callee, resolved, strip, peel, walk, loc, field_chain, var_of
from .show import show

RC_CLONE = "<alloc::rc::Rc<T, A> as core::clone::Clone>::clone"
VEC_CLONE = "<alloc::vec::Vec<T, A> as core::clone::Clone>::clone"
ARRAY_CLONE = "<corgi::array::Array as core::clone::Clone>::clone"
PANIC_FNS = ("core::panicking::panic_fmt", "std::panicking::begin_panic", "core::panicking::panic",
             "core::panicking::panic_display", "core::panicking::panic_explicit",
             "core::panicking::assert_failed", "core::panicking::unreachable_display")


# ------------------------------------------------------------------ shared derivations

def array_adt(facts):
    return facts.adts.get(ARRAY)


def body_fields_read(facts, b, adt=ARRAY, nested=True):
    """Set of `adt` field names whose place is used (in any way) in body b (and its nested
    closures), read off the MIR place visitor (complete: includes pattern destructuring)."""
    out = set()
    for x in (facts.nested(b) if nested else [b]):
        mir = x.get("mir")
        if not mir:
            continue
        for p in mir["field_places"]:
            for e in p["proj"]:
                if isinstance(e, dict) and e.get("adt") == adt:
                    out.add(e["field"])
    return out


def accessor_bodies(facts):
    """The public read API through which a handle *shows* its content: methods of Array that
    hand out a reference into the array (`dimensions()`, `values()`) and the Index impls.
    (Equality is *checked against* this set by R17, so it must not define it.)"""
    out = []
    for b in facts.fns():
        if b.get("impl_self") != ARRAY:
            continue
        tr = b.get("impl_trait_def")
        if tr == "core::ops::index::Index":
            out.append(b)
        elif tr is None and b.get("reachable") and b.get("inputs") == ["&" + ARRAY]:
            o = b.get("output", "")
            if o.startswith("&") and not o.startswith("&mut"):
                out.append(b)
    return out


def shown_fields(facts):
    """Fields of Array whose content a handle shows (what C08/C16 talk about): the fields
    read by the accessor bodies.  Pinned tree: {dimensions, values}."""
    s = set()
    for b in accessor_bodies(facts):
        s |= body_fields_read(facts, b)
    return s


def self_var(facts, b):
    ps = facts.params(b)
    if ps and ps[0].get("self") and ps[0]["pat"] and ps[0]["pat"].get("k") == "Binding":
        return ps[0]["pat"]["v"]
    return None


def param_vars(facts, b):
    out = []
    for p in facts.params(b):
        if p.get("pat"):
            out.extend(F.pat_bindings(p["pat"]))
    return out


def let_env(root):
    """var -> initializer for every simple `let v = init` in the body (single assignment
    is checked by `assigned_vars`)."""
    env = {}
    for n in walk(root):
        if n.get("k") == "Block":
            for s in n["stmts"]:
                if s["s"] == "let" and s["pat"].get("k") == "Binding" and s.get("init") is not None:
                    env[s["pat"]["v"]] = s["init"]
    return env


def assigned_vars(root):
    out = set()
    for n in walk(root):
        if n.get("k") in ("Assign", "AssignOp"):
            v = var_of(n["l"])
            if v:
                out.add(v)
        if n.get("k") == "Borrow" and n.get("bk") == "mut":
            v = var_of(n["e"])
            if v:
                out.add(v)
    return out


def diverges(n):
    n = strip(n)
    if not isinstance(n, dict):
        return False
    k = n.get("k")
    if k in ("Return", "Break", "Continue"):
        return True
    if k == "Call":
        return n.get("ty") == "!" or callee(n) in PANIC_FNS
    if k == "Block":
        for s in n["stmts"]:
            if s["s"] == "expr" and diverges(s["e"]):
                return True
        return n.get("e") is not None and diverges(n["e"])
    return False


# ------------------------------------------------------------------ R1

def r1_freeze(facts):
    c = Ctx("R1", facts, "shown storage has no interior mutability")
    a = array_adt(facts)
    if not a:
        c.floor("Array ADT", 0, 1)
        return c
    shown = shown_fields(facts)
    c.floor("shown fields of Array (read by dimensions()/values()/Index/eq)", len(shown), 2)
    c.floor("accessor bodies", len(accessor_bodies(facts)), 4)
    fields = facts.adt_fields(ARRAY)
    c.count("fields of Array", len(fields))
    for f in fields:
        w = f["walk_full"]
        where = "%s:%d" % (F.rel(a["file"]), f["sp"][0])
        if f["name"] in shown:
            problems = []
            if w["cells"]:
                problems.append("interior mutability: %s" % ", ".join(w["cells"]))
            if w["raw_ptrs"]:
                problems.append("raw pointer: %s" % ", ".join(w["raw_ptrs"]))
            if w["opaque"]:
                problems.append("opaque component (cannot be walked): %s" % ", ".join(w["opaque"]))
            if w["mut_refs"]:
                problems.append("mutable reference: %s" % ", ".join(w["mut_refs"]))
            if problems:
                c.bad("field:%s" % f["name"], where,
                      "storage a handle shows must be Freeze all the way down; " + "; ".join(problems),
                      {"type": f["ty"], "visited": w["visited"]})
            else:
                c.ok("field:%s" % f["name"], where,
                     "type %s walked through %d component types: no UnsafeCell, raw pointer, &mut or opaque part"
                     % (f["ty"], len(w["visited"])), {"visited": w["visited"]})
        else:
            ws = f["walk_stop_local"]
            if ARRAY in ws["local_adts"] and any(s.startswith("alloc::rc::Rc<alloc::vec::Vec<") for s in ws["shared_ptrs"][:1]) \
                    and not ws["cells"]:
                # the edge list (children): immutable through the shared pointer; elements are handles
                others = [x for x in ws["local_adts"] if x != ARRAY]
                if others or ws["raw_ptrs"] or ws["opaque"] or ws["mut_refs"]:
                    c.unk("field:%s" % f["name"], where,
                          "edge list contains components the walk cannot classify: %s"
                          % (others + ws["raw_ptrs"] + ws["opaque"] + ws["mut_refs"]))
                else:
                    c.ok("field:%s" % f["name"], where,
                         "edge list %s: no interior mutability above the element type Array "
                         "(graph edges cannot change through a shared pointer)" % f["ty"],
                         {"visited": ws["visited"]})
            else:
                c.ok("field:%s" % f["name"], where,
                     "handle/engine state (not shown content): %s%s" % (
                         f["ty"] if len(f["ty"]) < 90 else f["ty"][:87] + "...",
                         "; has interior mutability" if w["cells"] else ""), nontrivial=False)
    return c


# ------------------------------------------------------------------ R2

def r2_no_unsafe(facts):
    c = Ctx("R2", facts, "no user-written unsafe")
    n_blocks = 0
    n_expansion_unsafe = 0
    for b in facts.bodies:
        root = facts.root(b)
        explicit = []
        for n in walk(root):
            if n.get("k") == "Block":
                n_blocks += 1
                if n.get("safety") == "explicit_unsafe":
                    if n.get("x") and not n.get("mac_local"):
                        n_expansion_unsafe += 1
                    else:
                        explicit.append(n)
        if explicit:
            for n in explicit:
                c.bad("body:%s" % b["def"], loc(b, n), "user-written `unsafe` block in %s" % b["def"])
        else:
            c.ok("body:%s" % b["def"], loc(b, root) if root else "-", "no user-written unsafe block", nontrivial=False)
        if b.get("unsafe_fn"):
            c.bad("unsafe-fn:%s" % b["def"], loc(b, root), "`unsafe fn` %s" % b["def"])
    n_derive = 0
    for it in facts.items:
        where = "%s:%d" % (F.rel(it["file"]), it["sp"][0])
        if it.get("kind") == "impl" and it.get("unsafe") and it.get("exp") and not it.get("exp_local") \
                and (it.get("trait_def") or it.get("trait") or "").endswith("TrivialClone"):
            # emitted by the compiler's built-in #[derive(Clone, Copy)] (a marker, no user code): not user-written unsafe
            n_derive += 1
        elif it.get("kind") == "impl" and it.get("unsafe"):
            c.bad("unsafe-impl:%s" % it["def"], where, "`unsafe impl` %s for %s" % (it.get("trait"), it.get("self")))
        elif it.get("kind") == "extern_block":
            c.bad("extern:%s" % it["def"], where, "extern block (foreign functions are unsafe to call)")
        elif it.get("kind") == "static" and it.get("mutable"):
            c.bad("static-mut:%s" % it["def"], where, "`static mut` item")
        elif it.get("kind") == "union":
            c.bad("union:%s" % it["def"], where, "union type (field reads are unsafe)")
    c.floor("bodies scanned", len(facts.bodies), 100)
    c.count("THIR blocks scanned", n_blocks)
    c.count("unsafe blocks from foreign macro expansions (not judged, e.g. vec!)", n_expansion_unsafe)
    c.count("items scanned", len(facts.items))
    c.count("marker impls emitted by built-in derives (TrivialClone)", n_derive)
    return c


# ------------------------------------------------------------------ R3

MUTATING = ("write:Store", "write:Borrow", "write:RawBorrow", "write:Call", "write:SetDiscriminant",
            "write:AsmOutput", "write:Yield", "write:Projection", "write:Retag")


def r3_no_in_place_write(facts):
    c = Ctx("R3", facts, "no body writes or mutably borrows shown storage of an existing array")
    shown = shown_fields(facts)
    n_places = 0
    n_bodies = 0
    moves = []
    for b in facts.bodies:
        mir = b.get("mir")
        if not mir:
            continue
        n_bodies += 1
        bad = []
        for p in mir["field_places"]:
            hit = None
            for i, e in enumerate(p["proj"]):
                if isinstance(e, dict) and e.get("adt") == ARRAY and e["field"] in shown:
                    hit = (i, e["field"])
                    break
            if not hit:
                continue
            n_places += 1
            ctx = p["ctx"]
            if ctx in MUTATING:
                bad.append((p, hit[1]))
            elif ctx == "read:Move":
                moves.append("%s: move out of .%s (consumes an owned array)" % (b["def"], hit[1]))
            elif ctx.startswith("write:") and ctx != "write:Drop":
                bad.append((p, hit[1]))
        if bad:
            for p, fld in bad:
                c.bad("body:%s#%s" % (b["def"], fld), "%s:%d" % (F.rel(b["file"]), p["sp"][0]),
                      "%s of a place through Array.%s in %s (in-place mutation path)" % (p["ctx"], fld, b["def"]),
                      {"projection": p["proj"], "local_ty": p["local_ty"]})
        else:
            c.ok("body:%s" % b["def"], "%s:%d" % (F.rel(b["file"]), b["sp"][0]),
                 "no store to / mutable borrow of Array.{%s}" % ",".join(sorted(shown)), nontrivial=False)
    c.floor("MIR bodies scanned", n_bodies, 100)
    c.floor("place uses through shown fields examined", n_places, 60)
    c.count("moves out of consumed arrays (allowed)", len(moves))
    c.note("moves: " + "; ".join(sorted(set(moves))))
    return c


# ------------------------------------------------------------------ R4

def r4_api_surface(facts):
    c = Ctx("R4", facts, "public API hands out no mutable path into storage")
    fl = facts.float
    forbidden = ["&mut [%s]" % fl, "&mut alloc::vec::Vec<%s>" % fl, "&mut [usize]", "&mut alloc::vec::Vec<usize>",
                 "&mut alloc::rc::Rc<alloc::vec::Vec<%s>>" % fl, "*mut ", "*const ",
                 "core::cell::RefMut<'_, alloc::vec::Vec<%s>>" % fl, "core::cell::RefMut<'_, [%s]>" % fl,
                 "&mut alloc::rc::Rc<", "core::cell::UnsafeCell<"]
    n = 0
    for b in facts.fns():
        if not b.get("reachable"):
            continue
        n += 1
        out = b.get("output", "")
        where = "%s:%d" % (F.rel(b["file"]), b["sp"][0])
        hits = [t for t in forbidden if t in out]
        if hits:
            c.bad("fn:%s" % b["def"], where, "public function returns %s (contains %s): mutable path into storage" % (out, hits))
            continue
        if b.get("impl_self") == ARRAY and b.get("inputs") and b["inputs"][0] == "&mut " + ARRAY \
                and b.get("impl_trait_def") is None:
            c.bad("fn:%s" % b["def"], where, "public method of Array takes `&mut self`")
            continue
        c.ok("fn:%s" % b["def"], where, "returns %s" % (out if len(out) < 80 else out[:77] + "..."), nontrivial=("mut" in out))
    a = array_adt(facts)
    for f in facts.adt_fields(ARRAY):
        where = "%s:%d" % (F.rel(a["file"]), f["sp"][0])
        if f["is_pub"] or not f["vis"].startswith("Restricted"):
            c.bad("field-vis:%s" % f["name"], where, "field Array.%s is public" % f["name"])
        else:
            c.ok("field-vis:%s" % f["name"], where, "private to its module", nontrivial=False)
    c.floor("reachable public functions", n, 40)
    return c


# ------------------------------------------------------------------ R7

def r7_no_drop(facts):
    c = Ctx("R7", facts, "no crate type has a destructor")
    for d, a in facts.adts.items():
        where = "%s:%d" % (F.rel(a["file"]), a["sp"][0])
        c.check(not a["has_drop"], "adt:%s" % d, where, "no Drop impl: dropping a handle only decrements reference counts",
                "%s implements Drop: dropping a handle can have side effects" % d)
    for it in facts.items:
        if it.get("kind") == "impl" and it.get("trait_def") == "core::ops::drop::Drop":
            c.bad("impl-drop:%s" % it.get("self"), "%s:%d" % (F.rel(it["file"]), it["sp"][0]), "Drop impl for %s" % it.get("self"))
    c.floor("crate ADTs", len(facts.adts), 5)
    return c


# ------------------------------------------------------------------ R5

def classify_field(f):
    """Sharing class of an Array field, derived from its type."""
    t = f["tree"]
    if isinstance(t, dict) and t.get("adt") == "alloc::rc::Rc":
        return "shared-slot" if f["walk_full"]["cells"] and not _cells_only_below_array(f) else "shared-frozen"
    if isinstance(t, dict) and t.get("adt") == "core::option::Option" and t["args"] and isinstance(t["args"][0], dict) \
            and t["args"][0].get("adt") == "alloc::rc::Rc":
        return "shared-opt"
    if isinstance(t, dict) and t.get("adt") == "core::cell::Cell" and t["args"] and t["args"][0] in ("bool", "usize", "u8", "u32", "u64", "i32", "i64"):
        return "flag"
    if isinstance(t, dict) and t.get("adt") == "alloc::vec::Vec" and t["args"] and isinstance(t["args"][0], str):
        return "data"
    return None


def _cells_only_below_array(f):
    # Rc<Vec<Array>>: the only cells are inside the element handles
    return not f["walk_stop_local"]["cells"]


def _self_field(n, selfv):
    """If n (peeled) is `self.F` return F."""
    root, chain = field_chain(n)
    if isinstance(root, dict) and root.get("k") in ("VarRef", "UpvarRef") and root["v"] == selfv and len(chain) == 1:
        return chain[0]
    return None


def r5_clone_provenance(facts):
    c = Ctx("R5", facts, "Clone shares or copies every field the right way")
    b = F.clone_body(facts)
    if not b:
        c.floor("<Array as Clone>::clone", 0, 1)
        return c
    root = facts.root(b)
    selfv = self_var(facts, b)
    adts = [n for n in walk(root) if n.get("k") == "Adt" and n["adt"] == ARRAY]
    c.floor("Array literal in clone", len(adts), 1)
    if len(adts) != 1:
        c.bad("clone:literal-count", loc(b, root), "expected exactly one Array literal in clone, found %d" % len(adts))
        return c
    lit = adts[0]
    # the literal must be the value returned
    tail = strip(root)
    while isinstance(tail, dict) and tail.get("k") == "Block":
        tail = strip(tail.get("e"))
    if tail is not lit:
        c.unk("clone:returned", loc(b, root), "the Array literal is not the tail expression of clone")
    if lit.get("base") is not None or lit.get("base_default"):
        c.unk("clone:base", loc(b, lit), "struct update syntax in clone: provenance of the remaining fields not analysed")
    env = let_env(root)
    reassigned = assigned_vars(root)
    inits = {f["name"]: f["e"] for f in lit["fields"]}
    fields = facts.adt_fields(ARRAY)
    c.floor("fields of Array classified", len(fields), 9)
    for f in fields:
        name = f["name"]
        cls = classify_field(f)
        e = inits.get(name)
        inst = "clone:%s" % name
        if e is None:
            c.bad(inst, loc(b, lit), "field %s has no initialiser in clone" % name)
            continue
        where = loc(b, e)
        if cls is None:
            c.unk(inst, where, "field %s: type %s has no sharing class (must be decided: shared slot, flag or data)" % (name, f["ty"]))
            continue
        e0 = e
        # resolve a local bound once
        seen = 0
        while var_of(e0) and var_of(e0) in env and var_of(e0) not in reassigned and seen < 4:
            e0 = env[var_of(e0)]
            seen += 1
        e0 = strip(e0)
        if cls in ("shared-slot", "shared-frozen"):
            ok = e0.get("k") == "Call" and resolved(e0) == RC_CLONE and _self_field(e0["args"][0], selfv) == name
            if ok:
                c.ok(inst, where, "%s: Rc::clone(&self.%s) — clones share this slot" % (cls, name))
            elif cls == "shared-frozen" and _is_deep_copy_of(e0, selfv, name):
                c.ok(inst, where, "frozen payload deep-copied from self.%s (observationally equal)" % name)
            else:
                c.bad(inst, where, "%s must be initialised with Rc::clone(&self.%s); found %s — clones would not share the slot"
                      % (name, name, show(e0)[:160]))
        elif cls == "shared-opt":
            ok, why = _opt_rc_from(facts, b, e0, selfv, name, env, reassigned)
            if ok:
                c.ok(inst, where, "derived from self.%s through Option/Rc clone adaptors only" % name)
            elif why.startswith("unexpected expression") and any(_self_field(x, selfv) == name for x in walk(e0) if x.get("k") in ("Field",)):
                c.unk(inst, where, "%s is computed from self.%s in a form this rule does not read: %s" % (name, name, why))
            else:
                c.bad(inst, where, "%s must be a clone of self.%s: %s" % (name, name, why))
        elif cls == "flag":
            ok = (e0.get("k") == "Call" and callee(e0) == "core::cell::Cell::<T>::new" and len(e0["args"]) == 1)
            if ok:
                inner = strip(e0["args"][0])
                # `let is_tracked = self.is_tracked.get(); .. Cell::new(is_tracked)`
                lets_ = {st["pat"]["v"]: st["init"] for x_ in walk(root) if x_.get("k") == "Block" for st in x_["stmts"]
                         if st["s"] == "let" and st["pat"].get("k") == "Binding" and st.get("init") is not None}
                hops_ = 0
                while isinstance(inner, dict) and inner.get("k") == "VarRef" and inner["v"] in lets_ and hops_ < 3:
                    inner = strip(lets_[inner["v"]])
                    hops_ += 1
                ok = inner.get("k") == "Call" and callee(inner) == "core::cell::Cell::<T>::get" and _self_field(inner["args"][0], selfv) == name
            elif e0.get("k") == "Call" and callee(e0) == "core::clone::Clone::clone" and (resolved(e0) or "").startswith("<core::cell::Cell<T> as") \
                    and _self_field(e0["args"][0], selfv) == name:
                ok = True       # Cell<T: Copy>::clone copies the value into a fresh cell (what #[derive(Clone)] emits)
            if ok:
                c.ok(inst, where, "per-handle flag copied by value: Cell::new(self.%s.get()); the type is not behind Rc so it cannot be shared" % name)
            else:
                c.bad(inst, where, "flag %s must be Cell::new(self.%s.get()); found %s" % (name, name, show(e0)[:160]))
        elif cls == "data":
            ok = e0.get("k") == "Call" and resolved(e0) in (VEC_CLONE, "alloc::slice::<impl [T]>::to_vec", "alloc::borrow::ToOwned::to_owned", "<[T] as alloc::borrow::ToOwned>::to_owned") \
                and _self_field(e0["args"][0], selfv) == name
            if ok:
                c.ok(inst, where, "per-handle data copied from self.%s" % name)
            else:
                c.bad(inst, where, "%s must be a copy of self.%s; found %s" % (name, name, show(e0)[:160]))
    extra = set(inits) - {f["name"] for f in fields}
    for x in extra:
        c.unk("clone:%s" % x, loc(b, lit), "initialiser for unknown field %s" % x)
    return c


def _is_deep_copy_of(e, selfv, name):
    # Rc::new(<T as Clone>::clone(&*self.F))
    if e.get("k") == "Call" and callee(e) == "alloc::rc::Rc::<T>::new":
        inner = strip(e["args"][0])
        if inner.get("k") == "Call" and callee(inner) == "core::clone::Clone::clone":
            return _self_field(inner["args"][0], selfv) == name
    return False


OPT_ADAPTORS = ("core::option::Option::<T>::as_ref", "core::option::Option::<T>::map", "core::option::Option::<&T>::cloned",
                "core::option::Option::<T>::as_deref")


def _opt_rc_from(facts, b, e, selfv, name, env, reassigned, depth=0):
    e = strip(e)
    if depth > 8:
        return False, "too deep"
    if _self_field(e, selfv) == name and e.get("k") in ("Field", "Borrow", "Deref"):
        return True, ""
    v = var_of(e)
    if v and e.get("k") in ("VarRef",) and v in env and v not in reassigned:
        return _opt_rc_from(facts, b, env[v], selfv, name, env, reassigned, depth + 1)
    if e.get("k") == "Call":
        cal = callee(e)
        if cal == "core::clone::Clone::clone":
            return _opt_rc_from(facts, b, e["args"][0], selfv, name, env, reassigned, depth + 1)
        if cal in ("core::option::Option::<T>::filter", "core::option::Option::<T>::take_if", "core::option::Option::<T>::and", "core::option::Option::<T>::xor"):
            return False, "`%s` drops the value for some handles (a clone would lose what the original has)" % cal.rsplit("::", 1)[-1]
        if cal in OPT_ADAPTORS:
            ok, why = _opt_rc_from(facts, b, e["args"][0], selfv, name, env, reassigned, depth + 1)
            if not ok:
                return ok, why
            if cal.endswith("::map"):
                clo = strip(e["args"][1])
                if clo.get("k") == "FnItem":
                    r = clo["fn"].get("resolved") or clo["fn"]["path"]
                    return (r == RC_CLONE, "map with %s" % r)
                if clo.get("k") != "Closure":
                    return False, "map with a non-closure"
                cb = facts.body(clo["closure"])
                croot = strip(facts.root(cb))
                while croot.get("k") == "Block" and not croot["stmts"]:
                    croot = strip(croot["e"])
                ps = param_vars(facts, cb)
                if croot.get("k") == "Call" and resolved(croot) == RC_CLONE and ps and var_of(croot["args"][0]) == ps[0][0]:
                    return True, ""
                return False, "map closure is not Rc::clone of its argument: %s" % show(croot)[:120]
            return True, ""
    if e.get("k") == "Match" and len(e.get("arms") or []) == 2:
        # match &self.F { Some(x) => Some(Rc::clone(x)), None => None }
        ok, why = _opt_rc_from(facts, b, e["scrutinee"], selfv, name, env, reassigned, depth + 1)
        if ok:
            good = 0
            for a in e["arms"]:
                p = a["pat"]
                while isinstance(p, dict) and p.get("k") in ("Deref", "DerefPattern"):
                    p = p["sub"]
                body = strip(a["body"])
                while isinstance(body, dict) and body.get("k") == "Block" and not body["stmts"] and body.get("e") is not None:
                    body = strip(body["e"])
                if p.get("k") == "Variant" and p.get("variant") == "Some" and body.get("k") == "Adt" and body.get("variant") == "Some":
                    binds = [v for v, _, _, _ in F.pat_bindings(p)]
                    inner = strip(body["fields"][0]["e"])
                    if inner.get("k") == "Call" and (resolved(inner) == RC_CLONE or callee(inner) == "core::clone::Clone::clone") and binds and var_of(inner["args"][0]) == binds[0]:
                        good += 1
                elif p.get("k") == "Variant" and p.get("variant") == "None" and body.get("k") == "Adt" and body.get("variant") == "None":
                    good += 1
            if good == 2:
                return True, ""
    return False, "unexpected expression %s" % show(e)[:120]


# ------------------------------------------------------------------ R6

def r6_child_by_clone(facts):
    c = Ctx("R6", facts, "graph children are clones of operand handles")
    sites = 0
    for b in facts.bodies:
        root = facts.root(b)
        for n in walk(root):
            if n.get("k") == "Call" and resolved(n) == "corgi::array::Array::with_children":
                sites += 1
                arg = n["args"][1]
                ok, why, elems = _children_by_clone(facts, b, arg)
                inst = "site:%s" % b["def"]
                if ok:
                    c.ok(inst, loc(b, n), "children recorded by clone: %s" % why)
                elif ok is None:
                    c.unk(inst, loc(b, n), "children vector built by an unrecognised construct: %s" % why)
                else:
                    c.bad(inst, loc(b, n), "children must be clones of the operands: %s" % why)
    c.floor("with_children call sites", sites, 3)
    return c


def vec_literal_elems(n):
    """Elements of a `vec![a, b, c]` expansion (None if n is not one)."""
    n = strip(n)
    if n.get("k") == "Call" and callee(n) in ("alloc::boxed::box_assume_init_into_vec_unsafe",
                                               "alloc::slice::<impl [T]>::into_vec"):
        for x in walk(n):
            if x.get("k") == "Array":
                return x["fields"]
    return None


def _children_by_clone(facts, b, arg):
    arg = strip(arg)
    elems = vec_literal_elems(arg)
    if elems is not None:
        bad = []
        unknown = []
        env_ = {}
        for x in walk(facts.root(b)):
            if x.get("k") == "Block":
                for st in x["stmts"]:
                    if st["s"] == "let" and st["pat"].get("k") == "Binding" and st.get("init") is not None:
                        env_[st["pat"]["v"]] = st["init"]
        CTOR_ = "<%s as core::convert::From<" % ARRAY

        def clone_or_fresh(e, depth=0):
            """True: a clone of an existing handle or a freshly constructed constant; False: something else; None: not read"""
            e = strip(e)
            if not isinstance(e, dict) or depth > 6:
                return None
            if e.get("k") == "Call" and resolved(e) == ARRAY_CLONE:
                return True
            if e.get("k") == "Call" and (resolved(e) or "").startswith(CTOR_):
                # a new array built here from constants: a fresh leaf, not an operand whose identity matters; built from an
                # existing array's fields it is a rebuilt copy of an operand (fresh slots: the operand never sees its gradient)
                uses_array = any((x.get("k") == "Field" and x.get("adt") == ARRAY) or
                                 (x.get("k") in ("VarRef", "UpvarRef") and ARRAY in (x.get("ty") or "")) for x in walk(e))
                return False if uses_array else True
            if e.get("k") == "VarRef" and e["v"] in env_:
                return clone_or_fresh(env_[e["v"]], depth + 1)
            if e.get("k") == "Call":
                cn = callee(e) or ""
                if cn in ("core::option::Option::<&T>::cloned",):
                    return True
                if cn in ("core::option::Option::<T>::unwrap_or_else", "core::option::Option::<T>::unwrap_or") and len(e["args"]) == 2:
                    a = clone_or_fresh(e["args"][0], depth + 1)
                    d = strip(e["args"][1])
                    if d.get("k") == "Closure":
                        cb = facts.body(d["closure"])
                        croot = strip(facts.root(cb)) if cb is not None else None
                        while isinstance(croot, dict) and croot.get("k") == "Block" and not croot["stmts"] and croot.get("e") is not None:
                            croot = strip(croot["e"])
                        dflt = clone_or_fresh(croot, depth + 1) if croot is not None else None
                    else:
                        dflt = clone_or_fresh(d, depth + 1)
                    if a is True and dflt is True:
                        return True
                    return None
                if cn in ("core::option::Option::<T>::unwrap", "core::option::Option::<T>::expect") and e["args"]:
                    return clone_or_fresh(e["args"][0], depth + 1)
                return None
            if e.get("k") in ("VarRef", "UpvarRef", "Field", "Deref", "Index"):
                return False        # the handle itself is moved in (or copied out of a place): not a clone
            return None
        for e in elems:
            v_ = clone_or_fresh(e)
            if v_ is None and strip(e).get("k") == "Call" and (resolved(strip(e)) or "") in ("corgi::array::Array::tracked", "corgi::array::Array::untracked") and strip(e)["args"]:
                v_ = clone_or_fresh(strip(e)["args"][0])
            if v_ is False:
                bad.append(show(strip(e))[:100])
            elif v_ is None:
                unknown.append(show(strip(e))[:100])
        if bad:
            return False, "element(s) not produced by <Array as Clone>::clone: %s" % "; ".join(bad), elems
        if unknown:
            return None, "element(s) built by an unrecognised construct: %s" % "; ".join(unknown), elems
        return True, "vec![%s]" % ", ".join(show(e)[:40] for e in elems), elems
    if arg.get("k") == "Call" and callee(arg) == "core::iter::traits::iterator::Iterator::collect":
        src = strip(arg["args"][0])
        if src.get("k") == "Call" and callee(src) in ("core::iter::traits::iterator::Iterator::cloned",):
            # element type of the inner iterator must be &Array / &&Array
            return True, "iterator.cloned().collect()", None
        if src.get("k") == "Call" and callee(src) == "core::iter::traits::iterator::Iterator::map":
            clo = strip(src["args"][1])
            if clo.get("k") == "Closure":
                cb = facts.body(clo["closure"])
                croot = strip(facts.root(cb))
                while croot.get("k") == "Block" and not croot["stmts"]:
                    croot = strip(croot["e"])
                if croot.get("k") == "Call" and resolved(croot) == ARRAY_CLONE:
                    return True, "iterator.map(|v| v.clone()).collect()", None
                return False, "map closure does not clone its element: %s" % show(croot)[:120], None
    return None, show(arg)[:160], None


# ------------------------------------------------------------------ R16

FUNNEL_SUFFIX = "alloc::rc::Rc<alloc::vec::Vec<%s>>)>>::from"


def funnel_body(facts):
    for b in facts.fns():
        if b.get("impl_self") == ARRAY and b.get("impl_trait_def") == "core::convert::From" and b.get("name") == "from":
            if b["inputs"] == ["(alloc::vec::Vec<usize>, alloc::rc::Rc<alloc::vec::Vec<%s>>)" % facts.float]:
                return b
    return None


def _closure_single_expr(facts, clo):
    cb = facts.body(clo["closure"])
    if cb is None:
        return None, []
    cr = strip(facts.root(cb))
    while isinstance(cr, dict) and cr.get("k") == "Block" and not cr["stmts"] and cr.get("e") is not None:
        cr = strip(cr["e"])
    return cr, [v for v, _, _, _ in param_vars(facts, cb)]


def collect_asserted(facts, stmts, roles, depth=0):
    """Facts asserted (the failing branch diverges) by the straight-line statement list
    `stmts`, about the values playing the roles 'dims' (the dimension vector) and 'vals'
    (the value buffer).  -> ({'positive': node, 'count': node}, number of assertions seen).
    Looks one level into crate-local helper functions called as statements."""
    env = {}
    got = {}
    count = [0]

    def resolve(e):
        e = strip(e)
        n = 0
        while isinstance(e, dict) and e.get("k") == "VarRef" and e["v"] in env and e["v"] not in roles and n < 4:
            e = strip(env[e["v"]])
            n += 1
        return e

    def role(e):
        e = peel(resolve(e))
        if not isinstance(e, dict):
            return None
        if e.get("k") in ("VarRef", "UpvarRef"):
            return roles.get(e["v"])
        if e.get("k") == "Call":
            cal = callee(e)
            if cal in ("alloc::vec::Vec::<T, A>::len", "core::slice::<impl [T]>::len") and role(e["args"][0]) == "vals":
                return "len"
            if cal in ("core::slice::<impl [T]>::iter", "core::iter::traits::collect::IntoIterator::into_iter",
                       "core::iter::traits::iterator::Iterator::copied", "core::iter::traits::iterator::Iterator::cloned") \
                    and role(e["args"][0]) in ("dims", "dims-iter"):
                return "dims-iter"
            if cal == "core::iter::traits::iterator::Iterator::product" and role(e["args"][0]) == "dims-iter":
                return "prod"
            if cal == "core::iter::traits::iterator::Iterator::fold" and role(e["args"][0]) == "dims-iter" and F.lit_value(e["args"][1]) == 1:
                clo = strip(e["args"][2])
                if clo.get("k") == "Closure":
                    cr, pv = _closure_single_expr(facts, clo)
                    if isinstance(cr, dict) and (cr.get("k") == "Binary" and cr["op"] == "Mul" or callee(cr) == "core::ops::arith::Mul::mul"):
                        return "prod"
        return None

    def elementwise(e, want):
        """closure literal |d| d <op> k : returns True if it states d >= 1 (want='pos') or d == 0 (want='zero')"""
        e = strip(e)
        if e.get("k") != "Closure":
            return False
        cr, pv = _closure_single_expr(facts, e)
        if not isinstance(cr, dict) or cr.get("k") != "Binary" or not pv:
            return False
        l, r = cr["l"], cr["r"]
        op = cr["op"]
        if var_of(r) == pv[0] and var_of(l) != pv[0]:
            l, r = r, l
            op = {"Ge": "Le", "Gt": "Lt", "Le": "Ge", "Lt": "Gt"}.get(op, op)
        if var_of(l) != pv[0]:
            return False
        k = F.lit_value(r)
        if want == "pos":
            return (op, k) in (("Ge", 1), ("Gt", 0), ("Ne", 0))
        return (op, k) in (("Eq", 0), ("Lt", 1), ("Le", 0))

    def learn(cond, truth, node):
        """cond evaluates to `truth` on the path that continues"""
        cond = resolve(cond)
        if not isinstance(cond, dict):
            return
        k = cond.get("k")
        if k == "Unary" and cond["op"] == "Not":
            return learn(cond["e"], not truth, node)
        if k == "Call" and callee(cond) == "core::ops::bit::Not::not":
            return learn(cond["args"][0], not truth, node)
        if k == "LogicalOp":
            if cond["op"] == "And" and truth:
                learn(cond["l"], True, node)
                learn(cond["r"], True, node)
            elif cond["op"] == "Or" and not truth:
                learn(cond["l"], False, node)
                learn(cond["r"], False, node)
            return
        if k == "Call":
            cal = callee(cond)
            if cal == "core::iter::traits::iterator::Iterator::all" and truth and role(cond["args"][0]) == "dims-iter" \
                    and elementwise(cond["args"][1], "pos"):
                got.setdefault("positive", node)
            if cal == "core::iter::traits::iterator::Iterator::any" and not truth and role(cond["args"][0]) == "dims-iter" \
                    and elementwise(cond["args"][1], "zero"):
                got.setdefault("positive", node)
            if cal == "core::slice::<impl [T]>::contains" and not truth and role(cond["args"][0]) == "dims" \
                    and F.lit_value(peel(cond["args"][1])) == 0:
                got.setdefault("positive", node)
            if cal in ("core::cmp::PartialEq::eq", "core::cmp::PartialEq::ne") and (truth == cal.endswith("::eq")):
                rs = {role(cond["args"][0]), role(cond["args"][1])}
                if rs == {"prod", "len"}:
                    got.setdefault("count", node)
        if k == "Binary" and ((cond["op"] == "Eq" and truth) or (cond["op"] == "Ne" and not truth)):
            rs = {role(cond["l"]), role(cond["r"])}
            if rs == {"prod", "len"}:
                got.setdefault("count", node)

    for s in stmts:
        if s["s"] == "let":
            if s["pat"].get("k") == "Binding" and s.get("init") is not None:
                env[s["pat"]["v"]] = s["init"]
            init = s.get("init")
            e = strip(init) if init is not None else None
        else:
            e = strip(s["e"])
        if not isinstance(e, dict):
            continue
        if s["s"] == "expr" and e.get("k") == "If" and diverges(e["then"]) and e.get("else") is None:
            count[0] += 1
            learn(e["cond"], False, e)
            continue
        if e.get("k") == "Match" and e.get("mac") in ("assert_eq", "assert_ne") and e.get("x"):
            count[0] += 1
            tup = strip(e["scrutinee"])
            if tup.get("k") == "Tuple" and len(tup["fields"]) == 2 and e.get("mac") == "assert_eq":
                rs = {role(tup["fields"][0]), role(tup["fields"][1])}
                if rs == {"prod", "len"}:
                    got.setdefault("count", e)
            continue
        # a crate-local helper called for its assertions
        if e.get("k") == "Call" and depth < 1:
            cal = e.get("callee") or {}
            if cal.get("resolved_local"):
                hb = facts.body(cal.get("resolved"))
                if hb is not None and hb["kind"] in ("Fn", "AssocFn"):
                    hroot = strip(facts.root(hb))
                    ps = [p for p in facts.params(hb) if p.get("pat")]
                    sub_roles = {}
                    for p, a in zip(ps, e["args"]):
                        if p["pat"].get("k") == "Binding":
                            r = role(a)
                            if r in ("dims", "vals", "len", "prod"):
                                sub_roles[p["pat"]["v"]] = r
                    if sub_roles and isinstance(hroot, dict) and hroot.get("k") == "Block":
                        hstmts = list(hroot["stmts"])
                        if hroot.get("e") is not None:
                            hstmts.append({"s": "expr", "e": hroot["e"]})
                        # 'len'/'prod' roles arrive as plain values
                        sub, n = _collect_with_value_roles(facts, hstmts, sub_roles, depth + 1)
                        count[0] += n
                        for k2, v2 in sub.items():
                            got.setdefault(k2, e)
    return got, count[0]


def _collect_with_value_roles(facts, stmts, roles, depth):
    # collect_asserted treats roles of variables; value roles ('len', 'prod') are handled by
    # letting role() return them directly for the variable
    return collect_asserted(facts, stmts, roles, depth)


def _private_builder(facts, b, lits):
    """b is a private inherent function whose one Array literal stores two of its parameters, unchanged, as `dimensions` and `values`
    -> (index of the dimensions parameter, index of the values parameter), else None"""
    if b["kind"] not in ("Fn", "AssocFn") or b.get("reachable") or b.get("impl_trait_def") is not None or len(lits) != 1:
        return None
    lit = lits[0]
    if lit.get("base") is not None:
        return None
    ps = [p for p in facts.params(b) if p.get("pat")]
    pidx = {p["pat"]["v"]: i for i, p in enumerate(ps) if p["pat"].get("k") == "Binding"}
    inits = {f["name"]: strip(f["e"]) for f in lit["fields"]}
    d_, v_ = inits.get("dimensions"), inits.get("values")
    if not (isinstance(d_, dict) and d_.get("k") == "VarRef" and d_["v"] in pidx and isinstance(v_, dict) and v_.get("k") == "VarRef" and v_["v"] in pidx):
        return None
    if assigned_vars(facts.root(b)) & {d_["v"], v_["v"]}:
        return None
    # the literal is the function's value
    root = strip(facts.root(b))
    tl = strip(root.get("e")) if isinstance(root, dict) and root.get("k") == "Block" and root.get("e") is not None else root
    if tl is not lit:
        return None
    return pidx[d_["v"]], pidx[v_["v"]]


def r16_ctor_funnel(facts):
    c = Ctx("R16", facts, "every Array is built through the asserting constructor")
    lit_bodies = {}
    for b in facts.bodies:
        for n in walk(facts.root(b)):
            if n.get("k") == "Adt" and n["adt"] == ARRAY:
                lit_bodies.setdefault(b["def"], []).append(n)
    mir_bodies = set()
    for b in facts.bodies:
        if b.get("mir"):
            for a in b["mir"]["aggregates"]:
                if a["adt"] == ARRAY:
                    mir_bodies.add(b["def"])
    fb = funnel_body(facts)
    clone_def = (F.clone_body(facts) or {}).get("def")
    c.floor("funnel constructor From<(Vec<usize>, Rc<Vec<Float>>)>", 1 if fb else 0, 1)
    c.floor("bodies containing an Array literal", len(lit_bodies), 2)
    allowed = {fb["def"] if fb else None, clone_def}
    builders = {}
    shown_now = shown_fields(facts)
    for d in sorted(set(lit_bodies) | mir_bodies):
        b = facts.body(d)
        where = loc(b, lit_bodies[d][0]) if d in lit_bodies else "%s:%d" % (F.rel(b["file"]), b["sp"][0])
        if d not in allowed and d in lit_bodies and all(
                n.get("base") is not None and (strip(n["base"]).get("ty") == ARRAY) and not ({f["name"] for f in n["fields"]} & shown_now)
                for n in lit_bodies[d]):
            c.ok("literal:%s" % d, where, "struct-update literal `Array { .., ..base }` that takes dimensions and values unchanged from an existing array "
                 "(the representation invariant carries over)")
            continue
        if d not in allowed and d in lit_bodies:
            bparams = _private_builder(facts, b, lit_bodies[d])
            if bparams is not None:
                builders[d] = bparams
                c.ok("literal:%s" % d, where, "Array literal in a private builder that stores its `dimensions` / `values` parameters as given: every call of it is checked for the assertions instead")
                continue
        c.check(d in allowed, "literal:%s" % d, where,
                "Array literal in an allowed body (%s)" % ("constructor funnel" if fb and d == fb["def"] else "Clone"),
                "Array { .. } literal outside the asserting constructor and Clone: bypasses the dimension/length assertions")
    # (a') refusal grounds: a constructor refuses on the shape (a zero dimension, differing nested shapes, a wrong element count), never on the values
    from .config_rules import _panics
    fl_ = facts.float or "f64"
    n_ctor_asserts = 0
    ctor_bodies = []
    for b0 in facts.fns():
        if b0.get("impl_self") == ARRAY and b0.get("impl_trait_def") == "core::convert::From":
            for x in callees_closure(facts, b0, depth=2):
                if x["kind"] in ("Fn", "AssocFn") and x not in ctor_bodies and (x is b0 or (x.get("impl_trait_def") is None and not x.get("reachable") and x.get("impl_self") in (None, ARRAY)
                                                                                             and x.get("name") not in ("tracked", "untracked"))):
                    ctor_bodies.append(x)
    for b in ctor_bodies:
        for n in walk(facts.root(b)):
            if n.get("k") == "If" and n.get("else") is None and _panics(n["then"]):
                n_ctor_asserts += 1
                todo, seen_c, reads = [n["cond"]], set(), None
                while todo and reads is None:
                    e_ = todo.pop()
                    for x in walk(e_):
                        if (x.get("ty") or "") in (fl_, "&" + fl_, "&&" + fl_, "&mut " + fl_):
                            reads = x
                            break
                        if x.get("k") in ("VarRef", "UpvarRef"):
                            # a local Boolean computed earlier: look at its initialiser
                            for y in walk(facts.root(b)):
                                if y.get("k") == "Block":
                                    for st in y["stmts"]:
                                        if st["s"] == "let" and st["pat"].get("k") == "Binding" and st["pat"]["v"] == x["v"] and st.get("init") is not None and id(st["init"]) not in seen_c:
                                            seen_c.add(id(st["init"]))
                                            todo.append(st["init"])
                        if x.get("k") == "Closure" and x["closure"] not in seen_c:
                            seen_c.add(x["closure"])
                            cb = facts.body(x["closure"])
                            if cb:
                                todo.append(facts.root(cb))
                inst = "refusal:%s" % b["def"]
                if reads is not None:
                    c.bad(inst, loc(b, n), "a constructor's assertion reads the values themselves (`%s`): arrays of a valid shape are refused because of what they contain "
                          "(the constructors refuse only a zero dimension, differing nested shapes or a wrong element count)" % show(reads)[:60])
                else:
                    c.ok(inst, loc(b, n), "the assertion reads dimensions / lengths only")
    c.floor("assertions in the From<..> for Array constructors and their private helpers", n_ctor_asserts, 1)
    if set(lit_bodies) != mir_bodies:
        c.unk("literal:thir-vs-mir", "-", "THIR and MIR disagree on where Array aggregates are built: %s vs %s"
              % (sorted(lit_bodies), sorted(mir_bodies)))
    if not fb:
        return c
    # (b) dominating assertions in the funnel
    root = strip(facts.root(fb))
    stmts = root["stmts"] if root.get("k") == "Block" else []
    tail = strip(root.get("e")) if root.get("k") == "Block" else None
    # every call of a private builder outside the funnel passes the same assertions on the way
    self_checking = set()
    for bd, (di, vi) in sorted(builders.items()):
        bb = facts.body(bd)
        broot = strip(facts.root(bb)) if bb is not None else None
        bps = [p_ for p_ in facts.params(bb) if p_.get("pat")] if bb is not None else []
        if isinstance(broot, dict) and broot.get("k") == "Block" and len(bps) > max(di, vi) and bps[di]["pat"].get("k") == "Binding" and bps[vi]["pat"].get("k") == "Binding":
            g0, _n0 = collect_asserted(facts, broot["stmts"], {bps[di]["pat"]["v"]: "dims", bps[vi]["pat"]["v"]: "vals"})
            if g0.get("positive") is not None and g0.get("count") is not None:
                self_checking.add(bd)        # the builder refuses by itself, on its own parameters, before its literal
    for bd, (di, vi) in sorted(builders.items()):
        for cb in facts.bodies:
            for n_ in walk(facts.root(cb)):
                if n_.get("k") != "Call" or resolved(n_) != bd:
                    continue
                if cb["def"] == clone_def or (fb is not None and cb["def"] == fb["def"]):
                    continue
                inst = "builder-call:%s" % cb["def"]
                if bd in self_checking:
                    c.ok(inst, loc(cb, n_), "the private Array builder performs both refusals itself (`every dimension >= 1`, `product(dimensions) == values.len()` on its own parameters)")
                    continue
                croot = strip(facts.root(cb))
                cst = croot["stmts"] if isinstance(croot, dict) and croot.get("k") == "Block" else []
                ctail = strip(croot.get("e")) if isinstance(croot, dict) and croot.get("k") == "Block" and croot.get("e") is not None else None
                # the top-level statement the call belongs to (the tail, or the initialiser of a `let` / an expression statement)
                at = None
                if cb["kind"] in ("Fn", "AssocFn"):
                    if ctail is n_:
                        at = len(cst)
                    else:
                        for i_, st in enumerate(cst):
                            e_ = strip(st.get("init") if st["s"] == "let" else st.get("e")) if (st.get("init") if st["s"] == "let" else st.get("e")) is not None else None
                            if e_ is n_:
                                at = i_
                if at is None:
                    c.unk(inst, loc(cb, n_), "the private Array builder is called from inside another expression: the assertions on the way are not read")
                    continue
                before = cst[:at]
                has_refusals = any((y.get("k") == "If" and diverges(y["then"])) or (y.get("k") == "Call" and (y.get("callee") or {}).get("resolved_local"))
                                   or (y.get("k") == "Match" and y.get("mac") in ("assert_eq", "assert_ne"))
                                   for st in before for y in walk(st.get("init") if st["s"] == "let" else st.get("e")) if isinstance(y, dict))
                dv_, vv_ = var_of(peel(n_["args"][di])), None
                va = peel(n_["args"][vi])
                while isinstance(va, dict) and va.get("k") == "Call" and callee(va) in ("alloc::rc::Rc::<T>::new", "core::convert::Into::into", "core::convert::From::from") and va["args"]:
                    va = peel(va["args"][0])
                vv_ = var_of(va) if isinstance(va, dict) and va.get("k") in ("VarRef", "UpvarRef") else None
                count_by_construction = False
                if dv_ and not vv_ and isinstance(va, dict) and va.get("k") == "Call" and callee(va) == "alloc::vec::from_elem" and len(va["args"]) == 2:
                    # `vec![x; n]` with n the product of the same dimensions: the element count holds by construction
                    ln = peel(va["args"][1])
                    lets_ = {st["pat"]["v"]: st["init"] for st in before if st["s"] == "let" and st["pat"].get("k") == "Binding" and st.get("init") is not None}
                    if isinstance(ln, dict) and ln.get("k") == "VarRef" and ln["v"] in lets_:
                        ln = peel(lets_[ln["v"]])
                    if isinstance(ln, dict) and ln.get("k") == "Call" and (callee(ln) or "").endswith("::product") and any(
                            y.get("k") in ("VarRef", "UpvarRef") and y["v"] == dv_ for y in walk(ln)):
                        count_by_construction = True
                BAD_ = "the private Array builder is called without the dimension / element-count assertions: an array with a zero dimension or a wrong element count can be built"
                if not dv_ or (not vv_ and not count_by_construction):
                    if has_refusals:
                        c.unk(inst, loc(cb, n_), "the builder's dimensions / values arguments are not plain variables; the refusals before the call are not read")
                    else:
                        c.bad(inst, loc(cb, n_), BAD_ + " (nothing before the call refuses anything)")
                    continue
                g2, _n2 = collect_asserted(facts, before, {dv_: "dims", vv_: "vals"} if vv_ else {dv_: "dims"})
                if count_by_construction:
                    g2.setdefault("count", va)
                if g2.get("positive") is not None and g2.get("count") is not None:
                    c.ok(inst, loc(cb, n_), "the call is preceded by the assertions `every dimension >= 1` and `product(dimensions) == values.len()` on its arguments")
                elif any(y.get("k") == "Call" and (y.get("callee") or {}).get("resolved_local") and not (resolved(y) or "").startswith("<corgi::array::Array as core::convert::From<")
                         for st in before for y in walk(st.get("init") if st["s"] == "let" else st.get("e")) if isinstance(y, dict)):
                    c.unk(inst, loc(cb, n_), "the call of the private Array builder is preceded by refusals / helper calls in a form this rule does not read")
                else:
                    c.bad(inst, loc(cb, n_), BAD_)
    via_self_checking = None
    if isinstance(tail, dict) and tail.get("k") == "Call" and resolved(tail) in builders:
        if resolved(tail) in self_checking:
            via_self_checking = tail
        di, vi = builders[resolved(tail)]
        tail = {"k": "Adt", "adt": ARRAY, "fields": [{"name": "dimensions", "e": tail["args"][di]}, {"name": "values", "e": tail["args"][vi]}], "sp": tail.get("sp")}
    if not (isinstance(tail, dict) and tail.get("k") == "Adt" and tail["adt"] == ARRAY):
        c.unk("funnel:shape", loc(fb, root), "the constructor's tail expression is not the Array literal")
        return c
    inits = {f["name"]: f["e"] for f in tail["fields"]}
    shown = sorted(shown_fields(facts))
    dim_v = var_of(inits.get("dimensions"))
    val_v = var_of(inits.get("values"))
    if not dim_v or not val_v:
        c.unk("funnel:fields", loc(fb, tail), "dimensions/values initialisers are not plain variables")
        return c
    reassigned = assigned_vars(root)
    if dim_v in reassigned or val_v in reassigned:
        c.bad("funnel:reassigned", loc(fb, root), "dimensions/values are modified between the assertions and the literal")
    for s in stmts:
        if s["s"] == "expr" and not (strip(s["e"]).get("k") == "If" and diverges(strip(s["e"])["then"])):
            if any(x.get("k") in ("Return", "Break") for x in walk(s["e"])):
                c.unk("funnel:early-exit", loc(fb, s["e"]), "early exit between the assertions and the literal")
    got, n_asserted = collect_asserted(facts, stmts, {dim_v: "dims", val_v: "vals"})
    got_pos = got.get("positive") or via_self_checking
    got_len = got.get("count") or via_self_checking

    def _unread_refusals(body, role_vars):
        """refusals (diverging branches) in `body` or in the crate-local functions it hands the role variables to, in a form collect_asserted does not read"""
        from .config_rules import _panics as _pn
        n_ = 0
        for x in callees_closure(facts, body, depth=2):
            if x is not body and not any(
                    y.get("k") == "Call" and resolved(y) == x["def"] and any(var_of(peel(a)) in role_vars or any(z.get("k") in ("VarRef", "UpvarRef") and z["v"] in role_vars for z in walk(a)) for a in y["args"])
                    for y in walk(facts.root(body))):
                continue
            for nb in facts.nested(x):
                for y in walk(facts.root(nb)):
                    if y.get("k") == "If" and _pn(y["then"]) or (y.get("k") == "Match" and any(_pn(a["body"]) for a in y["arms"])):
                        n_ += 1
        return n_
    unread = _unread_refusals(fb, {dim_v, val_v}) - n_asserted
    if got_pos is None and unread > 0:
        c.unk("funnel:assert-positive-dimensions", loc(fb, root), "the constructor refuses something about its dimensions / values (%d refusal(s), some in helper functions) in a form this rule does not read: "
              "whether a zero dimension is refused is not decided" % unread)
    else:
        c.check(got_pos is not None, "funnel:assert-positive-dimensions", loc(fb, got_pos or root),
                "every path to the literal passes an assertion that every stored dimension is >= 1",
                "no dominating assertion that every dimension is >= 1 (a zero dimension would be accepted)")
    if got_len is None and unread > 0:
        c.unk("funnel:assert-element-count", loc(fb, root), "the constructor refuses something about its dimensions / values (%d refusal(s), some in helper functions) in a form this rule does not read: "
              "whether a wrong element count is refused is not decided" % unread)
    else:
        c.check(got_len is not None, "funnel:assert-element-count", loc(fb, got_len or root),
                "every path to the literal passes `product(dimensions) == values.len()` over the stored operands",
                "no dominating assertion that the product of the dimensions equals the number of values")
    asserted = [None] * n_asserted
    c.count("assertions on the straight-line path to the literal", len(asserted))
    # (c) From<Vec<Array>> asserts pairwise-equal shapes
    nested = None
    for b in facts.fns():
        if b.get("impl_self") == ARRAY and b.get("impl_trait_def") == "core::convert::From" and b.get("name") == "from" \
                and b["inputs"] == ["alloc::vec::Vec<corgi::array::Array>"]:
            nested = b
    if nested is None:
        c.floor("From<Vec<Array>>", 0, 1)
    else:
        ok = _nested_shape_assert(facts, nested)
        # a comparison of two arrays' dimensions under a refusal somewhere in the conversion or a helper it calls, in another form
        other_form = False
        if not ok:
            from .config_rules import _panics as _pn2
            for x in callees_closure(facts, nested, depth=2):
                if x is not nested and (x.get("impl_self") == ARRAY or x.get("impl_trait_def")):
                    continue
                for nb in facts.nested(x):
                    for y in walk(facts.root(nb)):
                        if y.get("k") == "If" and _pn2(y["then"]) and sum(1 for z in walk(y["cond"]) if z.get("k") == "Field" and z.get("name") == "dimensions") >= 2:
                            other_form = True
        if not ok and not other_form:
            # the comparison may sit in a closure (`split_first().is_none_or(|(first, rest)| rest.iter().all(..))`) feeding a Boolean that is asserted
            from .config_rules import _panics as _pn3
            cmp_in_closure = False
            helper_bodies = [nb2 for x in callees_closure(facts, nested, depth=2) if x is not nested and x.get("impl_trait_def") is None and x is not fb
                             for nb2 in facts.nested(x)]
            for nb in facts.nested(nested) + helper_bodies:
                for y in walk(facts.root(nb)):
                    sides = None
                    if y.get("k") == "Binary" and y.get("op") == "Eq":
                        sides = [y["l"], y["r"]]
                    elif y.get("k") == "Call" and callee(y) == "core::cmp::PartialEq::eq":
                        sides = y["args"]
                    if sides and all(any(z.get("k") == "Field" and z.get("name") == "dimensions" for z in walk(sd)) for sd in sides) \
                            and show(peel(sides[0])) != show(peel(sides[1])):
                        cmp_in_closure = True
            has_refusal = any(y.get("k") == "If" and _pn3(y["then"]) for y in walk(facts.root(nested)))
            if cmp_in_closure and has_refusal and not any(
                    y.get("k") == "Call" and (callee(y) or "").rsplit("::", 1)[-1] in ("skip", "take", "step_by", "filter", "skip_while", "take_while", "nth")
                    for nb in facts.nested(nested) for y in walk(facts.root(nb))):
                other_form = True
        if not ok and other_form:
            c.unk("nested:assert-equal-shapes", "%s:%d" % (F.rel(nested["file"]), nested["sp"][0]),
                  "From<Vec<Array>> (or a helper it calls) refuses on a comparison of two arrays' dimensions in a form this rule does not read")
        else:
            c.check(ok, "nested:assert-equal-shapes", "%s:%d" % (F.rel(nested["file"]), nested["sp"][0]),
                    "From<Vec<Array>> asserts (before building) that all contained dimensions are equal",
                    "From<Vec<Array>> does not assert that contained arrays have equal dimensions (ragged nesting accepted)")
    # the other constructors have no literal (a) so they can only build through the funnel
    return c


def _nested_shape_assert(facts, b):
    root = strip(facts.root(b))
    if root.get("k") != "Block":
        return False
    env = {}
    for s in root["stmts"]:
        if s["s"] == "let" and s["pat"].get("k") == "Binding" and s.get("init") is not None:
            env[s["pat"]["v"]] = s["init"]
            continue
        if s["s"] != "expr":
            continue
        e = strip(s["e"])
        if e.get("k") == "If" and diverges(e["then"]) and e.get("else") is None:
            cond = strip(e["cond"])
            if cond.get("k") == "Unary" and cond["op"] == "Not":
                a = strip(cond["e"])
                if var_of(a) in env:
                    a = env[var_of(a)]
                # somewhere in the asserted expression: Iterator::all with a closure comparing .dimensions of two arrays
                for x in walk(a):
                    if x.get("k") == "Call" and callee(x) == "core::iter::traits::iterator::Iterator::all":
                        # every contained array (after the one they are compared with) must be examined
                        if any(y.get("k") == "Call" and (callee(y) or "").rsplit("::", 1)[-1] in ("skip", "take", "step_by", "filter", "skip_while", "take_while", "nth")
                               for y in walk(x["args"][0])):
                            return False
                        clo = strip(x["args"][1])
                        if clo.get("k") == "Closure":
                            cb = facts.body(clo["closure"])
                            for y in walk(facts.root(cb)):
                                if (y.get("k") == "Binary" and y["op"] == "Eq") or (y.get("k") == "Call" and callee(y) == "core::cmp::PartialEq::eq"):
                                    sides = [y["l"], y["r"]] if y.get("k") == "Binary" else y["args"]
                                    ch = [field_chain(s) for s in sides]
                                    if all(cn and ("dimensions" in cn) for _, cn in ch) \
                                            and show(peel(sides[0])) != show(peel(sides[1])):
                                        return True
        # the assertion must come before the construction call
        if any(x.get("k") == "Call" and (resolved(x) or "").startswith("<corgi::array::Array as core::convert::From<") for x in walk(e)):
            return False
    return False


# ------------------------------------------------------------------ R17

def callees_closure(facts, b, depth=3):
    """b, its nested closures and the crate-local functions it calls (transitively, bounded)"""
    out = []
    seen = set()
    todo = [(b, 0)]
    while todo:
        x, d = todo.pop()
        if x["def"] in seen:
            continue
        seen.add(x["def"])
        out.append(x)
        for y in facts.nested(x):
            if y["def"] not in seen:
                todo.append((y, d))
            for n in walk(facts.root(y)):
                c_ = None
                if n.get("k") == "Call":
                    c_ = n.get("callee") or {}
                elif n.get("k") == "FnItem":
                    c_ = n.get("fn") or {}
                if c_ and c_.get("resolved_local") and d < depth:
                    cb = facts.body(c_.get("resolved"))
                    if cb is not None and cb["def"] not in seen:
                        todo.append((cb, d + 1))
    return out


class _EqUnknown(Exception):
    pass


class _EqReturn(Exception):
    def __init__(self, v):
        self.v = v


class EqEval:
    """Evaluates an equality-like function to a Boolean under an assignment of the atoms
    D ("the dimensions of the two operands are equal") and V ("their values are equal /
    close"); anything else that mentions the operands is a free Boolean."""

    def __init__(self, facts, content, asg, free):
        self.facts = facts
        self.content = content      # {'dimensions', 'values'}: names by role are taken from the fields read
        self.asg = asg
        self.free = free            # dict key -> bool (assignment of free variables), filled lazily by the driver
        self.need = None
        self.depth = 0

    def _compares_transformed(self, clo):
        """the closure `|(x, y)| cmp(f(x), f(y), ..)` hands its comparison something computed from the paired elements (a method of the float
        type, a cast, arithmetic) instead of the elements themselves"""
        clo = strip(clo)
        if not isinstance(clo, dict) or clo.get("k") != "Closure":
            return False
        cb = self.facts.body(clo["closure"])
        if cb is None:
            return False
        pvars = {v for p_ in self.facts.params(cb) if p_.get("pat") for v, _, _, _ in F.pat_bindings(p_["pat"])}
        fl = self.facts.float or "f64"
        for x in walk(self.facts.root(cb)):
            if x.get("k") == "Call" and ((callee(x) or "").endswith(("::eq", "::ne", "_eq", "_ne"))) and len(x.get("args") or []) >= 2:
                for a in x["args"][:2]:
                    if len({z["v"] for z in walk(a) if z.get("k") in ("VarRef", "UpvarRef") and z["v"] in pvars}) != 1:
                        continue        # a comparison of a combination of both elements (their difference against zero) is another form
                    for y in walk(a):
                        mentions = any(z.get("k") in ("VarRef", "UpvarRef") and z["v"] in pvars for z in walk(y))
                        if not mentions:
                            continue
                        if y.get("k") == "Call" and ((callee(y) or "").startswith("core::%s::<impl %s>::" % (fl, fl)) or (callee(y) or "").startswith("std::%s::<impl %s>::" % (fl, fl))
                                                     or (callee(y) or "").startswith("core::ops::arith::")):
                            return True
                        if y.get("k") in ("Cast", "Binary") or (y.get("k") == "Unary" and y.get("op") == "Neg"):
                            return True
            if x.get("k") == "Binary" and x.get("op") in ("Eq", "Ne"):
                for a in (x["l"], x["r"]):
                    if len({z["v"] for z in walk(a) if z.get("k") in ("VarRef", "UpvarRef") and z["v"] in pvars}) != 1:
                        continue
                    for y in walk(a):
                        if any(z.get("k") in ("VarRef", "UpvarRef") and z["v"] in pvars for z in walk(y)) and \
                                ((y.get("k") == "Call" and (callee(y) or "").startswith(("core::%s::<impl %s>::" % (fl, fl), "std::%s::<impl %s>::" % (fl, fl)))) or y.get("k") == "Cast"):
                            return True
        return False

    def fields_of(self, e, env):
        """{(operand index, field)} for Array field reads in e, operands resolved through env"""
        out = set()
        todo = [e]
        seen = set()
        while todo:
            x = todo.pop()
            for n in walk(x):
                if n.get("k") == "Field" and n.get("adt") == ARRAY:
                    v = var_of(n["e"])
                    if v in env and isinstance(env[v], tuple) and env[v][0] == "operand":
                        out.add((env[v][1], n["name"]))
                if n.get("k") == "Call" and resolved(n) in ("corgi::array::Array::dimensions", "corgi::array::Array::values"):
                    v = var_of(n["args"][0])
                    if v in env and isinstance(env[v], tuple) and env[v][0] == "operand":
                        out.add((env[v][1], resolved(n).split("::")[-1]))
                if n.get("k") in ("VarRef", "UpvarRef") and n["v"] in env and isinstance(env[n["v"]], tuple) and env[n["v"]][0] == "derived" \
                        and n["v"] not in seen:
                    seen.add(n["v"])
                    out |= env[n["v"]][1]
        return out

    def atom(self, e, env):
        """if e relates field F of both operands return F"""
        fs = self.fields_of(e, env)
        for f in ("dimensions", "values"):
            if (0, f) in fs and (1, f) in fs and not any(g != f for _, g in fs):
                return f
        return None

    def freevar(self, e, prefix=""):
        key = prefix + show(e)[:160]
        if key not in self.free:
            self.need = key
            raise _EqUnknown("need")
        return self.free[key]

    def truth(self, e, env):
        v = self.ev(e, env)
        if isinstance(v, bool):
            return v
        raise _EqUnknown("non-boolean condition %s" % show(e)[:60])

    def ev(self, e, env):
        e = strip(e)
        if e is None:
            return None
        k = e.get("k")
        if k == "Literal":
            v = F.lit_value(e)
            return v if isinstance(v, bool) else ("val", None)
        if k in ("VarRef", "UpvarRef"):
            v = env.get(e["v"])
            if isinstance(v, bool):
                return v
            return ("var", e["v"])
        if k in ("Borrow", "Deref"):
            return self.ev(e["e"], env)
        if k == "Unary" and e["op"] == "Not":
            return not self.truth(e["e"], env)
        if k == "LogicalOp":
            l = self.truth(e["l"], env)
            if e["op"] == "And":
                return l and self.truth(e["r"], env)
            return l or self.truth(e["r"], env)
        if k == "Binary" and e["op"] in ("Eq", "Ne"):
            return self.compare(e, [e["l"], e["r"]], e["op"] == "Ne", env)
        if k == "Block":
            env = dict(env)
            for s_ in e["stmts"]:
                if s_["s"] == "let":
                    init = s_.get("init")
                    for v, _, ty, _p in F.pat_bindings(s_["pat"]):
                        if init is not None and ty == "bool":
                            env[v] = self.truth(init, env)
                        elif init is not None:
                            fs = self.fields_of(init, env)
                            pv = var_of(init)
                            if pv in env and isinstance(env[pv], tuple) and env[pv][0] == "operand" and peel(init).get("k") in ("VarRef", "UpvarRef"):
                                env[v] = env[pv]
                            else:
                                env[v] = ("derived", fs)
                else:
                    self.ev(s_["e"], env)
            return self.ev(e["e"], env) if e.get("e") is not None else None
        if k == "If":
            cond = strip(e["cond"])
            if cond.get("k") == "Let":
                raise _EqUnknown("if-let")
            if self.truth(cond, env):
                return self.ev(e["then"], env)
            return self.ev(e["else"], env) if e.get("else") is not None else None
        if k == "Return":
            raise _EqReturn(self.truth(e["e"], env) if e.get("e") is not None else None)
        if k == "Match":
            fl = F.for_loop_parts(e)
            if fl is not None:
                return self.loop(fl, env)
            raise _EqUnknown("match")
        if k == "Call":
            return self.call(e, env)
        if k == "Closure":
            return ("clo", e["closure"], env)
        raise _EqUnknown("expression %s" % k)

    def compare(self, node, sides, negated, env):
        f = self.atom(node, env)
        lens = [peel(s_) for s_ in sides]
        # a comparison of a PART of the field (its length, its first / last element, one index): implied by equality of the field, not equivalent to it
        PARTS = ("alloc::vec::Vec::<T, A>::len", "core::slice::<impl [T]>::len", "core::slice::<impl [T]>::last", "core::slice::<impl [T]>::first",
                 "core::slice::<impl [T]>::get", "core::ops::index::Index::index", "core::slice::<impl [T]>::is_empty")
        is_len = all(x.get("k") == "Index" or (x.get("k") == "Call" and callee(x) in PARTS) for x in lens)
        if f is not None:
            if is_len:
                v = True if self.asg[f] else self.freevar(node)
            else:
                v = self.asg[f]
            return (not v) if negated else v
        if self.fields_of(node, env):
            v = self.freevar(node)
            return (not v) if negated else v
        raise _EqUnknown("comparison unrelated to the operands")

    def loop(self, fl, env):
        it, pat, body, _ = fl
        fs = self.fields_of(it, env)
        f = None
        for g in ("values", "dimensions"):
            if (0, g) in fs and (1, g) in fs:
                f = g
        rets = [n for n in walk(body) if n.get("k") == "Return"]
        if f is None or not rets:
            if not rets:
                return None
            raise _EqUnknown("loop with return over something else")
        # an element-wise check: completes iff the field agrees, otherwise takes the early return
        if self.asg[f]:
            return None
        r = rets[0]
        v = F.lit_value(r["e"]) if r.get("e") is not None else None
        if not isinstance(v, bool) or len(rets) != 1:
            raise _EqUnknown("loop return is not a Boolean literal")
        raise _EqReturn(v)

    def call(self, e, env):
        cal = callee(e)
        res = resolved(e)
        args = e["args"]
        if cal in ("core::cmp::PartialEq::eq", "core::cmp::PartialEq::ne"):
            return self.compare(e, args, cal.endswith("::ne"), env)
        if cal in ("core::iter::traits::iterator::Iterator::all", "core::iter::traits::iterator::Iterator::eq"):
            f = self.atom(e, env) if cal.endswith("::eq") else None
            if f is None:
                fs = self.fields_of(args[0], env)
                for g in ("values", "dimensions"):
                    if (0, g) in fs and (1, g) in fs:
                        f = g
            if f is not None:
                # adaptors that drop elements compare a PART of the field: implied by equality of the field, not equivalent to it
                LOSSY = ("filter", "skip", "take", "step_by", "skip_while", "take_while", "filter_map", "dedup", "last", "nth", "peekable_skip")
                OPAQUE = ("map", "flat_map", "scan", "fold", "chain", "rev", "cycle")
                names = set()
                for side in (args[:2] if cal.endswith("::eq") else args[:1]):
                    for x in walk(side):
                        if x.get("k") == "Call" and (callee(x) or "").startswith("core::iter::"):
                            names.add((callee(x) or "").rsplit("::", 1)[-1])
                if names & set(LOSSY):
                    return True if self.asg[f] else self.freevar(e)
                if cal.endswith("::all") and len(args) > 1 and self._compares_transformed(args[1]):
                    # the predicate compares a FUNCTION of the two elements (their magnitudes, rounded values, ..): implied by equality, not equivalent
                    return True if self.asg[f] else self.freevar(e)
                if "zip" in names and not cal.endswith("::eq"):
                    # zip stops at the shorter side: a comparison of the common prefix.  The dimension vectors of two arrays may differ in
                    # length; the value buffers have equal lengths whenever the dimensions are equal
                    if f == "dimensions":
                        return True if self.asg[f] else self.freevar(e)
                    if f == "values" and not self.asg["dimensions"]:
                        return True if self.asg[f] else self.freevar(e)
                if names & set(OPAQUE) and cal.endswith("::eq"):
                    raise _EqUnknown("element-wise comparison through %s" % sorted(names & set(OPAQUE)))
                return self.asg[f]
            raise _EqUnknown("all() over something else")
        if cal == "core::iter::traits::iterator::Iterator::any":
            fs = self.fields_of(args[0], env)
            for g in ("values", "dimensions"):
                if (0, g) in fs and (1, g) in fs:
                    return not self.asg[g]      # any(|pair| differs)
            raise _EqUnknown("any() over something else")
        if cal == "core::ops::bit::Not::not":
            return not self.truth(args[0], env)
        if cal in ("core::ptr::eq", "core::ptr::addr_eq") and len(args) == 2:
            # identity of the two handles: an opaque condition that implies equal dimensions (and nothing about `==` of the values: NaN)
            ops = set()
            for a in args:
                v = var_of(peel(a))
                if v in env and isinstance(env[v], tuple) and env[v][0] == "operand":
                    ops.add(env[v][1])
            if ops == {0, 1}:
                return self.freevar(e, "identity:")
        c_ = e.get("callee") or {}
        if c_.get("resolved_local") and self.depth < 3:
            cb = self.facts.body(c_["resolved"])
            if cb is not None and cb.get("thir"):
                return self.inline(cb, args, env)
        if self.fields_of(e, env) and e.get("ty") == "bool":
            return self.freevar(e)
        raise _EqUnknown("call %s" % cal)

    def inline(self, cb, args, env):
        self.depth += 1
        try:
            env2 = {}
            ps = [p for p in self.facts.params(cb) if p.get("pat")]
            for p, a in zip(ps, args):
                if p["pat"].get("k") == "Binding":
                    v = var_of(a)
                    if v in env and isinstance(env[v], tuple) and peel(a).get("k") in ("VarRef", "UpvarRef"):
                        env2[p["pat"]["v"]] = env[v]
                    elif isinstance(self.ev_safe(a, env), bool):
                        env2[p["pat"]["v"]] = self.ev_safe(a, env)
                    elif self.fields_of(a, env):
                        env2[p["pat"]["v"]] = ("derived", self.fields_of(a, env))
            try:
                return self.ev(self.facts.root(cb), env2)
            except _EqReturn as r:
                return r.v
        finally:
            self.depth -= 1

    def ev_safe(self, a, env):
        try:
            return self.ev(a, env)
        except (_EqUnknown, _EqReturn):
            return None


def eq_truth_table(facts, b):
    """-> (rows, why).  rows: list of (D, V, free assignment, result) or None if not analysable"""
    ps = [p for p in facts.params(b) if p.get("pat") and p["pat"].get("k") == "Binding"]
    arr = [p for p in ps if p["ty"] in ("&" + ARRAY, ARRAY)]
    if len(arr) < 2:
        return None, "operands not recognised"
    env0 = {arr[0]["pat"]["v"]: ("operand", 0), arr[1]["pat"]["v"]: ("operand", 1)}
    free_keys = []
    while True:
        rows = []
        need = None
        n = len(free_keys)
        for bits in range(1 << (2 + n)):
            asg = {"dimensions": bool(bits & 1), "values": bool(bits & 2)}
            free = {k: bool(bits >> (2 + i) & 1) for i, k in enumerate(free_keys)}
            ev = EqEval(facts, None, asg, free)
            try:
                try:
                    r = ev.ev(facts.root(b), dict(env0))
                except _EqReturn as rr:
                    r = rr.v
            except _EqUnknown as u:
                if ev.need is not None:
                    need = ev.need
                    break
                return None, str(u)
            except RecursionError:
                return None, "recursion"
            if not isinstance(r, bool):
                return None, "result is not Boolean"
            if any(k.startswith("identity:") and v for k, v in free.items()) and not asg["dimensions"]:
                continue        # infeasible: the same handle has the same dimensions
            rows.append((asg["dimensions"], asg["values"], free, r))
        if need is not None:
            if need in free_keys or len(free_keys) >= 4:
                return None, "too many opaque conditions"
            free_keys.append(need)
            continue
        return rows, ""


def r17_eq_fields(facts):
    c = Ctx("R17", facts, "equality reads exactly dimensions and values and is their conjunction")
    targets = []
    for b in facts.fns():
        if b.get("impl_self") == ARRAY and (b.get("impl_trait_def"), b.get("name")) in (
                ("core::cmp::PartialEq", "eq"), ("core::cmp::PartialEq", "ne"), ("approx::abs_diff_eq::AbsDiffEq", "abs_diff_eq"),
                ("approx::abs_diff_eq::AbsDiffEq", "abs_diff_ne"), ("approx::relative_eq::RelativeEq", "relative_eq"),
                ("approx::relative_eq::RelativeEq", "relative_ne")):
            targets.append(b)
    c.floor("equality bodies (eq, abs_diff_eq, relative_eq)", len(targets), 3)
    # the default tolerances of the approximate comparisons are the element type's own defaults, handed on unchanged
    for b in facts.fns():
        if b.get("impl_self") == ARRAY and (b.get("impl_trait_def") or "").startswith("approx::") and (b.get("name") or "").startswith("default_") and b.get("thir"):
            tl = strip(facts.root(b))
            while isinstance(tl, dict) and tl.get("k") == "Block" and not tl["stmts"] and tl.get("e") is not None:
                tl = strip(tl["e"])
            inst = "eq:%s" % b["name"]
            where = "%s:%d" % (F.rel(b["file"]), b["sp"][0])
            if isinstance(tl, dict) and tl.get("k") == "Call" and not tl.get("args") and (callee(tl) or "").rsplit("::", 1)[-1] == b["name"]:
                c.ok(inst, where, "%s is the element type's %s" % (b["name"], b["name"]))
            elif isinstance(tl, dict) and any(x.get("k") == "Call" and not x.get("args") and (callee(x) or "").rsplit("::", 1)[-1] == b["name"] for x in walk(tl)):
                c.bad(inst, where, "%s transforms the element type's default (`%s`): arrays are then compared with another default tolerance than their elements" % (b["name"], show(tl)[:60]))
            else:
                c.unk(inst, where, "%s is not the element type's default in a form read here (`%s`)" % (b["name"], show(tl)[:60] if isinstance(tl, dict) else "?"))
    content = set()
    for b in accessor_bodies(facts):
        content |= body_fields_read(facts, b)
    for b in targets:
        where = "%s:%d" % (F.rel(b["file"]), b["sp"][0])
        read = set()
        for x in callees_closure(facts, b):
            read |= body_fields_read(facts, x, nested=False)
        inst = "eq:%s" % b["name"]
        if read != content:
            extra = read - content
            missing = content - read
            c.bad(inst + "#fields", where,
                  "equality must read exactly {%s}; reads {%s}%s%s" % (
                      ",".join(sorted(content)), ",".join(sorted(read)),
                      (" — extra: %s (per-handle/engine state must not affect equality)" % sorted(extra)) if extra else "",
                      (" — missing: %s" % sorted(missing)) if missing else ""))
        else:
            c.ok(inst + "#fields", where, "reads exactly {%s} (including the helpers it calls)" % ",".join(sorted(read)))
        # exact equality compares the numbers themselves: no element is turned into another representation first
        if (b.get("impl_trait_def"), b["name"]) in (("core::cmp::PartialEq", "eq"), ("core::cmp::PartialEq", "ne")):
            fl = facts.float or "f64"
            INTS = ("u8", "u16", "u32", "u64", "u128", "usize", "i8", "i16", "i32", "i64", "i128", "isize")
            conv = None
            for x in callees_closure(facts, b):
                for nb in facts.nested(x):
                    for n in walk(facts.root(nb)):
                        k = n.get("k")
                        if k == "Call" and n.get("args"):
                            tys = [(a.get("ty") or "").replace("&", "").replace("mut ", "").strip() for a in n["args"] if isinstance(a, dict)]
                            rt = n.get("ty") or ""
                            if fl in tys and (rt in INTS or rt == "core::cmp::Ordering" or rt.startswith("[u8;") or rt in ("alloc::string::String",)):
                                conv = conv or (nb, n, "`%s` turns an element into `%s`" % (show(n)[:50], rt))
                        elif k == "Cast" and isinstance(n.get("e"), dict):
                            if (n["e"].get("ty") or "") == fl and (n.get("ty") or "") in INTS:
                                conv = conv or (nb, n, "`%s` casts an element to `%s`" % (show(n)[:50], n.get("ty")))
            if not conv:
                # ... nor decided through a distance: |x - y| <= eps is not reflexive on infinities (inf - inf is NaN), and any eps > 0 equates different values
                for x in callees_closure(facts, b):
                    for nb in facts.nested(x):
                        for n in walk(facts.root(nb)):
                            if n.get("k") == "Call":
                                cn, rn = callee(n) or "", resolved(n) or ""
                                if cn.startswith("approx::") or "as approx::" in rn:
                                    conv = conv or (nb, n, "`%s` decides equality through a distance |x - y| <= eps, which is false for two equal infinities (inf - inf is NaN)" % show(n)[:50])
                                elif cn in ("core::ops::arith::Sub::sub",) and (n.get("ty") or "") == fl:
                                    conv = conv or (nb, n, "`%s` subtracts the elements (a distance test is false for two equal infinities: inf - inf is NaN)" % show(n)[:50])
                            elif n.get("k") == "Binary" and n.get("op") == "Sub" and (n.get("ty") or "") == fl:
                                conv = conv or (nb, n, "`%s` subtracts the elements (a distance test is false for two equal infinities: inf - inf is NaN)" % show(n)[:50])
            if conv:
                c.bad(inst + "#numbers", F.loc(conv[0], conv[1]),
                      "equality does not compare the elements as numbers with `==`: %s (values are equal exactly when `==` says so: 0.0 == -0.0, NaN != NaN, inf == inf)" % conv[2])
            else:
                c.ok(inst + "#numbers", where, "elements are compared as floating-point numbers (no conversion to bits, integers, an ordering or text on the way)")
        # each content field is read from BOTH operands (comparing an operand with itself is always "equal")
        ps_ = [p_ for p_ in facts.params(b) if p_.get("pat") and p_["pat"].get("k") == "Binding" and (p_.get("ty") or "").replace("&", "").strip() == ARRAY]
        if len(ps_) >= 2:
            opv = {ps_[0]["pat"]["v"]: 0, ps_[1]["pat"]["v"]: 1}
            seen_pairs = set()
            for nb in facts.nested(b):
                for n_ in walk(facts.root(nb)):
                    if n_.get("k") == "Field" and n_.get("adt") == ARRAY and n_.get("name") in content:
                        rv = var_of(peel(n_["e"]))
                        if rv in opv:
                            seen_pairs.add((opv[rv], n_["name"]))
                    elif n_.get("k") == "Call" and resolved(n_) in ("corgi::array::Array::dimensions", "corgi::array::Array::values") and n_["args"]:
                        rv = var_of(peel(n_["args"][0]))
                        if rv in opv:
                            seen_pairs.add((opv[rv], resolved(n_).rsplit("::", 1)[-1]))
            one_sided = sorted(f_ for f_ in content if ((0, f_) in seen_pairs) != ((1, f_) in seen_pairs))
            helper_calls = any(n_.get("k") == "Call" and (n_.get("callee") or {}).get("resolved_local") and resolved(n_) not in ("corgi::array::Array::dimensions", "corgi::array::Array::values")
                               for nb in facts.nested(b) for n_ in walk(facts.root(nb)))
            if one_sided and not helper_calls:
                c.bad(inst + "#both-operands", where, "the comparison reads `%s` of only one of its two operands (the other side of the comparison is the same array again): "
                      "arrays that differ in %s compare equal" % (one_sided[0], one_sided[0]))
            elif one_sided:
                c.unk(inst + "#both-operands", where, "`%s` is read from one operand only in this body; the rest goes through helper functions" % one_sided[0])
            else:
                c.ok(inst + "#both-operands", where, "dimensions and values are read from both operands")
        # the approximate comparisons hand their tolerances to the per-element comparison in the same order
        if (b.get("impl_trait_def") or "").startswith("approx::"):
            tol = [p_["pat"]["v"] for p_ in facts.params(b)[2:] if p_.get("pat") and p_["pat"].get("k") == "Binding"]
            swapped = None
            for nb in facts.nested(b):
                for n_ in walk(facts.root(nb)):
                    if n_.get("k") == "Call" and (callee(n_) or "").rsplit("::", 1)[-1] == b["name"] and len(n_["args"]) == 2 + len(tol) and n_ is not None:
                        got_ = [var_of(peel(a)) for a in n_["args"][2:]]
                        if all(g in tol for g in got_) and got_ != tol:
                            swapped = (nb, n_, got_)
            # every tolerance this function receives decides the per-element comparison, in its own position
            POS = {"abs_diff_eq": 1, "abs_diff_ne": 1, "relative_eq": 2, "relative_ne": 2, "ulps_eq": 1, "ulps_ne": 1}
            unused, misplaced = [], []
            if not swapped:
                for i_, t_ in enumerate(tol):
                    refs, placed = 0, False
                    for nb in facts.nested(b):
                        for n_ in walk(facts.root(nb)):
                            if n_.get("k") in ("VarRef", "UpvarRef") and n_.get("v") == t_:
                                refs += 1
                            if n_.get("k") == "Call" and len(n_.get("args") or []) >= 3:
                                m_ = (callee(n_) or "").rsplit("::", 1)[-1]
                                if m_ in POS and ((callee(n_) or "").startswith("approx::") or "as approx::" in (resolved(n_) or "")):
                                    if len(n_["args"]) > 2 + i_ and i_ < POS[m_] and var_of(peel(n_["args"][2 + i_])) == t_:
                                        placed = True
                    if refs == 0:
                        unused.append(t_)
                    elif not placed:
                        misplaced.append(t_)
            if unused:
                c.bad(inst + "#tolerances", where, "%s never reads its `%s` argument: the outcome cannot depend on the tolerance the caller asked for" % (b["name"], unused[0].split("#")[0]))
            elif misplaced:
                c.unk(inst + "#tolerances", where, "`%s` is used, but not as the same tolerance of a per-element approx comparison (form not read)" % misplaced[0].split("#")[0])
            elif swapped:
                c.bad(inst + "#tolerances", loc(swapped[0], swapped[1]), "the per-element %s receives the tolerances in another order than this function does (%s for %s)"
                      % (b["name"], [g.split("#")[0] for g in swapped[2]], [t_.split("#")[0] for t_ in tol]))
            elif tol:
                c.ok(inst + "#tolerances", where, "tolerances are handed on in order", nontrivial=False)
        rows, why = eq_truth_table(facts, b)
        negated = b["name"].endswith("ne")
        if rows is None:
            c.unk(inst + "#shape", where, "the Boolean structure of the comparison is not read (%s); only the field set is decided for this function" % why)
            continue
        bad = [(d, v, fr, r) for d, v, fr, r in rows if r != ((d and v) != negated)]
        if bad:
            d, v, fr, r = bad[0]
            c.bad(inst + "#shape", where,
                  "equality is not the conjunction of 'dimensions equal' and 'values equal': with dimensions %s and values %s%s it returns %s"
                  % ("equal" if d else "different", "equal" if v else "different",
                     (" (and %s)" % ", ".join("%s = %s" % (k[:50], x) for k, x in fr.items())) if fr else "", r)
                  + (" — the same handle has equal dimensions, but an array that holds a NaN is not `==` to itself element by element" if any(k.startswith("identity:") and x for k, x in fr.items()) and d and not v else ""),
                  {"truth_table": [{"D": d, "V": v, "free": fr, "result": r} for d, v, fr, r in rows[:16]]})
        else:
            c.ok(inst + "#shape", where, "returns %s(dimensions equal AND values equal) under all %d assignments" % ("NOT " if negated else "", len(rows)),
                 {"rows": len(rows)})
    return c


# ------------------------------------------------------------------ R20

def r20_ownership_edges(facts):
    c = Ctx("R20", facts, "ownership edges: which fields can own arrays, who writes them")
    a = array_adt(facts)
    fields = facts.adt_fields(ARRAY)
    owning = [f["name"] for f in fields if ARRAY in f["walk_stop_local"]["local_adts"]]
    expected = None
    # (a) the owning fields are: the edge list written by with_children, and the two engine slots.
    edge = [f for f in fields if f["name"] in owning and any(x.startswith("alloc::vec::Vec<") or "alloc::vec::Vec<corgi::array::Array>" in x
                                                              for x in f["walk_stop_local"]["collections"])]
    slots = [f for f in fields if f["name"] in owning and f not in edge]
    c.floor("Array fields that can own an Array", len(owning), 3)
    for f in fields:
        where = "%s:%d" % (F.rel(a["file"]), f["sp"][0])
        if f["name"] not in owning:
            if f["walk_stop_local"]["opaque"] and f["name"] != "backward_op":
                c.unk("edge:%s" % f["name"], where, "field type has an opaque component that could own arrays: %s" % f["walk_stop_local"]["opaque"])
            continue
        if f in edge:
            c.check(len(edge) == 1, "edge:%s" % f["name"], where,
                    "the single operand edge list (%s)" % f["ty"],
                    "more than one collection of arrays in Array (%s): a second edge list (e.g. consumers) allows reference cycles" % [x["name"] for x in edge])
        else:
            # single-slot owner: Rc<Cell<Option<Array>>> / Rc<RefCell<Option<Array>>>
            single = not f["walk_stop_local"]["collections"]
            c.check(single, "edge:%s" % f["name"], where, "single slot (%s)" % f["ty"],
                    "slot %s can hold a collection of arrays" % f["name"])
    if len(slots) > 2:
        where = "%s:%d" % (F.rel(a["file"]), a["sp"][0])
        c.bad("edge:count", where, "Array has %d array-owning slots besides the edge list (%s); expected the pending-delta and gradient slots only"
              % (len(slots), [s["name"] for s in slots]))
    for f in fields:
        if f["walk_full"]["weak_ptrs"]:
            c.note("weak pointer in %s (not an owning edge)" % f["name"])

    # (b) writers of the edge list
    edge_name = edge[0]["name"] if edge else "children"
    writers = {}
    for b in facts.bodies:
        mir = b.get("mir")
        if not mir:
            continue
        for p in mir["field_places"]:
            if p["ctx"] in MUTATING:
                for e in p["proj"]:
                    if isinstance(e, dict) and e.get("adt") == ARRAY and e["field"] == edge_name:
                        writers.setdefault(b["def"], []).append(p)
    # a struct-update literal `Array { children: .., ..base }` sets the edge list of a new value built from `base`
    lit_writers = []
    for b in facts.bodies:
        for n in walk(facts.root(b)):
            if n.get("k") == "Adt" and n.get("adt") == ARRAY and n.get("base") is not None and any(f_["name"] == edge_name for f_ in n["fields"]):
                lit_writers.append((b, n))
    c.floor("writers of the edge list", len(writers) + len(lit_writers), 1)
    for b, n in lit_writers:
        is_builder = b.get("name") == "with_children" and b.get("impl_self") == ARRAY and not b.get("reachable")
        by_value_self = var_of(strip(n["base"])) == self_var(facts, b) and (b.get("inputs") or [""])[0] == ARRAY
        c.check(is_builder and by_value_self, "edge-writer:%s" % b["def"], loc(b, n),
                "edge list is set once, on the by-value array under construction (struct-update in the private builder)",
                "the operand edge list is set by a struct-update literal outside the private by-value builder (%s): edges of an existing node could change" % b["def"])
    for d, ps in writers.items():
        b = facts.body(d)
        for p in ps:
            owned = "*" not in [e for e in p["proj"][:p["proj"].index(next(e for e in p["proj"] if isinstance(e, dict) and e.get("field") == edge_name))] if isinstance(e, str)]
            is_builder = b.get("name") == "with_children" and b.get("impl_self") == ARRAY and not b.get("reachable")
            c.check(owned and is_builder and p["ctx"] == "write:Store", "edge-writer:%s" % d, "%s:%d" % (F.rel(b["file"]), p["sp"][0]),
                    "edge list is set once, on a by-value array under construction (private builder)",
                    "the operand edge list is written outside the private by-value builder (%s of %s in %s): edges of an existing node could change (cycles)" % (p["ctx"], edge_name, d))

    # (c) backward closures capture no arrays
    n_bw = 0
    for b in facts.closures():
        if not F.is_backward_closure(b):
            continue
        n_bw += 1
        where = "%s:%d" % (F.rel(b["file"]), b["sp"][0])
        bad = []
        unk = []
        for cap in b.get("captures", []):
            w = cap["walk"]
            if ARRAY in w["local_adts"]:
                bad.append("%s: %s" % (cap["var"], cap["ty"]))
            elif w["opaque"]:
                unk.append("%s: %s" % (cap["var"], cap["ty"]))
        if bad:
            c.bad("capture:%s" % b["def"], where, "backward closure captures a value that owns arrays (%s): the graph node keeps them alive / may close a cycle" % "; ".join(bad))
        elif unk:
            c.unk("capture:%s" % b["def"], where, "backward closure captures an opaque value (%s) that may own arrays" % "; ".join(unk))
        else:
            c.ok("capture:%s" % b["def"], where, "captures: %s" % (", ".join("%s: %s" % (x["var"], x["ty"]) for x in b.get("captures", [])) or "none"))
    c.floor("backward closures", n_bw, 17)

    # (d) pending-delta slot: Cell<Option<Array>>, only take/set
    delta_fields = [f for f in slots if f["ty"].startswith("alloc::rc::Rc<core::cell::Cell<core::option::Option<")]
    c.floor("pending-delta slot of type Rc<Cell<Option<Array>>>", len(delta_fields), 1)
    n_acc = 0
    # the engine is read through the inlined view (private helpers, local closures and place aliases resolved), so that
    # an access written as `let slot = &child.delta; slot.take()` or through a local closure parameter is still seen
    try:
        from .inline import engine_view
        view = engine_view(facts)
        d_bodies = [(b, view.root(b)) for b in facts.bodies] + [(b, view.root(b)) for d, b in view.overlay.items() if facts.body(d) is None]
    except Exception:       # pragma: no cover
        d_bodies = [(b, facts.root(b)) for b in facts.bodies]
    for df in delta_fields:
        for b, broot in d_bodies:
            for n in walk(broot):
                if n.get("k") == "Call" and n["args"]:
                    root, chain = field_chain(n["args"][0])
                    if chain and chain[-1] == df["name"] and (callee(n) or "").startswith("core::cell::Cell::<T>::"):
                        n_acc += 1
                        m = callee(n).split("::")[-1]
                        if m == "replace" and len(n["args"]) > 1:
                            a1 = strip(n["args"][1])
                            if a1.get("k") == "Adt" and a1.get("adt") == "core::option::Option" and a1.get("variant") == "None":
                                m = "take"      # replace(None) is take()
                        c.check(m in ("take", "set"), "delta-access:%s#%s" % (b["def"], m), loc(b, n),
                                "Cell::%s on the pending-delta slot (a read empties the slot)" % m,
                                "Cell::%s on the pending-delta slot: can leave a value behind after reading" % m)
    c.floor("accesses of the pending-delta slot", n_acc, 2)
    c.check(a["is_copy"] is False, "array-not-copy", "%s:%d" % (F.rel(a["file"]), a["sp"][0]),
            "Array is not Copy: Cell::get is unavailable, a pending delta can only be taken",
            "Array is Copy")

    # (e) model / layer / optimizer fields
    part_of_array = set()
    for f in facts.adt_fields(ARRAY):
        part_of_array |= set((f.get("walk_full") or {}).get("local_adts") or [])
    for d, adt in facts.adts.items():
        if d == ARRAY or d in part_of_array:
            continue        # the array itself and the types its own fields are made of (engine slots wrapped in a newtype)
        for f in facts.adt_fields(d):
            ws = f["walk_stop_local"]
            if ARRAY in ws["local_adts"]:
                where = "%s:%d" % (F.rel(adt["file"]), f["sp"][0])
                c.check(not ws["collections"], "retained:%s.%s" % (d, f["name"]), where,
                        "single array slot (%s)" % f["ty"],
                        "%s.%s can retain an unbounded collection of arrays (%s)" % (d, f["name"], f["ty"]))
                # a slot that can be filled through a shared reference (a layer's forward, an optimizer's update take `&self`) keeps what it was
                # given - a result and the graph below it - alive after the caller has dropped every handle
                if ws.get("cells"):
                    c.bad("retained-cell:%s.%s" % (d, f["name"]), where, "%s.%s is an interior-mutable slot that can hold an array (%s): code that only has `&self` can park a result there, "
                          "which keeps the graph below it alive after every handle the program holds has been dropped" % (d, f["name"], f["ty"]))
    # (f) no static / thread-local can hold arrays (it would outlive every handle)
    n_static = 0
    for it in facts.items:
        if it.get("kind") == "static" or (it.get("kind", "").startswith("other") and "ty" in it):
            n_static += 1
            t = it.get("ty", "")
            where = "%s:%d" % (F.rel(it["file"]), it["sp"][0])
            if ARRAY in t:
                c.bad("static:%s" % it["def"].split("::{")[0], where, "static / thread-local `%s` of type %s can retain arrays beyond the life of every handle" % (it["def"].split("::")[-1], t[:120]))
            else:
                c.ok("static:%s" % it["def"].split("::{")[0], where, "static of type %s holds no arrays" % t[:80], nontrivial=False)
    c.count("static items examined", n_static)
    # Model.output: one writer, whole-slot assignment
    for d, adt in facts.adts.items():
        for f in facts.adt_fields(d):
            if d != ARRAY and f["ty"] == "core::option::Option<corgi::array::Array>":
                ws = []
                for b in facts.bodies:
                    mir = b.get("mir")
                    if not mir:
                        continue
                    for p in mir["field_places"]:
                        if p["ctx"] in MUTATING and any(isinstance(e, dict) and e.get("adt") == d and e["field"] == f["name"] for e in p["proj"]):
                            ws.append((b, p))
                WHOLE_REPLACERS = ("core::option::Option::<T>::replace", "core::option::Option::<T>::insert", "core::option::Option::<T>::take",
                                   "core::mem::replace", "core::mem::take", "core::mem::swap")
                for b, p in ws:
                    last = p["proj"][-1]
                    whole = isinstance(last, dict) and last.get("field") == f["name"]
                    if whole and p["ctx"] == "write:Borrow":
                        # `self.output.replace(v)` / `mem::replace(&mut self.output, v)`: the mutable borrow is handed to a function
                        # that replaces the whole slot (the previous value is returned and dropped by the caller)
                        n_mut = n_repl = 0
                        for nb in facts.nested(b) if b["kind"] != "Closure" else [b]:
                            for x in walk(facts.root(nb)):
                                if x.get("k") == "Borrow" and x.get("bk") == "mut":
                                    r_, ch = field_chain(x["e"])
                                    if ch and ch[-1] == f["name"]:
                                        n_mut += 1
                                if x.get("k") == "Call" and callee(x) in WHOLE_REPLACERS and x["args"]:
                                    r_, ch = field_chain(x["args"][0])
                                    if ch and ch[-1] == f["name"]:
                                        n_repl += 1
                        if n_mut and n_mut == n_repl:
                            c.ok("retained-writer:%s.%s@%s" % (d, f["name"], b["def"]), "%s:%d" % (F.rel(b["file"]), p["sp"][0]),
                                 "the slot is replaced as a whole through Option::replace / mem::replace (the previous value is dropped)")
                            continue
                    c.check(whole and p["ctx"] == "write:Store", "retained-writer:%s.%s@%s" % (d, f["name"], b["def"]),
                            "%s:%d" % (F.rel(b["file"]), p["sp"][0]),
                            "whole-slot assignment (the previous value is dropped)",
                            "%s.%s is modified in place (%s) rather than replaced" % (d, f["name"], p["ctx"]))
    return c


def r16_literals_only(facts):
    """every Array value is built by the checked constructor (fresh, empty slots) or by Clone: no struct literal elsewhere copies another array's owning slots (children, gradient, pending delta) into a new value"""
    c = r16_ctor_funnel(facts)
    c.obs = [o for o in c.obs if "@literal:" in o.key or "@floor:" in o.key or "@anchor-missing:" in o.key or "@coverage-reduced:" in o.key]
    c.title = "Array literals only in the constructor and Clone (no copied owning slots)"
    return c
