"""Obligation model shared by all rules."""

DISCHARGED = "discharged"
VIOLATED = "violated"
UNCLASSIFIED = "unclassified"   # construct outside the idioms the analyser was taught: fail closed


class Ob:
    __slots__ = ("rule", "key", "where", "status", "why", "detail", "nontrivial")

    def __init__(self, rule, instance, where, status, why, detail=None, nontrivial=True):
        self.rule = rule
        # keys never contain line numbers: known findings are matched by exact key
        self.key = "%s@%s" % (rule, instance)
        self.where = where
        self.status = status
        self.why = why
        self.detail = detail
        self.nontrivial = nontrivial

    def bad(self):
        return self.status != DISCHARGED

    def to_json(self):
        d = {"rule": self.rule, "key": self.key, "where": self.where, "status": self.status, "why": self.why}
        if self.detail is not None:
            d["detail"] = self.detail
        return d


class Ctx:
    """Collects the obligations of one rule run on one fact set."""

    def __init__(self, rule, facts, title=""):
        self.rule = rule
        self.facts = facts
        self.title = title
        self.obs = []
        self.analysed = {}
        self.notes = []

    def ok(self, instance, where, why, detail=None, nontrivial=True):
        self.obs.append(Ob(self.rule, instance, where, DISCHARGED, why, detail, nontrivial))

    def bad(self, instance, where, why, detail=None):
        self.obs.append(Ob(self.rule, instance, where, VIOLATED, why, detail))

    def unk(self, instance, where, why, detail=None):
        self.obs.append(Ob(self.rule, instance, where, UNCLASSIFIED, why, detail))

    def check(self, cond, instance, where, ok_why, bad_why, detail=None):
        if cond:
            self.ok(instance, where, ok_why, detail)
        else:
            self.bad(instance, where, bad_why, detail)
        return cond

    def floor(self, what, count, minimum):
        """Fail closed when the rule matched nothing (a rule that matches nothing passes vacuously forever); report an
        abstention when it matched fewer instances than were counted by hand on the pinned tree."""
        self.analysed[what] = count
        if count == 0 and minimum > 0:
            # the rule found nothing to judge: it must not pass vacuously, and it has no construct to point at either: an abstention
            # that is always printed (a representation change - newtypes around the slots, the engine behind a trait - lands here)
            self.obs.append(Ob(self.rule, "anchor-missing:%s" % what, "-", UNCLASSIFIED,
                               "anchor missing: found no %s, expected at least %d: this rule decides nothing on this tree"
                               % (what, minimum)))
        elif count < minimum:
            # some instances are gone (merged into a helper, rewritten in an idiom the rule does not read): the rule still
            # judges what it found, but it no longer covers what was confirmed by hand on the pinned tree: an abstention, not an alarm
            self.obs.append(Ob(self.rule, "coverage-reduced:%s" % what, "-", UNCLASSIFIED,
                               "found %d %s where the pinned tree has at least %d: part of what this rule covered is no longer in a form it reads"
                               % (count, what, minimum)))
        else:
            self.obs.append(Ob(self.rule, "floor:%s" % what, "-", DISCHARGED,
                               "%d %s found (floor %d)" % (count, what, minimum), nontrivial=False))

    def count(self, what, n):
        self.analysed[what] = n

    def note(self, s):
        self.notes.append(s)
