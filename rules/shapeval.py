"""Shape-slice interpreter: an abstract interpretation of the library's THIR in which everything that describes SHAPE - dimension
vectors, ranks, lengths, counts, strides, Boolean flags - is concrete, taken from a finite grid of small shapes, and everything that is
ELEMENT DATA (floats, value buffers, closures over them) is abstracted to "unknown" (buffers keep their length only).

It answers, for one operation of the public API and one assignment of small shapes to its operands: does the operation refuse
(reach a panic), or which dimensions does the array it returns have?  The kernels that compute element values are never entered
(a call of a closure over value slices returns "unknown" at once); a condition that depends on an unknown aborts the evaluation
of that grid point ("not decided"), except that an assertion on an unknown is taken to hold.

Used by R55 (shape contract of the operations on a finite grid): refusals of admissible shapes, acceptance of inadmissible ones,
and result dimensions that differ from the documented ones, with the operand shapes as the witness."""

from . import facts as F
from .facts import callee, resolved, strip, ARRAY


class _Unknown:
    def __repr__(self):
        return "?"


UNK = _Unknown()


class Panic(Exception):
    def __init__(self, node):
        self.node = node


class Abort(Exception):
    """the evaluation cannot be continued (control depends on element data, unsupported construct, budget)"""


class _Return(Exception):
    def __init__(self, v):
        self.v = v


class _Break(Exception):
    pass


class _Continue(Exception):
    pass


_UID = [0]


class Arr:
    """an array of the library: its dimensions, its per-handle flags, the operands it records and whether it carries a derivative;
    the value buffer is abstracted to its length.  `uid` names the node (clones share it)"""
    __slots__ = ("dims", "tracked", "keep", "children", "bop", "uid", "vals")

    def __init__(self, dims, tracked=False, uid=None):
        self.dims, self.tracked, self.keep = list(dims), tracked, tracked
        self.children, self.bop = [], False
        self.vals = None        # provenance mode: one provenance set per element
        if uid is None:
            _UID[0] += 1
            uid = _UID[0]
        self.uid = uid

    def copy(self):
        o = Arr(self.dims, self.tracked, self.uid)
        o.keep, o.children, o.bop = self.keep, list(self.children), self.bop
        o.vals = self.vals      # the buffer is shared between clones (and never written)
        return o

    def reach(self, seen=None):
        """uids of the nodes this array keeps a reference to through its recorded operands"""
        seen = seen if seen is not None else set()
        visited = set()
        todo = list(self.children)
        while todo:
            ch = todo.pop()
            if isinstance(ch, Arr) and id(ch) not in visited:
                visited.add(id(ch))
                seen.add(ch.uid)
                todo.extend(ch.children)
        return seen

    def __repr__(self):
        return "Arr%s" % (self.dims,)


class PF:
    """provenance of one number: the set of input elements it was computed from"""
    __slots__ = ("s",)

    def __init__(self, s):
        self.s = s

    def __repr__(self):
        return "PF(%s)" % sorted(self.s)


def pf_join(*vals):
    """join of the provenance of some numbers; UNK as soon as one of them has none"""
    out = frozenset()
    for v in vals:
        v = deref(v)
        if isinstance(v, PF):
            out = out | v.s
        elif isinstance(v, (int, float)) and not isinstance(v, bool):
            continue
        else:
            return UNK
    return PF(out)


class FVec:
    """a buffer of element values: only its length is kept (None: unknown)"""
    __slots__ = ("n",)

    def __init__(self, n):
        self.n = n

    def __repr__(self):
        return "FVec(%s)" % self.n


class Ref:
    """a reference to one cell of a list (what `iter_mut()` / `&mut v[i]` hand out)"""
    __slots__ = ("box", "key")

    def __init__(self, box, key):
        self.box, self.key = box, key

    def get(self):
        return self.box[self.key]

    def set(self, v):
        self.box[self.key] = v


class SliceList(list):
    """a sub-slice `v[a..b]` of a list: reads see a copy, writes go through to the list it was cut from"""

    def __init__(self, items, base, off):
        list.__init__(self, items)
        self.base, self.off = base, off

    def write(self, i, v):
        self[i] = v
        if isinstance(self.base, SliceList):
            self.base.write(self.off + i, v)
        else:
            self.base[self.off + i] = v


class SRef(Ref):
    """a reference to one cell of a sub-slice"""

    def set(self, v):
        self.box.write(self.key, v)


def cell_ref(box, i):
    return SRef(box, i) if isinstance(box, SliceList) else Ref(box, i)


class Cycle(list):
    """`iter.cycle()`: an endless repetition; only `take(n)` and being zipped with a finite iterator give it an end"""


class VarCell:
    """a reference to a local variable (`&mut x`)"""
    __slots__ = ("env", "name")

    def __init__(self, env, name):
        self.env, self.name = env, name

    def get(self):
        return self.env.get(self.name)

    def set(self, v):
        self.env.set(self.name, v)


class Some:
    __slots__ = ("v",)

    def __init__(self, v):
        self.v = v

    def __repr__(self):
        return "Some(%r)" % (self.v,)


NONE = "None"


class Clo:
    __slots__ = ("body", "env")

    def __init__(self, body, env):
        self.body, self.env = body, env


class Env:
    def __init__(self, parent=None):
        self.vars = {}
        self.parent = parent

    def get(self, k):
        e = self
        while e is not None:
            if k in e.vars:
                return e.vars[k]
            e = e.parent
        return UNK

    def set(self, k, v):
        e = self
        while e is not None:
            if k in e.vars:
                e.vars[k] = v
                return
            e = e.parent
        self.vars[k] = v

    def bind(self, k, v):
        self.vars[k] = v


def deref(v):
    n = 0
    while isinstance(v, (Ref, VarCell)) and n < 8:
        v = v.get()
        n += 1
    return v


FLOATY = ("f64", "f32")
IT = "core::iter::traits::iterator::Iterator::"
PASS_THROUGH = (
    "core::clone::Clone::clone", "alloc::borrow::ToOwned::to_owned", "alloc::slice::<impl [T]>::to_vec", "alloc::rc::Rc::<T>::new",
    "alloc::boxed::Box::<T>::new", "core::ops::deref::Deref::deref", "core::ops::deref::DerefMut::deref_mut", "core::borrow::Borrow::borrow",
    "core::convert::AsRef::as_ref", "core::convert::Into::into", "alloc::vec::Vec::<T, A>::as_slice", "core::convert::identity",
    "alloc::rc::Rc::<T>::clone", "alloc::vec::Vec::<T, A>::as_mut_slice", "core::borrow::BorrowMut::borrow_mut", "core::convert::AsMut::as_mut",
    "alloc::slice::<impl [T]>::into_vec", "core::iter::traits::collect::IntoIterator::into_iter", "core::slice::<impl [T]>::iter",
    "core::iter::traits::iterator::Iterator::copied", "core::iter::traits::iterator::Iterator::cloned", "core::iter::traits::iterator::Iterator::by_ref",
    "core::iter::traits::iterator::Iterator::collect", "core::iter::traits::iterator::Iterator::peekable", "core::iter::traits::iterator::Iterator::fuse",
    "core::array::<impl [T; N]>::iter", "alloc::vec::Vec::<T, A>::iter", "core::cell::Cell::<T>::new", "core::cell::RefCell::<T>::new", "core::iter::traits::double_ended::DoubleEndedIterator::rev_placeholder",
)
SELF_RETURNING = ()


class Interp:
    def __init__(self, facts, budget=60000, memo=None, prov=False):
        self.facts = facts
        self.memo = memo
        self.prov = prov        # provenance mode: value buffers are lists of provenance sets and the kernels are entered
        self.budget = budget
        self.steps = 0
        self.depth = 0
        self.fl = facts.float or "f64"

    # ------------------------------------------------------------------ entry
    def call_fn(self, b, args):
        """run crate-local function body b on argument values -> value (raises Panic / Abort); results of functions that take no `&mut`
        parameter are remembered per (function, argument shapes)"""
        key = None
        if self.memo is not None and not any("&mut" in (t or "") for t in (b.get("inputs") or [])):
            try:
                key = (b["def"], tuple(_freeze(a) for a in args))
            except TypeError:
                key = None
            if key is not None and key in self.memo:
                kind, v = self.memo[key]
                if kind == "panic":
                    raise Panic(v)
                return _thaw(v)
        try:
            out = self._call_fn(b, args)
        except Panic as p_:
            if key is not None:
                self.memo[key] = ("panic", p_.node)
            raise
        if key is not None:
            try:
                self.memo[key] = ("value", _freeze(out))
            except TypeError:
                pass
        return out

    def _call_fn(self, b, args):
        if self.depth > 12:
            raise Abort("call depth")
        env = Env()
        ps = [p for p in self.facts.params(b) if p.get("pat")]
        if len(ps) != len(args):
            raise Abort("arity of %s" % b.get("name"))
        for p, a in zip(ps, args):
            self.bind(p["pat"], a, env)
        self.depth += 1
        try:
            try:
                return self.ev(self.facts.root(b), env)
            except _Return as r:
                return r.v
        finally:
            self.depth -= 1

    def apply(self, f, args):
        f = deref(f)
        if isinstance(f, tuple) and f and f[0] == "localfn":
            return self.call_fn(f[1], list(args))
        if isinstance(f, tuple) and f and f[0] == "fnitem":
            return pf_join(*args) if self.prov else UNK        # a function of numbers (Float::add, f64::max, ..): joins the provenance of its arguments
        if not isinstance(f, Clo):
            return UNK
        cb = f.body
        ps = [p for p in self.facts.params(cb) if p.get("pat")]
        # a closure over element data (value slices, floats) is a kernel: never entered in the shape slice
        if not self.prov:
            for p in ps:
                t = p.get("ty") or ""
                if any(x in t for x in FLOATY):
                    return UNK
            if (cb.get("closure_output") or "") in FLOATY:
                return UNK
        env = Env(f.env)
        if len(ps) == 1 and len(args) != 1:
            self.bind(ps[0]["pat"], tuple(args), env)
        elif len(ps) != len(args):
            raise Abort("closure arity")
        else:
            for p, a in zip(ps, args):
                self.bind(p["pat"], a, env)
        self.depth += 1
        try:
            if self.depth > 14:
                raise Abort("call depth")
            try:
                return self.ev(self.facts.root(cb), env)
            except _Return as r:
                return r.v
        finally:
            self.depth -= 1

    # ------------------------------------------------------------------ patterns
    def bind(self, pat, v, env):
        k = pat.get("k")
        if k == "Binding":
            mode = pat.get("mode") or ""
            if "Ref" in mode and "No" not in mode.split(",")[0]:
                pass
            env.bind(pat["v"], v)
            if isinstance(pat.get("sub"), dict):
                self.bind(pat["sub"], v, env)
            return True
        if k == "Wild":
            return True
        if k in ("Deref", "DerefPattern"):
            return self.bind(pat["sub"], deref(v), env)
        if k == "Leaf":
            vv = deref(v)
            subs = pat.get("subs") or []
            if vv is UNK:
                for s in subs:
                    self.bind(s["pat"], UNK, env)
                return True
            if isinstance(vv, tuple):
                ok_ = True
                for s in subs:
                    i = s.get("idx")
                    if i is None or i >= len(vv):
                        raise Abort("tuple pattern")
                    if not self.bind(s["pat"], vv[i], env):
                        ok_ = False
                return ok_
            raise Abort("leaf pattern over %r" % (type(vv).__name__,))
        if k == "Variant":
            vv = deref(v)
            if (pat.get("adt") or "").endswith("option::Option"):
                if vv is UNK:
                    raise Abort("option of unknown")
                if pat["variant"] == "None":
                    return vv is NONE
                if isinstance(vv, Some):
                    for s in pat.get("subs") or []:
                        self.bind(s["pat"], vv.v, env)
                    return True
                return False
            raise Abort("variant pattern %s" % pat.get("adt"))
        if k in ("Slice", "Array"):
            vv = deref(v)
            pre, suf, mid = pat.get("prefix") or [], pat.get("suffix") or [], pat.get("slice")
            if isinstance(vv, FVec):
                if vv.n is None:
                    raise Abort("slice pattern over a buffer of unknown length")
                n_ = vv.n
                if (mid is None and n_ != len(pre) + len(suf)) or n_ < len(pre) + len(suf):
                    return False
                for q in pre + suf:
                    self.bind(q, UNK, env)
                if isinstance(mid, dict):
                    self.bind(mid, FVec(n_ - len(pre) - len(suf)), env)
                return True
            if isinstance(vv, list):
                n_ = len(vv)
                if (mid is None and n_ != len(pre) + len(suf)) or n_ < len(pre) + len(suf):
                    return False
                ok = True
                for i_, q in enumerate(pre):
                    ok = self.bind(q, vv[i_], env) and ok
                for i_, q in enumerate(suf):
                    ok = self.bind(q, vv[n_ - len(suf) + i_], env) and ok
                if isinstance(mid, dict):
                    self.bind(mid, list(vv[len(pre):n_ - len(suf)]), env)
                return ok
            raise Abort("slice pattern over %s" % type(vv).__name__)
        if k == "Constant":
            vv = deref(v)
            want = pat.get("value")
            if isinstance(vv, bool) and want in ("true", "false"):
                return vv == (want == "true")
            if isinstance(vv, int) and not isinstance(vv, bool):
                try:
                    return vv == int(str(want).rstrip("usizei32u64").replace("_", ""))
                except ValueError:
                    pass
            raise Abort("constant pattern")
        raise Abort("pattern %s" % k)

    # ------------------------------------------------------------------ places
    def assign(self, place, v, env):
        p = strip(place)
        k = p.get("k")
        if k in ("VarRef", "UpvarRef"):
            cur = env.get(p["v"])
            if isinstance(cur, (Ref, VarCell)) and False:
                cur.set(v)
            else:
                env.set(p["v"], v)
            return
        if k == "Deref":
            tgt = self.ev(p["e"], env, want_ref=True)
            if isinstance(tgt, (Ref, VarCell)):
                tgt.set(v)
                return
            inner = strip(p["e"])
            if inner.get("k") in ("VarRef", "UpvarRef"):
                env.set(inner["v"], v)
                return
            if inner.get("k") == "Call":
                # *deref_mut(&mut x) = v
                if inner["args"]:
                    return self.assign({"k": "Deref", "e": inner["args"][0]}, v, env)
            if inner.get("k") == "Borrow":
                return self.assign(inner["e"], v, env)
            raise Abort("assignment through %s" % inner.get("k"))
        if k == "Index":
            base = deref(self.ev(p["e"], env))
            i = deref(self.ev(p["i"], env))
            if isinstance(base, list) and isinstance(i, int) and not isinstance(i, bool):
                if i >= len(base):
                    raise Panic(place)
                if isinstance(base, SliceList):
                    base.write(i, v)
                else:
                    base[i] = v
                return
            if isinstance(base, FVec) or base is UNK:
                return
            raise Abort("indexed assignment")
        if k == "Field":
            base = deref(self.ev(p["e"], env))
            if isinstance(base, Arr):
                dv_ = deref(v)
                if p.get("name") == "dimensions":
                    base.dims = list(dv_) if isinstance(dv_, list) else base.dims
                elif p.get("name") == "children":
                    base.children = [deref(x) for x in dv_] if isinstance(dv_, list) else [UNK]
                elif p.get("name") == "backward_op":
                    if isinstance(dv_, Some) and (isinstance(deref(dv_.v), Clo) or (isinstance(deref(dv_.v), tuple) and deref(dv_.v) and deref(dv_.v)[0] == "localfn")):
                        base.bop = deref(dv_.v)
                    else:
                        base.bop = isinstance(dv_, Some) or (dv_ is not NONE and dv_ is not UNK)
                return
            if base is UNK:
                return
            raise Abort("field assignment")
        if k == "Borrow":
            return self.assign(p["e"], v, env)
        raise Abort("assignment to %s" % k)

    # ------------------------------------------------------------------ expressions
    def truth(self, e, env):
        v = deref(self.ev(e, env))
        if isinstance(v, bool):
            return v
        return UNK

    def ev(self, e, env, want_ref=False):
        self.steps += 1
        if self.steps > self.budget:
            raise Abort("budget")
        e = strip(e)
        if e is None or not isinstance(e, dict):
            return ()
        k = e.get("k")
        if k == "Literal":
            v = F.lit_value(e)
            if isinstance(v, bool):
                return v
            if isinstance(v, int) and (e.get("ty") or "") not in FLOATY:
                return v
            if self.prov and isinstance(v, (int, float)) and (e.get("ty") or "") in FLOATY:
                return PF(frozenset())
            return UNK
        if k in ("VarRef", "UpvarRef"):
            v = env.get(e["v"])
            return v if want_ref else v
        if k == "Borrow":
            inner = strip(e["e"])
            if e.get("bk") == "mut" and inner.get("k") in ("VarRef", "UpvarRef"):
                cur = env.get(inner["v"])
                if isinstance(cur, (list, Ref, VarCell, Arr, FVec)) or cur is UNK:
                    return cur
                return VarCell(env, inner["v"]) if want_ref else VarCell(env, inner["v"])
            if e.get("bk") == "mut" and inner.get("k") == "Index":
                base = deref(self.ev(inner["e"], env))
                i = deref(self.ev(inner["i"], env))
                if isinstance(base, list) and isinstance(i, int) and not isinstance(i, bool):
                    if i >= len(base):
                        raise Panic(e)
                    return cell_ref(base, i)
            return self.ev(e["e"], env, want_ref)
        if k == "Deref":
            v = self.ev(e["e"], env, want_ref=True)
            return v if want_ref else deref(v)
        if k == "Block":
            env2 = Env(env)
            for s in e["stmts"]:
                self.stmt(s, env2)
            if e.get("e") is not None:
                return self.ev(e["e"], env2, want_ref)
            return ()
        if k == "Tuple":
            return tuple(self.ev(x, env) for x in e["fields"])
        if k == "Array":
            return [self.ev(x, env) for x in e["fields"]]
        if k == "Unary":
            v = deref(self.ev(e["e"], env))
            if v is UNK:
                return UNK
            if e["op"] == "Not" and isinstance(v, bool):
                return not v
            if e["op"] == "Neg" and isinstance(v, int):
                return -v
            if e["op"] == "Neg" and isinstance(v, PF):
                return v
            return UNK
        if k == "LogicalOp":
            l = self.truth(e["l"], env)
            if e["op"] == "And":
                if l is False:
                    return False
                r = self.truth(e["r"], env)
                if r is False:
                    return False
                return UNK if (l is UNK or r is UNK) else True
            if l is True:
                return True
            r = self.truth(e["r"], env)
            if r is True:
                return True
            return UNK if (l is UNK or r is UNK) else False
        if k == "Binary":
            return self.binary(e, env)
        if k == "If":
            cond = strip(e["cond"])
            if cond.get("k") == "Let":
                env2 = Env(env)
                sv = self.ev(cond["e"], env)
                if deref(sv) is UNK:
                    raise Abort("if-let on unknown")
                if self.bind(cond["pat"], sv, env2):
                    return self.ev(e["then"], env2, want_ref)
                return self.ev(e["else"], env, want_ref) if e.get("else") is not None else ()
            c = self.truth(cond, env)
            if c is UNK:
                if e.get("else") is None and F._diverging(e["then"]):
                    return ()           # an assertion on element data: taken to hold
                raise Abort("condition on unknown data")
            if c:
                if e.get("else") is None and self._panics(e["then"]):
                    raise Panic(e)
                return self.ev(e["then"], env, want_ref)
            return self.ev(e["else"], env, want_ref) if e.get("else") is not None else ()
        if k == "Match":
            fl = F.for_loop_parts(e)
            if fl is not None:
                return self.for_loop(fl, env)
            if e.get("mac") in ("assert_eq", "assert_ne"):
                tup = deref(self.ev(e["scrutinee"], env))
                if isinstance(tup, tuple) and len(tup) == 2:
                    a, b = deref(tup[0]), deref(tup[1])
                    if a is UNK or b is UNK or isinstance(a, FVec) or isinstance(b, FVec):
                        return ()
                    same = self.equal(a, b)
                    if same is UNK:
                        return ()
                    if same != (e["mac"] == "assert_eq"):
                        raise Panic(e)
                return ()
            sv = self.ev(e["scrutinee"], env)
            dv = deref(sv)
            if dv is UNK:
                raise Abort("match on unknown")
            for a in e["arms"]:
                env2 = Env(env)
                p = a["pat"]
                ok = None
                if p.get("k") in ("Binding", "Wild", "Leaf", "Deref", "DerefPattern", "Variant", "Slice", "Array", "Constant"):
                    ok = self.bind(p, sv, env2)
                else:
                    lv = F.lit_value(p.get("value")) if isinstance(p.get("value"), dict) else None
                    if lv is None:
                        raise Abort("arm pattern %s" % p.get("k"))
                    ok = (lv == dv)
                if ok and a.get("guard") is not None:
                    g = self.truth(a["guard"], env2)
                    if g is UNK:
                        raise Abort("guard on unknown")
                    ok = g
                if ok:
                    return self.ev(a["body"], env2, want_ref)
            raise Abort("no arm matched")
        if k == "Loop":
            n = 0
            while True:
                n += 1
                if n > 4000:
                    raise Abort("loop bound")
                try:
                    self.ev(e["body"], env)
                except _Break:
                    return ()
                except _Continue:
                    continue
        if k == "Break":
            raise _Break()
        if k == "Continue":
            raise _Continue()
        if k == "Return":
            raise _Return(self.ev(e["e"], env) if e.get("e") is not None else ())
        if k == "Assign":
            self.assign(e["l"], self.ev(e["r"], env), env)
            return ()
        if k == "AssignOp":
            cur = deref(self.ev(e["l"], env))
            r = deref(self.ev(e["r"], env))
            op = str(e.get("op")).replace("Assign", "")
            self.assign(e["l"], self.arith(op, cur, r, e), env)
            return ()
        if k == "Field":
            base = deref(self.ev(e["e"], env))
            if e.get("adt") == ARRAY or isinstance(base, Arr):
                if not isinstance(base, Arr):
                    return UNK
                nm = e.get("name")
                if nm == "dimensions":
                    return base.dims
                if nm == "values" and self.prov and isinstance(base.vals, list):
                    return base.vals
                if nm == "values":
                    n_ = 1
                    for d in base.dims:
                        if not isinstance(d, int):
                            return FVec(None)
                        n_ *= d
                    return FVec(n_)
                if nm == "is_tracked":
                    return ("cell", base, "tracked")
                if nm == "keep_gradient":
                    return ("cell", base, "keep")
                if nm == "children":
                    return base.children
                if nm == "backward_op":
                    return Some(UNK) if base.bop else NONE
                return UNK
            if isinstance(base, tuple) and e.get("idx") is not None and e["idx"] < len(base):
                return base[e["idx"]]
            return UNK
        if k == "Index":
            base = deref(self.ev(e["e"], env))
            i = deref(self.ev(e["i"], env))
            return self.index(base, i, e)
        if k == "Cast":
            v = deref(self.ev(e["e"], env))
            if isinstance(v, int) and not isinstance(v, bool) and (e.get("ty") or "") not in FLOATY:
                return v
            if self.prov and (e.get("ty") or "") in FLOATY:
                return v if isinstance(v, PF) else (PF(frozenset()) if isinstance(v, int) else UNK)      # a count turned into a number carries no element's provenance
            return UNK
        if k == "Closure":
            cb = self.facts.body(e["closure"])
            return Clo(cb, env) if cb is not None else UNK
        if k == "Adt":
            adt = e.get("adt") or ""
            if adt.endswith("option::Option"):
                if e.get("variant") == "None":
                    return NONE
                return Some(self.ev(e["fields"][0]["e"], env))
            if adt == ARRAY:
                if e.get("base") is not None:
                    base = deref(self.ev(e["base"], env))
                    dims = base.dims if isinstance(base, Arr) else None
                else:
                    dims = None
                for f_ in e.get("fields") or []:
                    if f_.get("name") == "dimensions":
                        dims = deref(self.ev(f_["e"], env))
                if isinstance(dims, list):
                    out = Arr(dims)
                    if e.get("base") is not None and isinstance(base, Arr):
                        out = base.copy()
                        out.dims = list(dims)
                    for f_ in e.get("fields") or []:
                        if f_.get("name") == "values" and self.prov:
                            vv_ = deref(self.ev(f_["e"], env))
                            out.vals = vv_ if isinstance(vv_, list) else None
                        if f_.get("name") == "children":
                            cv = deref(self.ev(f_["e"], env))
                            out.children = [deref(x) for x in cv] if isinstance(cv, list) else [UNK]
                        elif f_.get("name") == "backward_op":
                            bv = deref(self.ev(f_["e"], env))
                            out.bop = isinstance(bv, Some)
                    return out
                return UNK
            if adt.startswith("core::ops::range::Range"):
                fl_ = {f_["name"]: deref(self.ev(f_["e"], env)) for f_ in e.get("fields") or []}
                return ("range", fl_.get("start", 0), fl_.get("end"), adt.endswith("RangeInclusive"))
            return UNK
        if k == "Call":
            return self.call(e, env)
        if k == "NamedConst":
            if self.prov and (e.get("ty") or "") in FLOATY:
                return PF(frozenset())          # a constant of the float type: computed from no input element
            return UNK
        if k == "FnItem":
            fn_ = e.get("fn") or {}
            pth = fn_.get("path") or ""
            if fn_.get("resolved_local") or fn_.get("local"):
                lb = self.facts.body(fn_.get("resolved") or pth)
                if lb is not None and lb.get("thir"):
                    return ("localfn", lb)
            if self.prov and (pth.startswith("core::ops::arith::") or ("<impl %s>" % self.fl) in pth or pth.startswith("core::cmp::")):
                return ("fnitem", pth)
            return UNK
        if k == "Let":
            raise Abort("let expression")
        return UNK

    def _panics(self, n):
        n = strip(n)
        if not isinstance(n, dict):
            return False
        if n.get("k") == "Call":
            return n.get("ty") == "!" or (callee(n) or "").startswith(("core::panicking::", "std::panicking::", "std::rt::"))
        if n.get("k") == "Block":
            for s in n["stmts"]:
                if s["s"] == "expr" and self._panics(s["e"]):
                    return True
            return n.get("e") is not None and self._panics(n["e"])
        return False

    def stmt(self, s, env):
        if s["s"] == "let":
            init = s.get("init")
            if init is None:
                for v, _, _, _ in F.pat_bindings(s["pat"]):
                    env.bind(v, UNK)
                return
            v = self.ev(init, env)
            if s.get("else") is not None:
                if not self.bind(s["pat"], v, env):
                    self.ev(s["else"], env)
                return
            if not self.bind(s["pat"], v, env):
                raise Abort("refutable let")
        else:
            self.ev(s["e"], env)

    def for_loop(self, fl, env):
        it_e, pat, body, _ = fl
        it = deref(self.ev(it_e, env))
        items = self.items(it)
        if items is None:
            raise Abort("loop over %r" % (type(it).__name__,))
        for x in items:
            env2 = Env(env)
            if not self.bind(pat, x, env2):
                raise Abort("loop pattern")
            try:
                self.ev(body, env2)
            except _Break:
                break
            except _Continue:
                continue
        return ()

    def items(self, it):
        it = deref(it)
        if isinstance(it, Cycle):
            raise Abort("an endless iterator is consumed")
        if isinstance(it, list):
            return it
        if isinstance(it, tuple) and it and it[0] == "range":
            a, b = it[1], it[2]
            if isinstance(a, int) and isinstance(b, int):
                if b - a > 5000:
                    raise Abort("range too long")
                return list(range(a, b + (1 if it[3] else 0)))
            return None
        if isinstance(it, FVec):
            if it.n is None or it.n > 5000:
                return None
            return [UNK] * it.n
        if isinstance(it, Some):
            return [it.v]
        if it is NONE:
            return []
        return None

    def equal(self, a, b):
        a, b = deref(a), deref(b)
        if a is UNK or b is UNK:
            return UNK
        if isinstance(a, (list, tuple)) and isinstance(b, (list, tuple)):
            if len(a) != len(b):
                return False
            out = True
            for x, y in zip(a, b):
                r = self.equal(x, y)
                if r is False:
                    return False
                if r is UNK:
                    out = UNK
            return out
        if isinstance(a, (int, bool)) and isinstance(b, (int, bool)):
            return a == b
        if isinstance(a, Some) and isinstance(b, Some):
            return self.equal(a.v, b.v)
        if a is NONE or b is NONE:
            return a is b
        return UNK

    def arith(self, op, l, r, node):
        if isinstance(l, PF) or isinstance(r, PF):
            return pf_join(l, r) if op in ("Add", "Sub", "Mul", "Div", "Rem") else UNK
        if l is UNK or r is UNK or not isinstance(l, int) or not isinstance(r, int) or isinstance(l, bool) or isinstance(r, bool):
            return UNK
        if op == "Add":
            return l + r
        if op == "Sub":
            if l - r < 0 and (node.get("ty") or "").startswith("u"):
                raise Panic(node)       # arithmetic underflow of an unsigned count
            return l - r
        if op == "Mul":
            return l * r
        if op == "Div":
            if r == 0:
                raise Panic(node)
            return l // r
        if op == "Rem":
            if r == 0:
                raise Panic(node)
            return l % r
        return UNK

    def binary(self, e, env):
        op = e["op"]
        l = deref(self.ev(e["l"], env))
        r = deref(self.ev(e["r"], env))
        if op in ("Eq", "Ne"):
            s = self.equal(l, r)
            if s is UNK:
                return UNK
            return s if op == "Eq" else (not s)
        if op in ("Lt", "Le", "Gt", "Ge"):
            if isinstance(l, int) and isinstance(r, int) and not isinstance(l, bool) and not isinstance(r, bool):
                return {"Lt": l < r, "Le": l <= r, "Gt": l > r, "Ge": l >= r}[op]
            if isinstance(l, (list, tuple)) and isinstance(r, (list, tuple)) and all(isinstance(x, int) for x in list(l) + list(r)):
                return {"Lt": list(l) < list(r), "Le": list(l) <= list(r), "Gt": list(l) > list(r), "Ge": list(l) >= list(r)}[op]
            return UNK
        if op in ("BitAnd", "BitOr") and isinstance(l, bool) and isinstance(r, bool):
            return (l and r) if op == "BitAnd" else (l or r)
        t = e.get("ty") or ""
        if t in FLOATY:
            return pf_join(l, r) if (self.prov and op in ("Add", "Sub", "Mul", "Div", "Rem")) else UNK
        return self.arith(op, l, r, e)

    def index(self, base, i, node):
        if base is UNK or i is UNK:
            return UNK
        if isinstance(base, FVec):
            if isinstance(i, tuple) and i and i[0] == "range":
                a = i[1] if isinstance(i[1], int) else 0
                b = i[2] if isinstance(i[2], int) else base.n
                if isinstance(a, int) and isinstance(b, int):
                    return FVec(max(0, b - a + (1 if i[3] else 0)))
                return FVec(None)
            return UNK
        if isinstance(base, (list, tuple)):
            if isinstance(i, int) and not isinstance(i, bool):
                if i < 0 or i >= len(base):
                    raise Panic(node)
                return base[i]
            if isinstance(i, tuple) and i and i[0] == "range":
                a = i[1] if i[1] is not None else 0
                b = i[2] if i[2] is not None else len(base)
                if not (isinstance(a, int) and isinstance(b, int)):
                    return UNK
                if i[3]:
                    b += 1
                if a > b or b > len(base):
                    raise Panic(node)
                return SliceList(base[a:b], base, a) if isinstance(base, list) else list(base[a:b])
        return UNK

    # ------------------------------------------------------------------ calls
    def call(self, e, env):
        c = callee(e) or ""
        r = resolved(e) or ""
        args = e["args"]
        tail = c.rsplit("::", 1)[-1]
        cal = e.get("callee") or {}
        # ---- diverging
        if e.get("ty") == "!" or c.startswith(("core::panicking::", "std::panicking::", "std::rt::begin_panic")):
            raise Panic(e)
        # ---- closures
        if c in ("core::ops::function::Fn::call", "core::ops::function::FnMut::call_mut", "core::ops::function::FnOnce::call_once") and len(args) == 2:
            f = deref(self.ev(args[0], env))
            tup = self.ev(args[1], env)
            return self.apply(f, list(tup) if isinstance(tup, tuple) else [tup])
        # ---- arrays
        if r in SELF_RETURNING or r == "<%s as core::clone::Clone>::clone" % ARRAY:
            a0 = deref(self.ev(args[0], env))
            for a in args[1:]:
                self.ev(a, env)
            if isinstance(a0, Arr):
                return a0.copy()
            return UNK
        if r in ("corgi::array::Array::dimensions",):
            a0 = deref(self.ev(args[0], env))
            return a0.dims if isinstance(a0, Arr) else UNK
        if r in ("corgi::array::Array::values",):
            a0 = deref(self.ev(args[0], env))
            if isinstance(a0, Arr) and self.prov and isinstance(a0.vals, list):
                return a0.vals
            if isinstance(a0, Arr):
                n_ = 1
                for d in a0.dims:
                    n_ *= d
                return FVec(n_)
            return UNK
        if c.startswith("core::cell::Cell::<T>::") and args:
            a0 = self.ev(args[0], env)
            if isinstance(a0, tuple) and len(a0) == 3 and a0[0] == "cell":
                if tail == "get":
                    return getattr(a0[1], a0[2])
                if tail in ("set", "replace") and len(args) > 1:
                    old = getattr(a0[1], a0[2])
                    v = deref(self.ev(args[1], env))
                    if isinstance(v, bool):
                        setattr(a0[1], a0[2], v)
                    return old if tail == "replace" else ()
            return UNK
        # ---- crate-local functions
        if cal.get("resolved_local") and r:
            b = self.facts.body(r)
            if b is not None and b.get("thir"):
                vals = [self.ev(a, env) for a in args]
                return self.call_fn(b, vals)
            return UNK
        # ---- value-preserving
        if c in PASS_THROUGH or r in PASS_THROUGH:
            if not args:
                return UNK
            v = self.ev(args[0], env)
            dv = deref(v)
            if tail in ("clone", "to_owned", "to_vec", "into_vec", "collect") and isinstance(dv, list):
                return [deref(x) if tail != "collect" else x for x in dv]
            if tail in ("clone", "to_owned") and isinstance(dv, Arr):
                return dv.copy()
            if tail in ("iter", "into_iter", "copied", "cloned") and isinstance(dv, tuple) and dv and dv[0] == "range":
                return self.items(dv)
            if tail in ("copied", "cloned") and isinstance(dv, list):
                return [deref(x) for x in dv]
            if tail in ("iter", "into_iter") and isinstance(dv, list):
                return list(dv)         # a fresh iterator: consuming it (next) leaves the collection alone
            return v if tail in ("deref_mut", "borrow_mut", "as_mut", "as_mut_slice") else dv
        return self.std(e, c, tail, args, env)

    def std(self, e, c, tail, args, env):
        A = lambda i: deref(self.ev(args[i], env))
        # ---- functions of numbers (provenance mode): the result is computed from all of its arguments
        if self.prov and (("<impl %s>" % self.fl) in c) and args:
            return pf_join(*[A(i) for i in range(len(args))])
        # ---- constructors of collections
        if c in ("alloc::vec::Vec::<T>::new", "alloc::vec::Vec::<T>::with_capacity"):
            for a in args:
                self.ev(a, env)
            if self.prov:
                return []
            return FVec(0) if any(x in (e.get("ty") or "") for x in FLOATY) and "Array" not in (e.get("ty") or "") else []
        if c == "alloc::vec::from_elem" and len(args) == 2:
            x, n = A(0), A(1)
            if isinstance(n, int):
                if self.prov and isinstance(x, PF):
                    return [PF(x.s) for _ in range(n)]
                if x is UNK or any(t in (strip(args[0]).get("ty") or "") for t in FLOATY):
                    return FVec(n)
                return [x] * n
            return UNK
        if c.endswith("box_assume_init_into_vec_unsafe") or c.endswith("::write_box_via_move"):
            return A(len(args) - 1)
        # ---- lengths
        if tail in ("len", "count") and args and (c.startswith(("alloc::vec::Vec", "core::slice::", "core::iter::")) or "ExactSizeIterator" in c):
            v = A(0)
            if isinstance(v, (list, tuple)) and not (isinstance(v, tuple) and v and v[0] == "range"):
                return len(v)
            if isinstance(v, FVec):
                return v.n if v.n is not None else UNK
            return UNK
        if tail == "is_empty" and args:
            v = A(0)
            if isinstance(v, list):
                return len(v) == 0
            if isinstance(v, FVec) and v.n is not None:
                return v.n == 0
            return UNK
        # ---- vector mutation
        if c.startswith("alloc::vec::Vec::<T, A>::") and args:
            v = A(0)
            if tail == "push" and len(args) == 2:
                x = self.ev(args[1], env)
                if isinstance(v, list):
                    v.append(deref(x))
                elif isinstance(v, FVec) and v.n is not None:
                    v.n += 1
                return ()
            if tail == "pop":
                if isinstance(v, list):
                    return Some(v.pop()) if v else NONE
                if isinstance(v, FVec):
                    v.n = (v.n - 1) if isinstance(v.n, int) and v.n > 0 else (v.n if v.n == 0 else None)
                return UNK
            if tail == "truncate" and len(args) == 2:
                n = A(1)
                if isinstance(v, list) and isinstance(n, int):
                    del v[n:]
                elif isinstance(v, FVec):
                    v.n = min(v.n, n) if isinstance(n, int) and isinstance(v.n, int) else None
                return ()
            if tail == "insert" and len(args) == 3:
                i, x = A(1), A(2)
                if isinstance(v, list) and isinstance(i, int):
                    if i > len(v):
                        raise Panic(e)
                    v.insert(i, x)
                elif isinstance(v, FVec):
                    v.n = (v.n + 1) if isinstance(v.n, int) else None
                return ()
            if tail == "remove" and len(args) == 2:
                i = A(1)
                if isinstance(v, list) and isinstance(i, int):
                    if i >= len(v):
                        raise Panic(e)
                    return v.pop(i)
                if isinstance(v, FVec):
                    v.n = (v.n - 1) if isinstance(v.n, int) and v.n > 0 else None
                return UNK
            if tail in ("extend", "extend_from_slice", "append") and len(args) == 2:
                x = self.items(A(1))
                if isinstance(v, list) and x is not None:
                    v.extend(deref(y) for y in x)
                elif isinstance(v, FVec):
                    v.n = None
                return ()
            if tail == "drain" and len(args) == 2:
                rg = A(1)
                if isinstance(v, list) and isinstance(rg, tuple) and rg and rg[0] == "range":
                    a = rg[1] if isinstance(rg[1], int) else 0
                    b = rg[2] if isinstance(rg[2], int) else len(v)
                    if a > b or b > len(v):
                        raise Panic(e)
                    out = v[a:b]
                    del v[a:b]
                    return out
                return UNK
            if tail == "clear":
                if isinstance(v, list):
                    del v[:]
                elif isinstance(v, FVec):
                    v.n = 0
                return ()
            if tail == "reverse":
                if isinstance(v, list):
                    v.reverse()
                return ()
            if tail == "resize" and len(args) == 3:
                n, x = A(1), A(2)
                if isinstance(v, list) and isinstance(n, int):
                    if n < len(v):
                        del v[n:]
                    else:
                        v.extend([x] * (n - len(v)))
                elif isinstance(v, FVec):
                    v.n = n if isinstance(n, int) else None
                return ()
            if tail == "split_off" and len(args) == 2:
                n = A(1)
                if isinstance(v, list) and isinstance(n, int):
                    if n > len(v):
                        raise Panic(e)
                    out = v[n:]
                    del v[n:]
                    return out
                return UNK
        if c == "core::iter::traits::collect::Extend::extend" and len(args) == 2:
            v = A(0)
            x = self.items(A(1))
            if isinstance(v, list) and x is not None:
                v.extend(deref(y) for y in x)
            elif isinstance(v, FVec):
                v.n = None
            return ()
        # ---- slices
        if c.startswith("core::slice::<impl [T]>::") and args:
            v = A(0)
            if tail == "iter_mut":
                if isinstance(v, list):
                    return [cell_ref(v, i) for i in range(len(v))]
                return v if isinstance(v, FVec) else UNK
            if tail in ("first", "last"):
                if isinstance(v, list):
                    return Some(v[0 if tail == "first" else -1]) if v else NONE
                return UNK
            if tail in ("first_mut", "last_mut"):
                if isinstance(v, list):
                    return Some(cell_ref(v, 0 if tail == "first_mut" else len(v) - 1)) if v else NONE
                return UNK
            if tail == "split_first":
                if isinstance(v, list):
                    return Some((v[0], v[1:])) if v else NONE
                return UNK
            if tail == "split_last":
                if isinstance(v, list):
                    return Some((v[-1], v[:-1])) if v else NONE
                return UNK
            if tail == "split_at" and len(args) == 2:
                n = A(1)
                if isinstance(v, list) and isinstance(n, int):
                    if n > len(v):
                        raise Panic(e)
                    return (v[:n], v[n:])
                return UNK
            if tail == "contains" and len(args) == 2:
                x = A(1)
                if isinstance(v, list) and isinstance(x, int):
                    return any(deref(y) == x for y in v)
                return UNK
            if tail in ("starts_with", "ends_with") and len(args) == 2:
                x = A(1)
                if isinstance(v, list) and isinstance(x, list):
                    if len(x) > len(v):
                        return False
                    return (v[:len(x)] == x) if tail == "starts_with" else (len(x) == 0 or v[-len(x):] == x)
                return UNK
            if tail == "get" and len(args) == 2:
                i = A(1)
                if isinstance(v, list) and isinstance(i, int):
                    return Some(v[i]) if 0 <= i < len(v) else NONE
                return UNK
            if tail in ("windows", "chunks", "chunks_exact", "chunks_mut", "chunks_exact_mut", "rchunks") and len(args) == 2 and isinstance(v, FVec):
                n = A(1)
                if isinstance(n, int) and n > 0 and v.n is not None:
                    if tail == "windows":
                        return [FVec(n)] * max(0, v.n - n + 1)
                    full, rest = divmod(v.n, n)
                    return [FVec(n)] * full + ([FVec(rest)] if rest and "exact" not in tail else [])
                if n == 0:
                    raise Panic(e)
                return UNK
            if tail in ("chunks_mut", "chunks_exact_mut") and len(args) == 2 and isinstance(v, list):
                n = A(1)
                if isinstance(n, int) and n > 0:
                    out = [SliceList(v[i:i + n], v, i) for i in range(0, len(v), n)]
                    if tail == "chunks_exact_mut" and out and len(out[-1]) != n:
                        out.pop()
                    return out
                if n == 0:
                    raise Panic(e)
                return UNK
            if tail in ("windows", "chunks", "chunks_exact") and len(args) == 2:
                n = A(1)
                if isinstance(v, list) and isinstance(n, int) and n > 0:
                    if tail == "windows":
                        return [v[i:i + n] for i in range(0, max(0, len(v) - n + 1))]
                    out = [v[i:i + n] for i in range(0, len(v), n)]
                    if tail == "chunks_exact" and out and len(out[-1]) != n:
                        out.pop()
                    return out
                return UNK
            if tail == "concat":
                if isinstance(v, list) and all(isinstance(x, list) for x in v):
                    return [y for x in v for y in x]
                return UNK
            if tail in ("copy_from_slice", "clone_from_slice") and len(args) == 2:
                src_ = A(1)
                if isinstance(v, (FVec, _Unknown)) or isinstance(src_, FVec):
                    return ()
                if isinstance(v, list) and isinstance(src_, list):
                    if len(v) != len(src_):
                        raise Panic(e)
                    for i_, x_ in enumerate(src_):
                        if isinstance(v, SliceList):
                            v.write(i_, deref(x_))
                        else:
                            v[i_] = deref(x_)
                    return ()
                raise Abort("unmodelled slice copy")
            if tail == "fill" and len(args) == 2:
                x_ = A(1)
                if isinstance(v, (FVec, _Unknown)):
                    return ()
                if isinstance(v, list):
                    for i_ in range(len(v)):
                        if isinstance(v, SliceList):
                            v.write(i_, x_)
                        else:
                            v[i_] = x_
                    return ()
                raise Abort("unmodelled fill")
            if tail == "swap" and len(args) == 3:
                i_, j_ = A(1), A(2)
                if isinstance(v, (FVec, _Unknown)):
                    return ()
                if isinstance(v, list) and isinstance(i_, int) and isinstance(j_, int):
                    if i_ >= len(v) or j_ >= len(v):
                        raise Panic(e)
                    a_, b_ = v[i_], v[j_]
                    if isinstance(v, SliceList):
                        v.write(i_, b_)
                        v.write(j_, a_)
                    else:
                        v[i_], v[j_] = b_, a_
                    return ()
                raise Abort("unmodelled swap")
            if tail in ("sort", "sort_unstable", "reverse", "rotate_left", "rotate_right", "sort_by", "sort_by_key", "sort_unstable_by", "iter_mut_placeholder"):
                if isinstance(v, (FVec, _Unknown)):
                    return ()
                raise Abort("unmodelled in-place slice operation %s" % tail)
        # ---- options
        if c.startswith("core::option::Option::<") and args:
            v = A(0)
            if v is UNK:
                return UNK
            if tail in ("unwrap", "expect"):
                if v is NONE:
                    raise Panic(e)
                return v.v if isinstance(v, Some) else UNK
            if tail in ("is_some", "is_none"):
                return (v is not NONE) == (tail == "is_some")
            if tail in ("copied", "cloned", "as_ref", "as_mut", "as_deref"):
                return Some(deref(v.v)) if isinstance(v, Some) and tail in ("copied", "cloned") else v
            if tail == "unwrap_or" and len(args) == 2:
                return v.v if isinstance(v, Some) else A(1)
            if tail == "unwrap_or_else" and len(args) == 2:
                return v.v if isinstance(v, Some) else self.apply(A(1), [])
            if tail == "unwrap_or_default":
                return v.v if isinstance(v, Some) else 0
            if tail == "map" and len(args) == 2:
                return Some(self.apply(A(1), [v.v])) if isinstance(v, Some) else NONE
            if tail == "map_or" and len(args) == 3:
                return self.apply(A(2), [v.v]) if isinstance(v, Some) else A(1)
            if tail == "map_or_else" and len(args) == 3:
                return self.apply(A(2), [v.v]) if isinstance(v, Some) else self.apply(A(1), [])
            if tail in ("is_some_and", "is_none_or") and len(args) == 2:
                if isinstance(v, Some):
                    return deref(self.apply(A(1), [v.v]))
                return tail == "is_none_or"
            if tail == "filter" and len(args) == 2:
                if isinstance(v, Some):
                    t = deref(self.apply(A(1), [v.v]))
                    if t is UNK:
                        raise Abort("filter on unknown")
                    return v if t else NONE
                return NONE
            if tail in ("and_then",) and len(args) == 2:
                return self.apply(A(1), [v.v]) if isinstance(v, Some) else NONE
            if tail in ("iter", "into_iter"):
                return [v.v] if isinstance(v, Some) else []
            return UNK
        # ---- integers
        if c.startswith("core::num::<impl usize>::") or c.startswith("core::num::<impl u") or c.startswith("core::num::<impl i"):
            a = A(0) if args else UNK
            b = A(1) if len(args) > 1 else None
            if not isinstance(a, int) or (b is not None and not isinstance(b, int)):
                return UNK
            if tail == "saturating_sub":
                return max(0, a - b)
            if tail in ("saturating_add", "wrapping_add"):
                return a + b
            if tail == "wrapping_sub":
                return a - b if a >= b else UNK
            if tail == "checked_sub":
                return Some(a - b) if a >= b else NONE
            if tail == "checked_div":
                return Some(a // b) if b else NONE
            if tail == "checked_add":
                return Some(a + b)
            if tail == "checked_mul":
                return Some(a * b)
            if tail == "div_ceil":
                if b == 0:
                    raise Panic(e)
                return -(-a // b)
            if tail == "pow":
                return a ** b
            if tail == "abs_diff":
                return abs(a - b)
            if tail == "min":
                return min(a, b)
            if tail == "max":
                return max(a, b)
            if tail == "is_power_of_two":
                return a > 0 and (a & (a - 1)) == 0
            return UNK
        if c in ("core::cmp::max", "core::cmp::min", "core::cmp::Ord::max", "core::cmp::Ord::min") and len(args) == 2:
            a, b = A(0), A(1)
            if isinstance(a, int) and isinstance(b, int):
                return max(a, b) if tail == "max" else min(a, b)
            return UNK
        if c in ("core::cmp::PartialEq::eq", "core::cmp::PartialEq::ne") and len(args) == 2:
            s = self.equal(A(0), A(1))
            if s is UNK:
                return UNK
            return s if tail == "eq" else (not s)
        if c in ("core::cmp::PartialOrd::lt", "core::cmp::PartialOrd::le", "core::cmp::PartialOrd::gt", "core::cmp::PartialOrd::ge") and len(args) == 2:
            a, b = A(0), A(1)
            if isinstance(a, int) and isinstance(b, int):
                return {"lt": a < b, "le": a <= b, "gt": a > b, "ge": a >= b}[tail]
            return UNK
        if c in ("core::ops::arith::Add::add", "core::ops::arith::Sub::sub", "core::ops::arith::Mul::mul", "core::ops::arith::Div::div", "core::ops::arith::Rem::rem") and len(args) == 2:
            return self.arith(tail.capitalize(), A(0), A(1), e)
        if c == "core::ops::arith::Neg::neg" and len(args) == 1:
            v_ = A(0)
            return v_ if isinstance(v_, PF) else ((-v_) if isinstance(v_, int) and not isinstance(v_, bool) else UNK)
        if c in ("core::ops::arith::AddAssign::add_assign", "core::ops::arith::SubAssign::sub_assign", "core::ops::arith::MulAssign::mul_assign", "core::ops::arith::DivAssign::div_assign") and len(args) == 2:
            tgt = self.ev(args[0], env, want_ref=True)
            cur, rhs = deref(tgt), A(1)
            newv = self.arith(tail.split("_")[0].capitalize(), cur, rhs, e)
            if isinstance(tgt, (Ref, VarCell)):
                tgt.set(newv)
                return ()
            raise Abort("compound assignment through %s" % type(tgt).__name__)
        if c == "core::ops::bit::Not::not" and args:
            v = A(0)
            return (not v) if isinstance(v, bool) else UNK
        if c in ("core::ops::index::Index::index", "core::ops::index::IndexMut::index_mut") and len(args) == 2:
            base, i = A(0), A(1)
            if tail == "index_mut" and isinstance(base, list) and isinstance(i, int):
                if i >= len(base):
                    raise Panic(e)
                return cell_ref(base, i)
            return self.index(base, i, e)
        # ---- iterator adaptors (materialised lists)
        if c.startswith(IT) or c.startswith("core::iter::traits::double_ended::DoubleEndedIterator::") or c.startswith("core::iter::traits::exact_size::"):
            return self.iterator(e, c, tail, args, env)
        if c in ("core::iter::sources::once::once",) and args:
            return [self.ev(args[0], env)]
        if c in ("core::iter::sources::repeat::repeat", "core::iter::sources::repeat_n::repeat_n"):
            if tail == "repeat_n" and len(args) == 2 and isinstance(A(1), int):
                return [A(0)] * A(1)
            return UNK
        if c in ("core::mem::swap", "core::mem::replace", "core::mem::take"):
            raise Abort("mem::%s" % tail)
        if c in ("core::mem::drop", "core::hint::black_box"):
            return ()
        # anything else: its arguments are evaluated for their effects, the result is unknown; if it could change shape data in place
        # (a `&mut` argument that is not element data), nothing after it can be trusted
        for a in args:
            try:
                av = deref(self.ev(a, env))
            except Abort:
                av = UNK
            at = (strip(a).get("ty") or "") if isinstance(strip(a), dict) else ""
            if at.startswith("&mut ") and isinstance(av, (list, Arr)) and not any(x in at for x in FLOATY):
                raise Abort("unmodelled call %s with a mutable argument" % c)
        return UNK

    def iterator(self, e, c, tail, args, env):
        src = deref(self.ev(args[0], env))
        if isinstance(src, FVec):
            # element data: only the length survives
            if tail in ("map", "copied", "cloned", "rev", "inspect", "enumerate", "by_ref", "peekable"):
                return FVec(src.n)
            if tail == "zip" and len(args) == 2:
                o = deref(self.ev(args[1], env))
                on = o.n if isinstance(o, FVec) else (len(o) if isinstance(o, list) else None)
                return FVec(min(src.n, on) if src.n is not None and on is not None else None)
            if tail in ("take", "skip") and len(args) == 2:
                n = deref(self.ev(args[1], env))
                if isinstance(n, int) and src.n is not None:
                    return FVec(min(src.n, n) if tail == "take" else max(0, src.n - n))
                return FVec(None)
            if tail == "step_by" and len(args) == 2:
                n = deref(self.ev(args[1], env))
                if isinstance(n, int) and n > 0 and src.n is not None:
                    return FVec((src.n + n - 1) // n)
                return FVec(None)
            if tail == "chain" and len(args) == 2:
                o = deref(self.ev(args[1], env))
                on = o.n if isinstance(o, FVec) else None
                return FVec(src.n + on if src.n is not None and on is not None else None)
            if tail in ("collect",):
                return FVec(src.n)
            if tail in ("count",):
                return src.n if src.n is not None else UNK
            if tail == "for_each":
                return ()
            return UNK
        if isinstance(src, Cycle):
            if tail == "take" and len(args) == 2:
                n = deref(self.ev(args[1], env))
                if isinstance(n, int):
                    return [src[i % len(src)] for i in range(n)]
                return UNK
            if tail in ("copied", "cloned", "by_ref"):
                return src
            raise Abort("an endless iterator is used by %s" % tail)
        items = self.items(src)
        if items is None:
            if tail == "for_each":
                raise Abort("for_each over unknown")
            return UNK
        if tail == "rev":
            return list(reversed(items))
        if tail == "enumerate":
            return [(i, x) for i, x in enumerate(items)]
        if tail == "zip" and len(args) == 2:
            o = deref(self.ev(args[1], env))
            if isinstance(o, Cycle):
                return [(x, o[i % len(o)]) for i, x in enumerate(items)]
            oi = self.items(o)
            if oi is None:
                return UNK
            return [(x, y) for x, y in zip(items, oi)]
        if tail == "chain" and len(args) == 2:
            oi = self.items(deref(self.ev(args[1], env)))
            if oi is None:
                return UNK
            return list(items) + list(oi)
        if tail in ("skip", "take", "step_by", "nth") and len(args) == 2:
            n = deref(self.ev(args[1], env))
            if not isinstance(n, int):
                return UNK
            if tail == "skip":
                return list(items[n:])
            if tail == "take":
                return list(items[:n])
            if tail == "step_by":
                if n == 0:
                    raise Panic(e)
                return list(items[::n])
            return Some(items[n]) if n < len(items) else NONE
        if tail in ("map", "filter", "all", "any", "for_each", "position", "find", "take_while", "skip_while", "filter_map", "flat_map", "inspect", "max_by_key", "min_by_key", "find_map", "map_while") and len(args) == 2:
            f = deref(self.ev(args[1], env))
            if not isinstance(f, Clo):
                return UNK
            out = []
            if tail in ("all", "any"):
                res = (tail == "all")
                unk = False
                for x in items:
                    t = deref(self.apply(f, [x]))
                    if t is UNK:
                        unk = True
                        continue
                    if t == (tail == "any"):
                        return tail == "any"
                return UNK if unk else res
            if tail == "for_each":
                for x in items:
                    self.apply(f, [x])
                return ()
            if tail == "inspect":
                return list(items)
            if tail == "map":
                return [self.apply(f, [x]) for x in items]
            if tail == "flat_map":
                for x in items:
                    sub = self.items(deref(self.apply(f, [x])))
                    if sub is None:
                        return UNK
                    out.extend(sub)
                return out
            if tail in ("filter_map", "find_map", "map_while"):
                for x in items:
                    t = deref(self.apply(f, [x]))
                    if t is UNK:
                        raise Abort("%s on unknown" % tail)
                    if isinstance(t, Some):
                        if tail == "find_map":
                            return t
                        out.append(t.v)
                    elif tail == "map_while":
                        break
                return NONE if tail == "find_map" else out
            if tail in ("max_by_key", "min_by_key"):
                keys = [deref(self.apply(f, [x])) for x in items]
                if not items:
                    return NONE
                if any(not isinstance(k_, int) for k_ in keys):
                    return UNK
                best = 0
                for i in range(1, len(items)):
                    if (tail == "max_by_key" and keys[i] >= keys[best]) or (tail == "min_by_key" and keys[i] < keys[best]):
                        best = i
                return Some(items[best])
            for i, x in enumerate(items):
                t = deref(self.apply(f, [x]))
                if t is UNK:
                    raise Abort("%s on unknown" % tail)
                if tail == "filter" and t:
                    out.append(x)
                elif tail == "position" and t:
                    return Some(i)
                elif tail == "find" and t:
                    return Some(x)
                elif tail == "take_while":
                    if not t:
                        break
                    out.append(x)
                elif tail == "skip_while":
                    if not t:
                        out = list(items[i:])
                        break
            if tail in ("position", "find"):
                return NONE
            return out
        if tail == "fold" and len(args) == 3:
            acc = self.ev(args[1], env)
            f = deref(self.ev(args[2], env))
            for x in items:
                acc = self.apply(f, [acc, x])
            return acc
        if tail in ("product", "sum"):
            vals = [deref(x) for x in items]
            if self.prov and vals and all(isinstance(x, PF) for x in vals):
                return pf_join(*vals)
            if self.prov and not vals and any(t in (e.get("ty") or "") for t in FLOATY):
                return PF(frozenset())
            if any(not isinstance(x, int) or isinstance(x, bool) for x in vals):
                return UNK
            out = 1 if tail == "product" else 0
            for x in vals:
                out = out * x if tail == "product" else out + x
            return out
        if tail in ("max", "min"):
            vals = [deref(x) for x in items]
            if not vals:
                return NONE
            if any(not isinstance(x, int) for x in vals):
                return UNK
            return Some(max(vals) if tail == "max" else min(vals))
        if tail == "count":
            return len(items)
        if tail == "last":
            return Some(items[-1]) if items else NONE
        if tail == "next":
            if isinstance(src, list):
                return Some(src.pop(0)) if src else NONE
            raise Abort("manual iteration")
        if tail in ("eq", "ne") and len(args) == 2:
            oi = self.items(deref(self.ev(args[1], env)))
            if oi is None:
                return UNK
            s = self.equal([deref(x) for x in items], [deref(x) for x in oi])
            if s is UNK:
                return UNK
            return s if tail == "eq" else (not s)
        if tail in ("len",):
            return len(items)
        if tail in ("unzip",):
            return ([x[0] for x in items], [x[1] for x in items])
        if tail in ("cycle",):
            if not items:
                raise Abort("cycle of an empty iterator")
            return Cycle(items)
        if tail in ("flatten",):
            out = []
            for x in items:
                sub = self.items(deref(x))
                if sub is None:
                    return UNK
                out.extend(sub)
            return out
        return UNK


def _freeze(v):
    v = deref(v)
    if v is UNK:
        return ("?",)
    if isinstance(v, bool) or isinstance(v, int) or isinstance(v, str):
        return v
    if isinstance(v, Arr):
        return ("A", tuple(_freeze(d) for d in v.dims), v.tracked, v.keep, v.uid, bool(v.bop), tuple(_freeze(c_) for c_ in v.children))
    if isinstance(v, FVec):
        return ("F", v.n)
    if isinstance(v, list):
        return ("L",) + tuple(_freeze(x) for x in v)
    if isinstance(v, tuple):
        return ("T",) + tuple(_freeze(x) for x in v)
    if isinstance(v, Some):
        return ("S", _freeze(v.v))
    if isinstance(v, Clo):
        # a kernel over element data is never entered and a derivative closure is never invoked by a forward evaluation: which one it is
        # cannot influence the shape result; any other closure can, so calls that receive one are not remembered
        ins_ = v.body.get("closure_inputs") or []
        if any(any(x in (t_ or "") for x in FLOATY) for t_ in ins_) or (len(ins_) == 3 and "bool" in (ins_[1] or "") and ARRAY in (ins_[0] or "")):
            return ("C", v.body["def"])
        raise TypeError("closure")
    raise TypeError("unfreezable %s" % type(v).__name__)


def _thaw(v):
    if isinstance(v, tuple) and v:
        if v[0] == "?":
            return UNK
        if v[0] == "A":
            o_ = Arr([_thaw(d) for d in v[1]], v[2], v[4])
            o_.keep, o_.bop, o_.children = v[3], v[5], [_thaw(c_) for c_ in v[6]]
            return o_
        if v[0] == "F":
            return FVec(v[1])
        if v[0] == "L":
            return [_thaw(x) for x in v[1:]]
        if v[0] == "T":
            return tuple(_thaw(x) for x in v[1:])
        if v[0] == "S":
            return Some(_thaw(v[1]))
        if v[0] == "C":
            return UNK
    if v == ():
        return ()
    return v


_MEMO = {}


def backward_provenance(facts, result, budget=400000):
    """the recorded derivative closures of `result`'s graph applied to an adjoint whose element q has provenance {('D', q)}, pushed down to the
    operands (every delivered slot reduced by the library's own flatten_to, contributions to one node joined): -> {operand uid: (list of
    provenance sets, dimensions) | 'unknown'}.  The scheduling of the engine (counters, order) is not modelled - other rules read it."""
    it = Interp(facts, budget, None, prov=True)
    ft = [b for b in facts.fns() if b.get("name") == "flatten_to" and b.get("impl_self") == ARRAY and b.get("impl_trait_def") is None]
    if len(ft) != 1:
        raise Abort("flatten_to not found")
    seed = Arr(result.dims)
    n_ = 1
    for d in result.dims:
        n_ *= d
    seed.vals = [PF(frozenset({("D", q)})) for q in range(n_)]
    pending = {id(result): (result, seed)}
    order = []
    seen = set()

    def visit(a):
        if id(a) in seen or not isinstance(a, Arr):
            return
        seen.add(id(a))
        for ch in a.children:
            visit(ch)
        order.append(a)
    visit(result)
    out = {}
    for node in reversed(order):
        ent = pending.get(id(node))
        if ent is None:
            continue
        _, delta = ent
        if node.children and not (isinstance(node.bop, Clo) or (isinstance(node.bop, tuple) and node.bop and node.bop[0] == "localfn")):
            raise Abort("a node of the graph records operands but its derivative is not a closure or function the analysis can enter")
        if not node.children:
            dv = delta.vals
            if not isinstance(dv, list) or any(not isinstance(deref(x), PF) for x in dv):
                out[node.uid] = "unknown"
            else:
                prev = out.get(node.uid)
                cur = [deref(x).s for x in dv]
                if isinstance(prev, tuple) and len(prev[0]) == len(cur):
                    cur = [a_ | b_ for a_, b_ in zip(prev[0], cur)]
                out[node.uid] = (cur, list(delta.dims))
            continue
        kids = list(node.children)
        flags = [bool(isinstance(k_, Arr) and k_.tracked) for k_ in kids]
        was = []
        for k_ in kids:
            if isinstance(k_, Arr):
                was.append(k_.tracked)
                k_.tracked = False      # the engine un-tracks the operands while their derivative runs
        try:
            slots = deref(it.apply(node.bop, [kids, flags, delta]))
        finally:
            for k_, w_ in zip([k for k in kids if isinstance(k, Arr)], was):
                k_.tracked = w_
        if not isinstance(slots, list):
            raise Abort("the derivative did not return a slot vector")
        for k_, sl in zip(kids, slots):
            sl = deref(sl)
            if sl is NONE or not isinstance(k_, Arr):
                continue
            if not isinstance(sl, Some) or not isinstance(deref(sl.v), Arr):
                raise Abort("a slot of the derivative is not an array")
            g = deref(sl.v)
            red = deref(it.call_fn(ft[0], [g, list(k_.dims)]))
            if not isinstance(red, Arr):
                raise Abort("flatten_to did not return an array")
            prev = pending.get(id(k_))
            if prev is not None and isinstance(prev[1].vals, list) and isinstance(red.vals, list) and len(prev[1].vals) == len(red.vals):
                merged = Arr(red.dims)
                merged.vals = [pf_join(a_, b_) for a_, b_ in zip(prev[1].vals, red.vals)]
                pending[id(k_)] = (k_, merged)
            else:
                pending[id(k_)] = (k_, red)
    return out


def run(facts, body, args, budget=60000, prov=False):
    """-> ('panic', node) | ('value', v) | ('unknown', why)"""
    if prov:
        _UID[0] = 100
        it = Interp(facts, max(budget, 400000), None, prov=True)
        try:
            return ("value", deref(it.call_fn(body, args)))
        except Panic as p:
            return ("panic", p.node)
        except Abort as a:
            return ("unknown", str(a))
        except (_Break, _Continue):
            return ("unknown", "stray break")
        except RecursionError:
            return ("unknown", "recursion")
    memo = _MEMO.setdefault(id(facts), {})
    # operands are numbered 1, 2, 3 ... by the caller; nodes created during this evaluation from 100: the same call on the same shapes
    # names its nodes the same way, so remembered results stay valid across grid points
    k_ = 0
    for a in args:
        for x in (a if isinstance(a, (tuple, list)) else (a,)):
            if isinstance(x, Arr):
                k_ += 1
                x.uid = k_
    _UID[0] = 100
    it = Interp(facts, budget, memo)
    try:
        v = it.call_fn(body, args)
        return ("value", deref(v))
    except Panic as p:
        return ("panic", p.node)
    except Abort as a:
        return ("unknown", str(a))
    except (_Break, _Continue):
        return ("unknown", "stray break")
    except RecursionError:
        return ("unknown", "recursion")
