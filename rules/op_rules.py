"""Per-operation rules: R8 ATTACH-IFF-TRACKED, R12 PARAM-DEPENDENCE, R13 LINEARITY,
R15 ACCUMULATE-ON-SCATTER, R21 FRESH-PARAMETER.  See DESIGN.md section 3."""

from . import facts as F
from . import trackeval as TE
from .core import Ctx
from .facts import ARRAY, callee, resolved, strip, peel, walk, loc, field_chain, var_of
from .show import show

BOP_MARK = "core::ops::function::Fn(&'a [corgi::array::Array], &'b [bool], &'c corgi::array::Array)"

WITH_CHILDREN = "corgi::array::Array::with_children"
WITH_BOP = "corgi::array::Array::with_backward_op"
SLICED_OP = "corgi::array::Array::sliced_op"

# attach primitives: the attachment decision is their caller's (all crate callers are judged)
ATTACH_PRIMITIVES = {
    "corgi::array::Array::with_children": "private builder: sets the edge list of the array under construction",
    "corgi::array::Array::sliced_op": "attach primitive: attaches iff the caller passes Some(backward_op); every crate caller is judged",
    "corgi::array::Array::op": "public custom-operation entry point: attachment is the caller's choice (documented as such)",
}


def is_none_literal(n):
    n = strip(n)
    return isinstance(n, dict) and n.get("k") == "Adt" and n["adt"] == "core::option::Option" and n["variant"] == "None"


def attachment_calls(b, facts):
    """Calls in b (not in nested closures) that may attach a graph."""
    out = []
    for n in walk(facts.root(b)):
        if n.get("k") != "Call":
            continue
        r = resolved(n)
        if r == WITH_CHILDREN:
            out.append(n)
        elif r == SLICED_OP:
            if not is_none_literal(n["args"][2]):
                out.append(n)
        else:
            c = n.get("callee") or {}
            if c.get("resolved_local") and any(BOP_MARK in (a.get("ty") or "") for a in n["args"] if isinstance(a, dict)):
                if r != WITH_BOP:
                    out.append(n)
    return out


def op_constructors(facts):
    out = []
    for b in facts.fns():
        if b["def"] in ATTACH_PRIMITIVES:
            continue
        out_ty = b.get("output") or ""
        if out_ty != ARRAY and not out_ty.endswith(">::Output"):
            continue                    # an operation constructor returns the array it builds
        if attachment_calls(b, facts):
            out.append(b)
    return out


def r8_attach_iff_tracked(facts):
    """R8: result attached/tracked iff some recorded operand is tracked (exhaustive Boolean evaluation)."""
    c = Ctx("R8", facts, "result tracked iff some operand tracked; untracked result records nothing")
    ctors = op_constructors(facts)
    c.floor("operation constructors (functions that attach a graph)", len(ctors), 17)
    total_rows = 0
    n_prim = 0
    for d, why in ATTACH_PRIMITIVES.items():
        b = facts.body(d)
        if b is None:
            continue
        where = "%s:%d" % (F.rel(b["file"]), b["sp"][0])
        if not TE.derivative_params(facts, b):
            c.ok("primitive:%s" % d, where, "exception table: " + why, nontrivial=False)
            continue
        # an attach primitive (operand slice + optional derivative): whenever a derivative is supplied and some operand is
        # tracked, the result must be attached and record every operand, in order; without a derivative nothing is recorded
        n_prim += 1
        inst = "primitive:%s" % d
        rows, variables, err = TE.evaluate_constructor(facts, b, primitive=True)
        if rows is None:
            c.unk(inst, where, "guard outside the Boolean fragment: %s" % err)
            continue
        ops = TE.operand_params(facts, b)
        names = []
        for name, kind, _ in ops:
            names.extend(["%s[%d]" % (name, i) for i in range(TE.SLICE_LEN)] if kind == "slice" else [name])
        dnames = [n_ for n_, _ in TE.derivative_params(facts, b)]
        problems = []
        for asg, res, e, consulted in rows:
            total_rows += 1
            have = all(asg[("P", n_)] for n_ in dnames)
            tracked = [n_ for n_ in names if asg.get(("T", n_))]
            label = "derivative %s, tracked operands %s" % ("supplied" if have else "absent", tracked or "none")
            if e is not None:
                problems.append(("unclassified", "%s: %s" % (label, e)))
                continue
            if have and tracked:
                if not isinstance(res, TE.Arr) or res.same is not None:
                    problems.append(("unclassified", "%s: result not modelled" % label))
                elif not res.tracked:
                    problems.append(("violated", "%s: the result is not attached, the path to %s is silently dropped" % (label, tracked)))
                elif [k for k in (res.children or [])] != names:
                    problems.append(("violated", "%s: recorded operands %s differ from the operands %s (order / multiplicity matter: slot i of the derivative belongs to operand i)"
                                     % (label, res.children, names)))
            elif not have and isinstance(res, TE.Arr) and res.same is None and (res.tracked or [k for k in (res.children or []) if k is not None]):
                problems.append(("violated", "%s: a graph is attached without a derivative" % label))
        if problems:
            kind = "violated" if any(p[0] == "violated" for p in problems) else "unclassified"
            msg = "; ".join(sorted({p[1] for p in problems if p[0] == kind}))[:600]
            (c.bad if kind == "violated" else c.unk)(inst, where, msg)
        else:
            c.ok(inst, where, "attach primitive: derivative supplied and some operand tracked => attached with all %d modelled operands in order; no derivative => nothing recorded (%d assignments)"
                 % (len(names), len(rows)))
    c.floor("attach primitives taking an optional derivative", n_prim, 2)
    for b in ctors:
        where = "%s:%d" % (F.rel(b["file"]), b["sp"][0])
        inst = "op:%s" % b["def"]
        rows, variables, err = TE.evaluate_constructor(facts, b)
        if rows is None:
            c.unk(inst, where, "guard outside the Boolean fragment: %s" % err)
            continue
        ops = TE.operand_params(facts, b)
        bad_kinds = [o for o in ops if o[1].startswith("other") or o[1] == "slice"]
        if bad_kinds:
            c.unk(inst, where, "parameter carries arrays in a form the evaluator does not model: %s" % [(o[0], o[1]) for o in bad_kinds])
            continue
        table = []
        problems = []
        for asg, res, e, consulted in rows:
            total_rows += 1
            present = [name for name, kind, _ in ops if kind != "opt" or asg[("P", name)]]
            any_tracked = any(asg[("T", name)] for name in present)
            row = {"assignment": {"%s(%s)" % (k[0], k[1]) if k[0] in "TP" else k[1][:60]: v for k, v in asg.items()}}
            if e is not None:
                row["result"] = "unclassified: " + e
                problems.append(("unclassified", row, e))
                table.append(row)
                continue
            if not isinstance(res, TE.Arr):
                row["result"] = "unclassified value " + type(res).__name__ + " " + getattr(res, "why", "")
                problems.append(("unclassified", row, "the returned value is not modelled (%s %s)" % (type(res).__name__, getattr(res, "why", ""))))
                table.append(row)
                continue
            if res.same is not None:
                row["result"] = "the operand %s itself" % res.same
                table.append(row)
                continue
            kids = [k for k in (res.children or []) if k is not None]
            row["result"] = "tracked=%s children=%s" % (res.tracked, res.children)
            table.append(row)
            if res.tracked != any_tracked:
                if any_tracked:
                    problems.append(("violated", row, "operand(s) %s tracked but the result is not attached: their gradient is silently dropped"
                                     % [n for n in present if asg[("T", n)]]))
                else:
                    problems.append(("violated", row, "no operand tracked but the result is tracked/attached (keeps references to its operands)"))
            elif res.tracked:
                missing = [n for n in present if n not in kids]
                extra = [k for k in kids if k not in present]
                if missing:
                    # a private helper that receives the array under construction by value next to the operands (`fn finish(result: Array, operand: &Array, ..)`)
                    byval = {name for name, kind, p_ in ops if p_["ty"] == ARRAY}
                    if not b.get("reachable") and b.get("impl_trait_def") is None and set(missing) <= byval and len(byval) < len(present):
                        problems.append(("unclassified", row, "private helper: by-value parameter(s) %s are not recorded as children (the array under construction, or an operand that is dropped?)" % missing))
                    else:
                        problems.append(("violated", row, "attached, but operand(s) %s are not recorded as children" % missing))
                if extra:
                    problems.append(("unclassified", row, "children %s are not operands" % extra))
            else:
                if kids:
                    problems.append(("violated", row, "untracked result keeps references to %s" % kids))
        detail = {"variables": ["%s(%s)" % (k[0], k[1]) if k[0] in "TP" else "cond:" + k[1][:80] for k in variables],
                  "truth_table": table[:16], "rows": len(rows)}
        if problems:
            kind = "violated" if any(p[0] == "violated" for p in problems) else "unclassified"
            msg = "; ".join(sorted({p[2] for p in problems}))[:600]
            if kind == "violated":
                c.bad(inst, where, "attach guard wrong under %d of %d assignments: %s" % (len(problems), len(rows), msg), detail)
            else:
                c.unk(inst, where, msg, detail)
        else:
            c.ok(inst, where, "attached <=> OR(tracked operands) under all %d assignments of %d variables; children = operands"
                 % (len(rows), len(variables)), detail)
    c.count("truth-table rows evaluated", total_rows)
    return c


# ------------------------------------------------------------------ R21

CTOR_PREFIX = "<corgi::array::Array as core::convert::From<("


def place_key(e, depth=0):
    """canonical rendering of a place expression: `p`, `parameters[i]`, `self.weights` (index / index_mut, & / * ignored)"""
    e = peel(e)
    if depth > 8 or not isinstance(e, dict):
        return "?"
    k = e.get("k")
    if k in ("VarRef", "UpvarRef"):
        return e["v"]
    if k == "Field":
        return place_key(e["e"], depth + 1) + "." + e["name"]
    if k == "Index":
        return place_key(e["e"], depth + 1) + "[" + place_key(e["i"], depth + 1) + "]"
    if k == "Call" and callee(e) in ("core::ops::index::Index::index", "core::ops::index::IndexMut::index_mut"):
        return place_key(e["args"][0], depth + 1) + "[" + place_key(e["args"][1], depth + 1) + "]"
    if k == "Call" and callee(e) in ("core::ops::deref::DerefMut::deref_mut",):
        return place_key(e["args"][0], depth + 1)
    if k == "Literal":
        return str(F.lit_value(e))
    return show(e)[:60]


def r21_fresh_parameter(facts):
    """R21: the value installed over a parameter is a fresh, graph-free, same-shape, tracked array."""
    from .repr_rules import callees_closure
    c = Ctx("R21", facts, "Optimizer::update installs fresh, graph-free, same-shape, tracked parameters")
    impls = [b for b in facts.fns() if b.get("impl_trait_def") == "corgi::optimizer::Optimizer" and b.get("name") == "update"]
    c.floor("Optimizer::update implementations", len(impls), 1)
    for u in impls:
        n_stores = 0
        for b in callees_closure(facts, u, depth=2):
            binds = F.bindings_of(facts.root(b))
            for n in walk(facts.root(b)):
                if n.get("k") == "Call" and callee(n) in ("core::mem::replace", "core::mem::swap", "core::mem::take") and n["args"] \
                        and ARRAY in (n["args"][0].get("ty") or ""):
                    c.unk("store:%s#mem" % b["def"], loc(b, n), "parameter replaced through %s: provenance of the new value not analysed" % callee(n))
                if n.get("k") not in ("Assign", "AssignOp"):
                    continue
                lhs = strip(n["l"])
                if lhs.get("ty") != ARRAY or lhs.get("k") != "Deref":
                    continue
                if not any("&mut corgi::array::Array" in (x.get("ty") or "") for x in walk(lhs)):
                    continue
                n_stores += 1
                target = place_key(lhs)
                inst = "store:%s" % b["def"]
                where = loc(b, n)
                if n["k"] == "AssignOp":
                    c.bad(inst, where, "parameter updated in place with a compound assignment")
                    continue

                def unlet(e, k_=0):
                    e = strip(e)
                    while isinstance(e, dict) and e.get("k") == "VarRef" and e["v"] in binds and binds[e["v"]][0] == "let" \
                            and isinstance(binds[e["v"]][1], dict) and k_ < 5:
                        e = strip(binds[e["v"]][1])
                        k_ += 1
                    return e
                rhs = unlet(n["r"])
                if not (rhs.get("k") == "Call" and resolved(rhs) == "corgi::array::Array::tracked"):
                    if rhs.get("k") == "Call" and (resolved(rhs) or "").startswith(CTOR_PREFIX):
                        c.bad(inst, where, "the new parameter is not marked tracked(): after the first update no parameter is tracked, "
                              "later passes store nothing and later updates are no-ops")
                    else:
                        c.bad(inst, where, "the value installed over the parameter is not `Array::from((dims, values)).tracked()`: %s "
                              "(a parameter computed by array operations carries a graph that grows every iteration)" % show(rhs)[:120])
                    continue
                inner = unlet(rhs["args"][0])
                if not (inner.get("k") == "Call" and (resolved(inner) or "").startswith(CTOR_PREFIX)):
                    c.bad(inst, where, "tracked() is applied to %s, not to a freshly constructed array" % show(inner)[:120])
                    continue
                tup = unlet(inner["args"][0])
                if tup.get("k") != "Tuple" or len(tup["fields"]) != 2:
                    c.unk(inst, where, "constructor argument is not a (dimensions, values) tuple")
                    continue
                d = peel(unlet(tup["fields"][0]))
                ok_d = False
                k2 = 0
                while d.get("k") == "Call" and callee(d) in ("alloc::slice::<impl [T]>::to_vec", "core::clone::Clone::clone", "alloc::borrow::ToOwned::to_owned",
                                                            "core::convert::Into::into", "core::convert::From::from") and k2 < 5:
                    d = peel(unlet(d["args"][0]))
                    k2 += 1
                if d.get("k") == "Call" and resolved(d) == "corgi::array::Array::dimensions" and place_key(d["args"][0]) == target:
                    ok_d = True
                elif d.get("k") == "Field" and d.get("adt") == ARRAY and d["name"] == "dimensions" and place_key(d["e"]) == target:
                    ok_d = True
                if not ok_d and d.get("k") == "VarRef" and d["v"] in binds and binds[d["v"]][0] != "let" and "Vec<usize>" in (d.get("ty") or ""):
                    c.unk(inst, where, "the new parameter's dimensions come out of a local collection filled earlier (`%s`): which parameter they were read from is not followed" % show(d)[:40])
                    continue
                if not ok_d:
                    c.bad(inst, where, "the new parameter's dimensions are not the old parameter's own dimensions: %s" % show(tup["fields"][0])[:100])
                    continue
                vty = tup["fields"][1].get("ty", "")
                if "corgi::array::Array" in vty:
                    c.unk(inst, where, "values component has an array type")
                    continue
                tn = target.split("#")[0] if "[" not in target else target
                c.ok(inst, where, "*%s = Array::from((%s.dimensions().to_vec(), <fresh Vec>)).tracked(): fresh slots, no children, no derivative, tracked"
                     % (tn[:30], tn[:30]))
        c.floor("stores through &mut Array parameters in %s" % u["def"].split("::")[-2] if "::" in u["def"] else "update", n_stores, 1)
    return c


def _all_bindings(facts, b):
    out = []
    for p in facts.params(b):
        if p.get("pat"):
            out.extend(F.pat_bindings(p["pat"]))
    for n in walk(facts.root(b)):
        k = n.get("k")
        if k == "Block":
            for s in n["stmts"]:
                if s["s"] == "let":
                    out.extend(F.pat_bindings(s["pat"]))
        elif k == "Match":
            for a in n["arms"]:
                out.extend(F.pat_bindings(a["pat"]))
        elif k == "Let":
            out.extend(F.pat_bindings(n["pat"]))
    return out


# ------------------------------------------------------------------ R13

def r13_linearity(facts):
    """R13: every adjoint slot is linear-homogeneous in the incoming adjoint; the engine's delta path is linear in the seed."""
    from . import lineval as LV
    c = Ctx("R13", facts, "adjoint slots are linear-homogeneous in the incoming adjoint; engine delta path linear in the seed")
    bws = [b for b in facts.closures() if F.is_backward_closure(b)]
    c.floor("backward closures", len(bws), 17)
    analysed = set()
    n_slots = 0
    for b in bws:
        where = "%s:%d" % (F.rel(b["file"]), b["sp"][0])
        inst = "closure:%s" % b["def"]
        try:
            r, lin = LV.type_backward_closure(facts, b)
        except RecursionError:
            c.unk(inst, where, "analysis recursion limit")
            continue
        analysed |= lin.analysed_fns
        if r is None or r.k != "vec":
            # the slot vector is assembled dynamically: judge all slots together
            cls = LV.scalar(lin.read(r)) if r is not None else LV.N
            n_slots += 1
            for msg in lin.control_on_adjoint:
                if lin.notes:
                    c.unk(inst + "#control", where, "control flow or indexing may depend on the adjoint (%s), but a callee had no summary (%s)" % (msg, "; ".join(lin.notes)[:160]))
                else:
                    c.bad(inst + "#control", where, "control flow or indexing depends on the adjoint: %s" % msg)
            if cls == LV.L:
                c.ok(inst + "#slots", where, "every slot is None or typed L (slot vector assembled dynamically)")
            elif cls == LV.C and not lin.notes:
                c.bad(inst + "#slots", where, "the slots do not depend on the incoming adjoint (typed C)")
            elif cls == LV.N and not lin.notes:
                c.bad(inst + "#slots", where, "some slot is not linear in the incoming adjoint (typed N)")
            else:
                c.unk(inst + "#slots", where, "slots could not be typed (%s)%s" % (cls, ": " + "; ".join(lin.notes)[:200] if lin.notes else ""))
            continue
        for msg in lin.control_on_adjoint:
            if lin.notes:
                c.unk(inst + "#control", where, "control flow or indexing may depend on the adjoint (%s), but a callee had no summary (%s)" % (msg, "; ".join(lin.notes)[:160]))
            else:
                c.bad(inst + "#control", where, "control flow or indexing depends on the adjoint: %s" % msg)
        for i, slot in enumerate(r.items):
            n_slots += 1
            sinst = "%s#slot%d" % (inst, i)
            slot = lin.read(slot)
            if slot.k == "opt":
                if slot.present is False:
                    c.ok(sinst, where, "slot is None", nontrivial=False)
                    continue
                cls = LV.scalar(slot.inner) if slot.inner is not None else LV.N
            else:
                cls = LV.scalar(slot)
            if cls == LV.L:
                c.ok(sinst, where, "slot %d : L (linear-homogeneous in the incoming adjoint)" % i)
            elif cls == LV.C:
                c.bad(sinst, where, "slot %d does not depend on the incoming adjoint (typed C): the chain rule factor x is missing, "
                      "the gradient is right only when this operation is the last one and the seed is all ones" % i)
            elif cls == LV.Z and not lin.notes:
                c.bad(sinst, where, "slot %d is identically zero (typed Z): the operand's gradient is discarded" % i)
            elif cls == LV.Z:
                c.unk(sinst, where, "slot %d could not be typed: %s" % (i, "; ".join(lin.notes)[:300]))
            else:
                if lin.notes:
                    c.unk(sinst, where, "slot %d could not be typed L: %s" % (i, "; ".join(lin.notes)[:300]))
                else:
                    c.bad(sinst, where, "slot %d is not linear in the incoming adjoint (typed N: product of two adjoint-dependent values, "
                          "an added constant, or a non-linear function of the adjoint)" % i)
    c.floor("adjoint slots typed", n_slots, 10)
    c.count("crate functions analysed through their bodies", len(analysed))
    c.note("functions analysed through their bodies: " + ", ".join(sorted(x.split("::")[-1] for x in analysed)))
    c.note("summaries: " + "; ".join("%s: %s" % kv for kv in LV.SUMMARY_REASONS.items()))

    # ---- engine: the delta path of Array::backward (inlined view)
    from . import pass_rules as PR
    PR.engine_seed_linearity(c, facts)
    # ---- the reduction every broadcast contribution goes through (a summary in the engine's delta path): linear in the delta it reduces
    for fb in facts.fns():
        if fb.get("impl_self") == ARRAY and fb.get("impl_trait_def") is None and fb.get("name") == "flatten_to" and fb.get("thir"):
            where = "%s:%d" % (F.rel(fb["file"]), fb["sp"][0])
            lin = LV.Lin(facts)
            try:
                r = lin.local_fn(fb, [LV.tL, LV.tC])
                cls = LV.scalar(lin.read(r))
            except RecursionError:
                c.unk("reduce:flatten_to", where, "analysis recursion limit")
                continue
            if lin.control_on_adjoint:
                if lin.notes:
                    c.unk("reduce:flatten_to#control", where, "control flow of the reduction may depend on the delta (%s); a callee had no summary (%s)" % (lin.control_on_adjoint[0], "; ".join(lin.notes)[:120]))
                else:
                    c.bad("reduce:flatten_to#control", where, "the reduction of a broadcast delta branches on the delta's values (%s): the reduced adjoint is not a linear function of the delta" % lin.control_on_adjoint[0])
            if cls == LV.L:
                c.ok("reduce:flatten_to", where, "flatten_to(delta, dims) : L (linear-homogeneous in the delta)")
            elif lin.notes:
                c.unk("reduce:flatten_to", where, "the reduction could not be typed L (%s): %s" % (cls, "; ".join(lin.notes)[:200]))
            else:
                c.bad("reduce:flatten_to", where, "the reduction of a broadcast delta is not linear in the delta (typed %s)" % cls)
    return c


# ------------------------------------------------------------------ R12

R12_EXCEPTIONS = {
    ("roll_blocks_with", "image_dimensions"):
        "equals the dimensions of the adjoint's argument: the derivative (unroll_blocks) reads them from the delta itself",
    ("roll_blocks_with", "accumulate"):
        "selects between the adjoint (sum) and the inverse (overwrite) of unrolling; the recorded derivative is exact for the adjoint "
        "role, the only one library code uses (the inverse role is reached from tests only)",
}


def _scalarish(ty, fl):
    ty = ty.strip()
    if ty.startswith("&"):
        ty = ty.lstrip("&").strip()
    if ty in (fl, "usize", "bool", "isize", "u32", "u64", "i32", "i64"):
        return True
    if ty.startswith("(") and ty.endswith(")"):
        parts = _split_top(ty[1:-1])
        return bool(parts) and all(_scalarish(p, fl) for p in parts)
    return False


def _split_top(s):
    out, depth, cur = [], 0, ""
    for ch in s:
        if ch in "(<[":
            depth += 1
        elif ch in ")>]":
            depth -= 1
        if ch == "," and depth == 0:
            out.append(cur.strip())
            cur = ""
        else:
            cur += ch
    if cur.strip():
        out.append(cur.strip())
    return out


def _taint_sources(facts, b):
    """{label: set(vars)}: scalar parameters (or scalar components of tuple parameters)."""
    fl = facts.float
    out = {}
    for p in facts.params(b):
        if not p.get("pat"):
            continue
        ty = p["ty"]
        for v, name, vty, path in F.pat_bindings(p["pat"]):
            if _scalarish(vty, fl):
                out.setdefault(name, set()).add(v)
            elif vty.startswith("(") and ARRAY in vty and any(_scalarish(x, fl) for x in _split_top(vty[1:-1])):
                out.setdefault(name, set()).add(("tuple", v))
    return out


def _propagate(facts, b, seeds):
    """flow-insensitive intra-procedural taint over let/destructuring bindings of body b"""
    fl = facts.float
    tainted = set()
    tuple_vars = set()
    for s in seeds:
        if isinstance(s, tuple):
            tuple_vars.add(s[1])
        else:
            tainted.add(s)
    root = facts.root(b)
    binds = []
    for n in walk(root):
        if n.get("k") == "Block":
            for s in n["stmts"]:
                if s["s"] == "let" and s.get("init") is not None:
                    binds.append((s["pat"], s["init"]))
        elif n.get("k") == "Match":
            for a in n["arms"]:
                binds.append((a["pat"], n["scrutinee"]))
        elif n.get("k") == "Let":
            binds.append((n["pat"], n["e"]))
    changed = True
    while changed:
        changed = False
        for pat, init in binds:
            vars_in = {x["v"] for x in walk(init) if x.get("k") in ("VarRef", "UpvarRef")}
            # closures in the initialiser: their captures count as mentions
            for x in walk(init):
                if x.get("k") == "Closure":
                    cb = facts.body(x["closure"])
                    for cap in (cb or {}).get("captures", []):
                        if cap.get("v"):
                            vars_in.add(cap["v"])
            hit = bool(vars_in & tainted)
            from_tuple = bool(vars_in & tuple_vars)
            if not hit and not from_tuple:
                continue
            for v, name, vty, path in F.pat_bindings(pat):
                if ARRAY in vty:
                    continue
                if from_tuple and not hit and not _scalarish(vty, fl):
                    continue
                if v not in tainted:
                    tainted.add(v)
                    changed = True
    return tainted


def r12_param_dependence(facts):
    """R12: every value-relevant scalar parameter of an operation reaches its backward closure."""
    c = Ctx("R12", facts, "every value-relevant scalar parameter reaches the derivative")
    ctors = op_constructors(facts)
    ctor_defs = {b["def"] for b in ctors}
    n = 0
    fl = facts.float
    for b in ctors:
        sources = _taint_sources(facts, b)
        if not sources:
            continue
        nested = [x for x in facts.nested(b) if x is not b]
        bws = [x for x in nested if F.is_backward_closure(x) and not any(F.is_backward_closure(y) and x["def"].startswith(y["def"] + "::") for y in nested)]
        others = [x for x in nested if not F.is_backward_closure(x) and not any(x["def"].startswith(w["def"] + "::") for w in bws)]
        root = facts.root(b)
        for label, seeds in sorted(sources.items()):
            tainted = _propagate(facts, b, seeds)
            where = "%s:%d" % (F.rel(b["file"]), b["sp"][0])
            inst = "param:%s#%s" % (b["def"], label)
            # ---- is the parameter value-relevant ?
            reasons = []
            for x in others:
                produces = F.is_sliced_closure(x, facts) or x.get("closure_output") == fl
                capv = {cap.get("v") for cap in x.get("captures", [])}
                if produces and capv & tainted:
                    reasons.append("captured by the value-producing closure %s" % x["def"].split("::")[-1])
            for m in walk(root):
                if m.get("k") != "Call":
                    continue
                cal = m.get("callee") or {}
                r = resolved(m)
                if r == SLICED_OP:
                    for i in (5, 6):
                        if i < len(m["args"]) and ({x["v"] for x in walk(m["args"][i]) if x.get("k") in ("VarRef", "UpvarRef")} & tainted):
                            reasons.append("passed to sliced_op as %s" % ("op_dimension_count" if i == 5 else "flatten_count"))
                elif cal.get("resolved_local"):
                    for a in m["args"]:
                        if isinstance(a, dict) and a.get("ty") == fl and ({x["v"] for x in walk(a) if x.get("k") in ("VarRef", "UpvarRef")} & tainted):
                            reasons.append("passed as a Float to %s" % r.split("::")[-1])
            for m in walk(root):
                if m.get("k") in ("Assign", "AssignOp"):
                    lhs = strip(m["l"])
                    if lhs.get("k") in ("Index",) or (lhs.get("k") == "Deref"):
                        if fl == (lhs.get("ty") or ""):
                            vs = {x["v"] for x in walk(m) if x.get("k") in ("VarRef", "UpvarRef")}
                            if vs & tainted:
                                reasons.append("taints a store into a Float buffer in the function body")
            if not reasons:
                c.ok(inst, where, "parameter `%s` only reaches shapes/bookkeeping: not value-relevant" % label, nontrivial=False)
                continue
            n += 1
            key = (b.get("name"), label)
            if key in R12_EXCEPTIONS:
                c.ok(inst, where, "exception table: %s" % R12_EXCEPTIONS[key])
                continue
            # the same two exceptions by ROLE (the routine may be renamed): the scatter that is the adjoint / inverse of unrolling is the private
            # routine (array, (depth, rows, cols), (rows, cols), (rows, cols), bool); its image-dimensions triple and its mode flag are the exceptions
            if not b.get("reachable") and (b.get("inputs") or []) == ["&" + ARRAY, "(usize, usize, usize)", "(usize, usize)", "(usize, usize)", "bool"]:
                pty = None
                for p_ in facts.params(b):
                    if p_.get("pat") and p_["pat"].get("name") == label:
                        pty = p_.get("ty")
                if pty == "(usize, usize, usize)":
                    c.ok(inst, where, "exception table (by role): %s" % R12_EXCEPTIONS[("roll_blocks_with", "image_dimensions")])
                    continue
                if pty == "bool":
                    c.ok(inst, where, "exception table (by role): %s" % R12_EXCEPTIONS[("roll_blocks_with", "accumulate")])
                    continue
            if not bws:
                # attached closure comes from elsewhere (forwarder): delegation
                c.unk(inst, where, "value-relevant parameter `%s` in a constructor whose backward closure is not defined here" % label)
                continue
            missing = []
            for w in bws:
                capv = {cap.get("v") for cap in w.get("captures", [])}
                if not (capv & tainted):
                    missing.append(w)
            if missing:
                # delegation: forwarded to another operation constructor ?
                delegated = False
                for m in walk(root):
                    if m.get("k") == "Call" and resolved(m) in ctor_defs and resolved(m) != b["def"]:
                        for a in m["args"]:
                            if {x["v"] for x in walk(a) if x.get("k") in ("VarRef", "UpvarRef")} & tainted:
                                delegated = True
                if delegated:
                    c.ok(inst, where, "`%s` is forwarded to another operation constructor (delegation)" % label)
                    continue
                for w in missing:
                    c.bad(inst, "%s:%d" % (F.rel(w["file"]), w["sp"][0]),
                          "parameter `%s` affects the forward values (%s) but nothing derived from it is captured by the backward closure %s "
                          "(captures: %s): the derivative cannot depend on it"
                          % (label, "; ".join(sorted(set(reasons))), w["def"].split("::")[-1],
                             ", ".join(cap["var"] for cap in w.get("captures", [])) or "none"))
            else:
                c.ok(inst, where, "`%s` is value-relevant (%s) and reaches the backward closure (captured: %s)"
                     % (label, "; ".join(sorted(set(reasons)))[:120],
                        ", ".join(sorted({cap["var"] for w in bws for cap in w.get("captures", []) if cap.get("v") in tainted}))))
    c.floor("value-relevant scalar parameters of operation constructors", n, 9)
    return c


# ------------------------------------------------------------------ R15

def _index_of(lhs):
    """(buffer expr, index expr) of an element place, or (expr, None) for `*r`"""
    l = strip(lhs)
    if l.get("k") == "Deref":
        inner = strip(l["e"])
        if inner.get("k") == "Call" and callee(inner) in ("core::ops::index::IndexMut::index_mut", "core::ops::index::Index::index"):
            return inner["args"][0], inner["args"][1]
        if inner.get("k") == "Index":
            return inner["e"], inner["i"]
        return inner, None
    if l.get("k") == "Index":
        return l["e"], l["i"]
    if l.get("k") == "Call" and callee(l) in ("core::ops::index::IndexMut::index_mut", "core::ops::index::Index::index"):
        return l["args"][0], l["args"][1]
    return l, None


def _range_end(it):
    """for `a..b` return (start literal, end expr)"""
    it = strip(it)
    if it.get("k") == "Adt" and it["adt"] == "core::ops::range::Range":
        f = {x["name"]: x["e"] for x in it["fields"]}
        return F.lit_value(f.get("start")), f.get("end")
    return None, None


def _aliases(root):
    env = {}
    for n in walk(root):
        if n.get("k") == "Block":
            for s in n["stmts"]:
                if s["s"] == "let" and s["pat"].get("k") == "Binding" and s.get("init") is not None:
                    env[s["pat"]["v"]] = s["init"]
    return env


def _sym(e, env, depth=0):
    """normalised rendering of an index-arithmetic expression with let aliases resolved"""
    e = peel(e)
    if depth < 6 and e.get("k") in ("VarRef",) and e["v"] in env:
        init = peel(env[e["v"]])
        if init.get("k") in ("VarRef", "UpvarRef", "Binary", "Literal"):
            return _sym(init, env, depth + 1)
    if e.get("k") in ("VarRef", "UpvarRef"):
        return e["v"].split("#")[0] + "#" + e["v"].split("#")[1]
    if e.get("k") == "Literal":
        return str(F.lit_value(e))
    if e.get("k") == "Binary":
        a, b = _sym(e["l"], env, depth + 1), _sym(e["r"], env, depth + 1)
        if e["op"] in ("Mul", "Add") and b < a:
            a, b = b, a
        return "(%s %s %s)" % (a, e["op"], b)
    return show(e)[:60]


def _terms(e, env, depth=0):
    """flatten a sum into [(coefficient symbol or '1', variable)]; None if not affine in plain variables"""
    e = peel(e)
    if depth < 6 and e.get("k") == "VarRef" and e["v"] in env:
        init = peel(env[e["v"]])
        if init.get("k") == "Binary":
            return _terms(init, env, depth + 1)
    if e.get("k") in ("VarRef", "UpvarRef"):
        return [("1", e["v"])]
    if e.get("k") == "Binary" and e["op"] == "Add":
        a = _terms(e["l"], env, depth + 1)
        b = _terms(e["r"], env, depth + 1)
        if a is None or b is None:
            return None
        return a + b
    if e.get("k") == "Binary" and e["op"] == "Mul":
        l, r = peel(e["l"]), peel(e["r"])
        # coefficient * (sub-sum)  or  coefficient * var
        for coef, rest in ((l, r), (r, l)):
            sub = _terms(rest, env, depth + 1)
            if sub is not None and len(sub) >= 1 and not _mentions_any(coef, [v for _, v in sub]):
                cs = _sym(coef, env)
                return [(cs if c0 == "1" else "(%s Mul %s)" % tuple(sorted([cs, c0])), v) for c0, v in sub]
        return None
    return None


def _mentions_any(e, vs):
    return any(x.get("k") in ("VarRef", "UpvarRef") and x["v"] in vs for x in walk(e))


def _mixed_radix(idx, loops, env):
    """index = sum c_j * v_j over exactly the loop variables, with c_1 = 1 and c_{j+1} = c_j * range_j"""
    terms = _terms(idx, env)
    if terms is None:
        return False, "index is not a sum of loop variables with constant coefficients"
    lv = {}
    for l in loops:
        if len(l["vars"]) != 1 or l.get("iter") is None:
            return False, "a loop of the nest does not bind a single range variable"
        start, end = _range_end(l["iter"])
        if start != 0 or end is None:
            return False, "a loop of the nest is not `0..n`"
        lv[l["vars"][0]] = _sym(end, env)
    tv = [v for _, v in terms]
    if sorted(tv) != sorted(lv):
        return False, "index does not use each loop variable of the nest exactly once (%s vs loops %s)" % (
            [v.split("#")[0] for v in tv], [v.split("#")[0] for v in lv])
    coef = {v: c for c, v in terms}
    # order variables by coefficient chain starting from the unit coefficient
    remaining = dict(coef)
    cur = "1"
    order = []
    while remaining:
        nxt = [v for v, cc in remaining.items() if cc == cur]
        if len(nxt) != 1:
            return False, "coefficients do not form a mixed-radix chain (looking for coefficient %s among %s)" % (cur, remaining)
        v = nxt[0]
        order.append(v)
        del remaining[v]
        r = lv[v]
        cur = r if cur == "1" else "(%s Mul %s)" % tuple(sorted([r, cur]))
    return True, "mixed-radix affine index over loops %s" % [v.split("#")[0] for v in order]


def _unit_counter(v, body_root, store_lhs):
    """v is initialised to 0 and its only update is `v += 1` in the block that contains the store"""
    inits = []
    updates = []
    for n in walk(body_root):
        if n.get("k") == "Block":
            for s in n["stmts"]:
                if s["s"] == "let" and s["pat"].get("k") == "Binding" and s["pat"]["v"] == v:
                    inits.append(s.get("init"))
        if n.get("k") in ("Assign", "AssignOp") and var_of(n["l"]) == v and strip(n["l"]).get("k") == "VarRef":
            updates.append(n)
        if n.get("k") == "Borrow" and n.get("bk") == "mut" and var_of(n["e"]) == v and strip(n["e"]).get("k") == "VarRef":
            updates.append(n)
    if len(inits) != 1 or F.lit_value(inits[0]) != 0:
        return False, "index variable is not initialised to 0 once"
    if len(updates) != 1 or updates[0].get("k") != "AssignOp" or not str(updates[0].get("op", "")).startswith("Add") \
            or F.lit_value(updates[0]["r"]) != 1:
        return False, "index variable has updates other than a single `+= 1`"
    # same block as the store
    for n in walk(body_root):
        if n.get("k") == "Block":
            has_store = False
            has_update = False
            for s in n["stmts"]:
                e = s.get("e") if s["s"] == "expr" else s.get("init")
                if e is None:
                    continue
                se = strip(e)
                if se.get("k") in ("Assign", "AssignOp") and strip(se["l"]) is store_lhs:
                    has_store = True
                if se is updates[0]:
                    has_update = True
            if has_store:
                return (True, "unit-step counter advanced once per store") if has_update else (False, "counter is not advanced in the block of the store")
    return False, "store statement not found in a block"


def _suspicious_index(idx, loops, env):
    """an index that can map two iterations of the nest to the same element: it divides or takes
    the remainder of something that varies with the loops, or adds two loop variables with equal weight"""
    if idx is None:
        return False
    loopvars = {v for l in loops for v in l["vars"]}

    def expand(e, depth=0):
        """variables an expression depends on, through let aliases"""
        out = set()
        for x in walk(e):
            if x.get("k") in ("VarRef", "UpvarRef"):
                out.add(x["v"])
                if depth < 6 and x["v"] in env:
                    out |= expand(env[x["v"]], depth + 1)
        return out

    def lossy(e, depth=0):
        e0 = peel(e)
        if depth > 8 or not isinstance(e0, dict):
            return False
        if e0.get("k") == "VarRef" and e0["v"] in env:
            return lossy(env[e0["v"]], depth + 1)
        if e0.get("k") == "Binary":
            if e0["op"] in ("Div", "Rem") and (expand(e0["l"]) & loopvars):
                return True
            return lossy(e0["l"], depth + 1) or lossy(e0["r"], depth + 1)
        if e0.get("k") == "Block" and e0.get("e") is not None:
            return lossy(e0["e"], depth + 1)
        return False
    if lossy(idx):
        return True
    terms = _terms(idx, env)
    if terms:
        coef = {}
        for c_, v in terms:
            if v in loopvars:
                coef.setdefault(c_, []).append(v)
        if any(len(vs) > 1 for vs in coef.values()):
            return True
    return False


def _nested_partition(s, loops):
    """nested loops where each inner loop iterates a sub-slice handed out by the outer one
    (`for row in buf.chunks_mut(n) { for out in row.iter_mut() { *out = .. } }`)"""
    if len(loops) < 2:
        return False
    for outer, inner in zip(loops, loops[1:]):
        it = inner.get("iter")
        if it is None:
            return False
        vs = {x["v"] for x in walk(it) if x.get("k") in ("VarRef", "UpvarRef")}
        if not (vs & set(outer["vars"])):
            return False
    return True


def r15_accumulate_on_scatter(facts):
    """R15: element stores of adjoint data accumulate, or their index is provably injective over the loop nest."""
    from . import lineval as LV
    from . import engine_rules as ER
    c = Ctx("R15", facts, "adjoint scatters accumulate or are provably injective")
    bws = [b for b in facts.closures() if F.is_backward_closure(b)]
    c.floor("backward closures", len(bws), 17)
    sites = {}
    roles = {}
    def collect(lin, origin):
        for s in lin.adjoint_stores:
            key = (s["body"], id(s["lhs"]), s["op"])
            if key not in sites:
                sites[key] = s
                roles[key] = set()
            roles[key].add(origin)
    for b in bws:
        try:
            r, lin = LV.type_backward_closure(facts, b)
        except RecursionError:
            c.unk("closure:%s" % b["def"], "-", "analysis recursion limit")
            continue
        collect(lin, b["def"])
    # the engine reduces deltas with flatten_to: adjoint role as well
    for b in facts.fns():
        if b.get("impl_self") == ARRAY and b.get("name") == "flatten_to":
            lin = LV.Lin(facts)
            lin.local_fn(b, [LV.tL, LV.tC])
            collect(lin, "engine:" + b["def"])
    n = 0
    seen_inst = {}
    for key, s in sites.items():
        body = facts.body(s["body"])
        n += 1
        buf, idx = _index_of(s["lhs"])
        bname = (var_of(buf) or "?").split("#")[0]
        inst = "store:%s#%s" % (s["body"], bname)
        k = seen_inst.get(inst, 0)
        seen_inst[inst] = k + 1
        if k:
            inst = "%s.%d" % (inst, k)
        where = loc(body, s["lhs"])
        role = "reached from %s" % ", ".join(sorted(x.split("::")[-2] + "::" + x.split("::")[-1] for x in roles[key]))[:160]
        if s["op"] in ("Add", "Sub"):
            c.ok(inst, where, "accumulating store (`%s=`) of adjoint data; %s" % ("+" if s["op"] == "Add" else "-", role))
            continue
        if s["op"] is not None:
            c.bad(inst, where, "adjoint data combined with `%s=` into a buffer" % s["op"])
            continue
        loops = s["loops"]
        env = _aliases(facts.root(body))
        uncertain = any(k_ in ("map", "for_each", "closure") for k_ in s.get("kinds", [])[1:]) or s.get("notes_before", 0) > 0
        # `buf[e] = buf[e] + v` is an accumulating store written out
        rhs = strip(s.get("rhs")) if s.get("rhs") is not None else None
        if rhs is not None and ((rhs.get("k") == "Binary" and rhs["op"] in ("Add", "Sub"))
                                or (rhs.get("k") == "Call" and callee(rhs) in ("core::ops::arith::Add::add", "core::ops::arith::Sub::sub"))):
            sides = [rhs["l"], rhs["r"]] if rhs.get("k") == "Binary" else rhs["args"]
            lhs_txt = show(peel(s["lhs"]))
            cand = sides[:1] if (rhs.get("op") == "Sub" or callee(rhs) == "core::ops::arith::Sub::sub") else sides
            if any(show(peel(x)) == lhs_txt for x in cand):
                c.ok(inst, where, "accumulating store written as `place = place + value`; %s" % role)
                continue
        ok, why = False, ""
        lp = peel(s["lhs"])
        if idx is None and isinstance(lp, dict) and lp.get("k") == "Call" and callee(lp) in (
                "core::option::Option::<T>::unwrap", "core::option::Option::<T>::expect") and \
                peel(lp["args"][0]).get("k") == "Call" and callee(peel(lp["args"][0])) == "core::iter::traits::iterator::Iterator::next":
            ok, why = True, "store through `iterator.next()`: a sequential cursor writes each element once"
        elif idx is None:
            v = var_of(s["lhs"])
            if len(loops) == 1 and s["outer"] == 0 and v in loops[0]["vars"]:
                ok, why = True, "store through the element reference of the single enclosing iteration (each element visited once)"
            else:
                why = "store through a reference inside %d nested loop(s): elements may be visited more than once" % (len(loops) + s["outer"])
        else:
            iv = var_of(idx) if peel(idx).get("k") in ("VarRef", "UpvarRef") else None
            if iv and len(loops) == 1 and s["outer"] == 0 and iv in loops[0]["vars"] and _range_end(loops[0]["iter"])[1] is not None:
                ok, why = True, "index is the variable of the single enclosing range loop"
            elif iv and iv not in [x for l in loops for x in l["vars"]]:
                ok, why = _unit_counter(iv, facts.root(body), s["lhs"])
            if not ok:
                ok2, why2 = _mixed_radix(idx, loops, env) if s["outer"] == 0 else (False, "nested in an outer iteration")
                if ok2:
                    ok, why = ok2, why2
                elif not why:
                    why = why2
        if ok:
            c.ok(inst, where, "plain store of adjoint data with an injective index: %s; %s" % (why, role))
        elif uncertain or _nested_partition(s, loops) or not _suspicious_index(idx, loops, env):
            c.unk(inst, where, "plain store whose index could not be proved injective, and shows none of the lossy patterns (division / remainder of a "
                  "loop variable, two loop variables with the same weight): not decided (%s)" % why)
        else:
            c.bad(inst, where, "plain store (`=`) of adjoint data at index `%s` which is not provably injective over the loop nest (%s): "
                  "where the forward operation reads an element more than once, the adjoint must accumulate (`+=`), otherwise all but the "
                  "last contribution are lost; %s" % (show(idx)[:80] if idx is not None else "*ref", why, role))
    c.floor("adjoint element-store sites", n, 1)
    return c
