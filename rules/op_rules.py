"""Per-operation rules: R8 ATTACH-IFF-TRACKED, R12 PARAM-DEPENDENCE, R13 LINEARITY,
R15 ACCUMULATE-ON-SCATTER, R21 FRESH-PARAMETER.  See DESIGN.md section 3."""

from . import facts as F
from . import trackeval as TE
from .core import Ctx
from .facts import ARRAY, callee, resolved, strip, peel, walk, loc, field_chain, var_of
from .show import show

BOP_MARK = "core::ops::function::Fn(&'a [corgi::array::Array], &'b [bool], &'c corgi::array::Array)"

WITH_CHILDREN = "corgi::array::Array::with_children"
WITH_BOP = "corgi::array::Array::with_backward_op"
SLICED_OP = "corgi::array::Array::sliced_op"

# attach primitives: the attachment decision is their caller's (all crate callers are judged)
ATTACH_PRIMITIVES = {
    "corgi::array::Array::with_children": "private builder: sets the edge list of the array under construction",
    "corgi::array::Array::sliced_op": "attach primitive: attaches iff the caller passes Some(backward_op); every crate caller is judged",
    "corgi::array::Array::op": "public custom-operation entry point: attachment is the caller's choice (documented as such)",
}


def is_none_literal(n):
    n = strip(n)
    return isinstance(n, dict) and n.get("k") == "Adt" and n["adt"] == "core::option::Option" and n["variant"] == "None"


def attachment_calls(b, facts):
    """Calls in b (not in nested closures) that may attach a graph."""
    out = []
    for n in walk(facts.root(b)):
        if n.get("k") != "Call":
            continue
        r = resolved(n)
        if r == WITH_CHILDREN:
            out.append(n)
        elif r == SLICED_OP:
            if not is_none_literal(n["args"][2]):
                out.append(n)
        else:
            c = n.get("callee") or {}
            if c.get("resolved_local") and any(BOP_MARK in (a.get("ty") or "") for a in n["args"] if isinstance(a, dict)):
                if r != WITH_BOP:
                    out.append(n)
    return out


def op_constructors(facts):
    out = []
    for b in facts.fns():
        if b["def"] in ATTACH_PRIMITIVES:
            continue
        if attachment_calls(b, facts):
            out.append(b)
    return out


def r8_attach_iff_tracked(facts):
    """R8: result attached/tracked iff some recorded operand is tracked (exhaustive Boolean evaluation)."""
    c = Ctx("R8", facts, "result tracked iff some operand tracked; untracked result records nothing")
    ctors = op_constructors(facts)
    c.floor("operation constructors (functions that attach a graph)", len(ctors), 17)
    total_rows = 0
    for d, why in ATTACH_PRIMITIVES.items():
        b = facts.body(d)
        if b is not None:
            c.ok("primitive:%s" % d, "%s:%d" % (F.rel(b["file"]), b["sp"][0]), "exception table: " + why, nontrivial=False)
    for b in ctors:
        where = "%s:%d" % (F.rel(b["file"]), b["sp"][0])
        inst = "op:%s" % b["def"]
        rows, variables, err = TE.evaluate_constructor(facts, b)
        if rows is None:
            c.unk(inst, where, "guard outside the Boolean fragment: %s" % err)
            continue
        ops = TE.operand_params(facts, b)
        bad_kinds = [o for o in ops if o[1].startswith("other")]
        if bad_kinds:
            c.unk(inst, where, "parameter carries arrays in a form the evaluator does not model: %s" % [(o[0], o[1]) for o in bad_kinds])
            continue
        table = []
        problems = []
        for asg, res, e, consulted in rows:
            total_rows += 1
            present = [name for name, kind, _ in ops if kind != "opt" or asg[("P", name)]]
            any_tracked = any(asg[("T", name)] for name in present)
            row = {"assignment": {"%s(%s)" % (k[0], k[1]) if k[0] in "TP" else k[1][:60]: v for k, v in asg.items()}}
            if e is not None:
                row["result"] = "unclassified: " + e
                problems.append(("unclassified", row, e))
                table.append(row)
                continue
            if not isinstance(res, TE.Arr):
                row["result"] = "unclassified value " + type(res).__name__ + " " + getattr(res, "why", "")
                problems.append(("unclassified", row, "the returned value is not modelled (%s %s)" % (type(res).__name__, getattr(res, "why", ""))))
                table.append(row)
                continue
            if res.same is not None:
                row["result"] = "the operand %s itself" % res.same
                table.append(row)
                continue
            kids = [k for k in (res.children or []) if k is not None]
            row["result"] = "tracked=%s children=%s" % (res.tracked, res.children)
            table.append(row)
            if res.tracked != any_tracked:
                if any_tracked:
                    problems.append(("violated", row, "operand(s) %s tracked but the result is not attached: their gradient is silently dropped"
                                     % [n for n in present if asg[("T", n)]]))
                else:
                    problems.append(("violated", row, "no operand tracked but the result is tracked/attached (keeps references to its operands)"))
            elif res.tracked:
                missing = [n for n in present if n not in kids]
                extra = [k for k in kids if k not in present]
                if missing:
                    problems.append(("violated", row, "attached, but operand(s) %s are not recorded as children" % missing))
                if extra:
                    problems.append(("unclassified", row, "children %s are not operands" % extra))
            else:
                if kids:
                    problems.append(("violated", row, "untracked result keeps references to %s" % kids))
        detail = {"variables": ["%s(%s)" % (k[0], k[1]) if k[0] in "TP" else "cond:" + k[1][:80] for k in variables],
                  "truth_table": table[:16], "rows": len(rows)}
        if problems:
            kind = "violated" if any(p[0] == "violated" for p in problems) else "unclassified"
            msg = "; ".join(sorted({p[2] for p in problems}))[:600]
            if kind == "violated":
                c.bad(inst, where, "attach guard wrong under %d of %d assignments: %s" % (len(problems), len(rows), msg), detail)
            else:
                c.unk(inst, where, msg, detail)
        else:
            c.ok(inst, where, "attached <=> OR(tracked operands) under all %d assignments of %d variables; children = operands"
                 % (len(rows), len(variables)), detail)
    c.count("truth-table rows evaluated", total_rows)
    return c
