"""Compact pretty-printer of THIR JSON (debugging aid and used to render samples in evidence)."""

from . import facts as F


def short_path(p):
    if not p:
        return "?"
    p = p.replace("corgi::array::", "").replace("core::", "").replace("alloc::", "")
    return p


def show(n, depth=0, maxdepth=40):
    if n is None:
        return "-"
    if depth > maxdepth:
        return "..."
    k = n.get("k")
    r = lambda x: show(x, depth + 1, maxdepth)
    if k == "Block":
        parts = []
        for s in n["stmts"]:
            if s["s"] == "expr":
                parts.append(r(s["e"]))
            else:
                parts.append("let %s = %s" % (showpat(s["pat"]), r(s.get("init"))))
        if n.get("e") is not None:
            parts.append(r(n["e"]))
        tag = "unsafe " if n.get("safety") == "explicit_unsafe" else ""
        return tag + "{ " + "; ".join(parts) + " }"
    if k == "Call":
        c = n.get("callee")
        name = short_path(c.get("resolved") or c["path"]) if c else "(" + r(n.get("fun")) + ")"
        return "%s(%s)" % (name, ", ".join(r(a) for a in n["args"]))
    if k in ("VarRef", "UpvarRef"):
        return n["v"].split("#")[0] + ("^" if k == "UpvarRef" else "")
    if k == "Field":
        return "%s.%s" % (r(n["e"]), n["name"])
    if k == "Index":
        return "%s[%s]" % (r(n["e"]), r(n["i"]))
    if k == "Borrow":
        return ("&mut " if n["bk"] == "mut" else "&") + r(n["e"])
    if k == "Deref":
        return "*" + r(n["e"])
    if k == "Literal":
        return ("-" if n.get("neg") else "") + n["lit"]
    if k == "If":
        return "if %s %s else %s" % (r(n["cond"]), r(n["then"]), r(n.get("else")))
    if k == "Match":
        arms = ["%s%s => %s" % (showpat(a["pat"]), (" if " + r(a["guard"])) if a.get("guard") else "", r(a["body"])) for a in n["arms"]]
        return "match %s { %s }" % (r(n["scrutinee"]), ", ".join(arms))
    if k == "Let":
        return "let %s = %s" % (showpat(n["pat"]), r(n["e"]))
    if k in ("Binary", "LogicalOp"):
        return "(%s %s %s)" % (r(n["l"]), n["op"], r(n["r"]))
    if k == "Unary":
        return "%s(%s)" % (n["op"], r(n["e"]))
    if k == "Assign":
        return "%s = %s" % (r(n["l"]), r(n["r"]))
    if k == "AssignOp":
        return "%s %s= %s" % (r(n["l"]), n["op"], r(n["r"]))
    if k in F.WRAPPERS:
        return r(n["e"])
    if k == "Cast":
        return "(%s as %s)" % (r(n["e"]), n["ty"])
    if k == "Closure":
        return "|closure %s|" % n["closure"].split("::")[-1]
    if k == "Adt":
        return "%s{%s}" % (short_path(n["adt"]) + ("::" + n["variant"] if n["variant"] != short_path(n["adt"]).split("::")[-1] else ""),
                           ", ".join("%s: %s" % (f["name"], r(f["e"])) for f in n["fields"]))
    if k == "Tuple":
        return "(%s)" % ", ".join(r(x) for x in n["fields"])
    if k == "Array":
        return "[%s]" % ", ".join(r(x) for x in n["fields"])
    if k == "Repeat":
        return "[%s; %s]" % (r(n["e"]), n["count"])
    if k == "Loop":
        return "loop %s" % r(n["body"])
    if k in ("Return", "Break"):
        return "%s %s" % (k.lower(), r(n.get("e")))
    if k == "FnItem":
        return "fn:" + short_path(n["fn"].get("resolved") or n["fn"]["path"])
    if k == "NamedConst":
        return short_path(n["def"])
    return k or "?"


def showpat(p):
    if not isinstance(p, dict):
        return "_"
    k = p.get("k")
    if k == "Binding":
        return p["name"] + ("@" + showpat(p["sub"]) if p.get("sub") else "")
    if k == "Wild":
        return "_"
    if k == "Leaf":
        return "(%s)" % ", ".join("%s" % showpat(s["pat"]) for s in p["subs"])
    if k == "Variant":
        return "%s(%s)" % (p["variant"], ", ".join(showpat(s["pat"]) for s in p["subs"]))
    if k in ("Deref", "DerefPattern"):
        return "&" + showpat(p["sub"])
    if k == "Constant":
        return p["value"]
    return k or "?"
