"""A small exact algebra of scalar expressions for rule R33: fractions of Laurent polynomials over
opaque atoms, with rational coefficients and exponents that are linear forms in symbolic
parameters (so that x^(e-1) * x == x^e).  Equality is decided by cross-multiplication, which
is complete for rational functions of *independent* atoms; the only dependent atoms the
front end creates are exp[m]^k (integer / rational powers of one atom per argument m) and
ln[..] (opaque).  No numeric evaluation anywhere."""

from fractions import Fraction


# ---------------------------------------------------------------- linear forms (exponents)
def lf(c=0, **syms):
    d = {}
    if c:
        d[""] = Fraction(c)
    for k, v in syms.items():
        if v:
            d[k] = Fraction(v)
    return tuple(sorted(d.items()))


def lf_add(a, b):
    d = dict(a)
    for k, v in b:
        d[k] = d.get(k, 0) + v
    return tuple(sorted((k, v) for k, v in d.items() if v))


def lf_scale(a, s):
    return tuple(sorted((k, v * s) for k, v in a if v * s))


def lf_const(a):
    """the rational value of a constant linear form, else None"""
    if not a:
        return Fraction(0)
    if len(a) == 1 and a[0][0] == "":
        return a[0][1]
    return None


def lf_str(a):
    if not a:
        return "0"
    out = []
    for k, v in a:
        out.append(("%s" % v) if k == "" else ("%s*%s" % (v, k) if v != 1 else k))
    return "+".join(out)


ONE = lf(1)


# ---------------------------------------------------------------- monomials / polynomials
def mono_mul(m1, m2):
    d = dict(m1)
    for a, e in m2:
        d[a] = lf_add(d.get(a, ()), e)
    return tuple(sorted((a, e) for a, e in d.items() if e))


class Poly:
    __slots__ = ("t",)

    def __init__(self, terms=None):
        self.t = {m: Fraction(c) for m, c in (terms or {}).items() if c}

    @staticmethod
    def const(c):
        return Poly({(): Fraction(c)})

    @staticmethod
    def atom(name, expo=ONE):
        return Poly({((name, expo),): 1})

    def __add__(self, o):
        d = dict(self.t)
        for m, c in o.t.items():
            d[m] = d.get(m, 0) + c
        return Poly(d)

    def __neg__(self):
        return Poly({m: -c for m, c in self.t.items()})

    def __sub__(self, o):
        return self + (-o)

    def __mul__(self, o):
        d = {}
        for m1, c1 in self.t.items():
            for m2, c2 in o.t.items():
                m = mono_mul(m1, m2)
                d[m] = d.get(m, 0) + c1 * c2
        return Poly(d)

    def is_zero(self):
        return not self.t

    def single(self):
        """(coefficient, monomial) if the polynomial has exactly one term"""
        if len(self.t) == 1:
            (m, c), = self.t.items()
            return c, m
        return None

    def __eq__(self, o):
        return isinstance(o, Poly) and self.t == o.t

    def atoms(self):
        return {a for m in self.t for a, _ in m}

    def __repr__(self):
        if not self.t:
            return "0"
        out = []
        for m, c in sorted(self.t.items(), key=lambda x: str(x)):
            f = "*".join(("%s" % a) if e == ONE else "%s^(%s)" % (a, lf_str(e)) for a, e in m)
            if not f:
                out.append("%s" % c)
            elif c == 1:
                out.append(f)
            elif c == -1:
                out.append("-" + f)
            else:
                out.append("%s*%s" % (c, f))
        return " + ".join(out).replace("+ -", "- ")


class Unsupported(Exception):
    pass


class Frac:
    """num / den, den never zero; a single-term denominator is folded into the numerator"""
    __slots__ = ("n", "d")

    def __init__(self, n, d=None):
        if not isinstance(n, Poly):
            n = Poly.const(n)
        if d is None:
            d = Poly.const(1)
        s = d.single()
        if s is not None:
            c, m = s
            inv = tuple((a, lf_scale(e, -1)) for a, e in m)
            n = n * Poly({inv: Fraction(1) / c})
            d = Poly.const(1)
        self.n, self.d = n, d

    def __add__(self, o):
        return Frac(self.n * o.d + o.n * self.d, self.d * o.d)

    def __neg__(self):
        return Frac(-self.n, self.d)

    def __sub__(self, o):
        return self + (-o)

    def __mul__(self, o):
        return Frac(self.n * o.n, self.d * o.d)

    def inv(self):
        if self.n.is_zero():
            raise Unsupported("division by an expression that is identically zero")
        return Frac(self.d, self.n)

    def __truediv__(self, o):
        return self * o.inv()

    def equals(self, o):
        return (self.n * o.d - o.n * self.d).is_zero()

    def is_zero(self):
        return self.n.is_zero()

    def atoms(self):
        return self.n.atoms() | self.d.atoms()

    def powlf(self, p):
        """self ** p for a linear-form exponent p"""
        pc = lf_const(p)
        if pc is not None and pc.denominator == 1 and abs(pc) <= 6:
            k = int(pc)
            base = self if k >= 0 else self.inv()
            out = Frac(1)
            for _ in range(abs(k)):
                out = out * base
            return out
        if self.d == Poly.const(1):
            s = self.n.single()
            if s is not None:
                c, m = s
                if c != 1:
                    raise Unsupported("power of a term with coefficient %s" % c)
                for a, e in m:
                    if lf_const(e) is None and pc is None:
                        raise Unsupported("symbolic exponent raised to a symbolic power")
                out = []
                for a, e in m:
                    ec = lf_const(e)
                    out.append((a, lf_scale(p, ec) if ec is not None else lf_scale(e, pc)))
                return Frac(Poly({tuple(sorted(out)): 1}))
        raise Unsupported("non-integer power of a sum")

    def __repr__(self):
        if self.d == Poly.const(1):
            return "%r" % self.n
        return "(%r) / (%r)" % (self.n, self.d)


class Algebra:
    """atom registry: which atoms depend on which (for differentiation)"""

    def __init__(self):
        self.inner = {}     # atom name -> ('exp', Frac) | ('ln', Frac)

    def atom(self, name):
        return Frac(Poly.atom(name))

    def exp(self, arg):
        if arg.d != Poly.const(1):
            raise Unsupported("exp of a quotient")
        out = Frac(1)
        for m, c in arg.n.t.items():
            if not m:
                raise Unsupported("exp of a constant")
            key = "exp[%r]" % Poly({m: 1})
            self.inner[key] = ("exp", Frac(Poly({m: 1})))
            out = out * Frac(Poly({((key, lf(c)),): 1}))
        return out

    def ln(self, arg):
        key = "ln[%r]" % arg
        self.inner[key] = ("ln", arg)
        return Frac(Poly.atom(key))

    # ---- differentiation with respect to one base atom
    def d_atom(self, a, wrt):
        if a == wrt:
            return Frac(1)
        info = self.inner.get(a)
        if info is None:
            return Frac(0)
        if info[0] == "exp":
            return Frac(Poly.atom(a)) * self.diff(info[1], wrt)
        return self.diff(info[1], wrt) / info[1]

    def d_poly(self, p, wrt):
        out = Frac(0)
        for m, c in p.t.items():
            for i, (a, e) in enumerate(m):
                da = self.d_atom(a, wrt)
                if da.is_zero():
                    continue
                # d(a^e) = e * a^(e-1) * da ; e may be symbolic: as a polynomial in the parameter atoms
                epoly = Poly({((k, ONE),) if k else (): v for k, v in e})
                rest = m[:i] + ((a, lf_add(e, lf(-1))),) + m[i + 1:]
                rest = tuple(sorted((x, y) for x, y in rest if y))
                out = out + Frac(Poly({rest: c}) * epoly) * da
        return out

    def diff(self, f, wrt):
        dn = self.d_poly(f.n, wrt)
        if f.d == Poly.const(1):
            return dn
        dd = self.d_poly(f.d, wrt)
        return (dn * Frac(f.d) - Frac(f.n) * dd) / (Frac(f.d) * Frac(f.d))


class PW:
    """piecewise value: `t` where the condition holds, `f` elsewhere"""
    __slots__ = ("cond", "t", "f", "cfrac")

    def __init__(self, cond, t, f, cfrac=None):
        self.cond, self.t, self.f = cond, t, f
        self.cfrac = cfrac          # (op, l - r) when the condition is a comparison `l op r` of two algebra values

    def __repr__(self):
        return "[%s ? %r : %r]" % (self.cond, self.t, self.f)


def lift(op, x, y):
    """binary operation on Frac / PW values"""
    if isinstance(x, PW) and isinstance(y, PW):
        if x.cond != y.cond:
            raise Unsupported("two different piecewise conditions")
        return PW(x.cond, lift(op, x.t, y.t), lift(op, x.f, y.f), x.cfrac)
    if isinstance(x, PW):
        return PW(x.cond, lift(op, x.t, y), lift(op, x.f, y), x.cfrac)
    if isinstance(y, PW):
        return PW(y.cond, lift(op, x, y.t), lift(op, x, y.f), y.cfrac)
    return op(x, y)


def lift1(op, x):
    if isinstance(x, PW):
        return PW(x.cond, lift1(op, x.t), lift1(op, x.f), x.cfrac)
    return op(x)


def same(x, y):
    if isinstance(x, PW) or isinstance(y, PW):
        if not (isinstance(x, PW) and isinstance(y, PW)):
            # a piecewise value equals a plain one only if both pieces do
            p, q = (x, y) if isinstance(x, PW) else (y, x)
            return same(p.t, q) and same(p.f, q)
        if x.cond != y.cond:
            return _same_on_intervals(x, y)
        return same(x.t, y.t) and same(x.f, y.f)
    return x.equals(y)


def _cf_leaves(cf, out):
    if cf is None:
        raise Unsupported("two different piecewise conditions")
    if cf[0] in ("And", "Or"):
        for c_ in cf[1]:
            _cf_leaves(c_, out)
    else:
        out.append(cf)


def _cf_affine(fr):
    """fr = c1 * atom + c0 with rational c1 != 0, c0 -> (atom, c1, c0)"""
    if fr.d != Poly.const(1):
        raise Unsupported("two different piecewise conditions")
    atom, c1, c0 = None, None, 0
    for m, c in fr.n.t.items():
        if not m:
            c0 = c
        elif len(m) == 1 and m[0][1] == lf(1) and atom in (None, m[0][0]):
            atom, c1 = m[0][0], c
        else:
            raise Unsupported("two different piecewise conditions")
    if atom is None or not c1:
        raise Unsupported("two different piecewise conditions")
    return atom, c1, c0


def _cf_eval(cf, v):
    if cf[0] == "And":
        return all(_cf_eval(c_, v) for c_ in cf[1])
    if cf[0] == "Or":
        return any(_cf_eval(c_, v) for c_ in cf[1])
    _, c1, c0 = _cf_affine(cf[1])
    w = c1 * v + c0
    return {"Gt": w > 0, "Ge": w >= 0, "Lt": w < 0, "Le": w <= 0}[cf[0]]


def _same_on_intervals(x, y):
    """two piecewise values whose conditions are comparisons of ONE value with constants: they are the same function iff they agree on every
    open interval between the thresholds (False as soon as one interval differs; agreement everywhere except AT the thresholds is left undecided)"""
    leaves = []
    _cf_leaves(x.cfrac, leaves)
    _cf_leaves(y.cfrac, leaves)
    atoms, pts = set(), set()
    for op, fr in leaves:
        a, c1, c0 = _cf_affine(fr)
        atoms.add(a)
        pts.add(Fraction(-c0) / Fraction(c1))
    if len(atoms) != 1:
        raise Unsupported("two different piecewise conditions")
    pts = sorted(pts)
    samples = [pts[0] - 1] + [(a + b) / 2 for a, b in zip(pts, pts[1:])] + [pts[-1] + 1]
    for v in samples:
        px = x.t if _cf_eval(x.cfrac, v) else x.f
        py = y.t if _cf_eval(y.cfrac, v) else y.f
        if not same(px, py):
            return False
    raise Unsupported("piecewise conditions that agree between their thresholds (they may differ at a threshold)")
