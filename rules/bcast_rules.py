"""R40 BROADCAST: the structural clauses of right-aligned broadcasting.

(a) `element_wise_dimensions` pairs the two dimension vectors from the LAST dimension, refuses a
    pair unless `l == o || l == 1 || o == 1` and stores `max(l, o)` — the condition and the
    update are small integer expressions over (l, o) and are decided on the finite grid of
    orderings {1, 2, 3}^2 (values touched only through comparisons);
(b) add, subtract, multiply, divide and axpy apply exactly their scalar operation to the
    operands' elements (forward maps read from the source, exact algebra — see deriv_rules);
(c) ALIGNMENT-CONSISTENCY of `sliced_op`: every place that matches an operand's dimension
    vector against `input_dimensions` must use the same alignment.  A contradiction (matched
    from the right in one place, from the left in another) is a defect for every operand of
    lower rank than the target, whichever of the two is intended — and the property says which.

What is not decided: that the walk, once consistently aligned, visits the right slices
(unit dimensions in the middle need an operand's offset to be *rewound*; that is index
arithmetic over a runtime rank)."""

from . import facts as F
from .core import Ctx
from .facts import callee, resolved, strip, peel, lit_value, walk, ARRAY
from .show import show
from .symalg import Frac, Poly, Unsupported, same

IT = "core::iter::traits::iterator::Iterator::"


def _int_eval(e, env):
    """tiny integer / Boolean interpreter for the body of the pairing loop (l, o bound to small integers)"""
    e = strip(e)
    k = e.get("k")
    if k == "Literal":
        return lit_value(e)
    if k in ("VarRef", "UpvarRef"):
        return env.get(e["v"])
    if k in ("Deref", "Borrow", "Use", "Cast"):
        return _int_eval(e["e"], env)
    if k == "Block" and e.get("e") is not None and not e["stmts"]:
        return _int_eval(e["e"], env)
    if k == "Unary" and e.get("op") == "Not":
        v = _int_eval(e["e"], env)
        return None if v is None else (not v)
    if k == "LogicalOp":
        l = _int_eval(e["l"], env)
        r = _int_eval(e["r"], env)
        if l is None or r is None:
            return None
        return (l and r) if e["op"] == "And" else (l or r)
    if k == "Binary":
        l, r = _int_eval(e["l"], env), _int_eval(e["r"], env)
        if l is None or r is None:
            return None
        op = e["op"]
        return {"Eq": l == r, "Ne": l != r, "Lt": l < r, "Le": l <= r, "Gt": l > r, "Ge": l >= r,
                "Add": l + r, "Mul": l * r, "Sub": l - r}.get(op)
    if k == "Call" and callee(e) in ("core::cmp::max", "core::cmp::Ord::max", "core::cmp::min", "core::cmp::Ord::min") and len(e["args"]) == 2:
        l, r = _int_eval(e["args"][0], env), _int_eval(e["args"][1], env)
        if l is None or r is None:
            return None
        return max(l, r) if callee(e).endswith("max") else min(l, r)
    if k == "If" and e.get("else") is not None:
        cnd = _int_eval(e["cond"], env)
        if cnd is None:
            return None
        return _int_eval(e["then"] if cnd else e["else"], env)
    return None


def _tail_slice(e):
    """(base, start expr) for `X[start..]` (Index / IndexMut with a RangeFrom), else None"""
    e = peel(e)
    if isinstance(e, dict) and e.get("k") == "Call" and callee(e) in ("core::ops::index::Index::index", "core::ops::index::IndexMut::index_mut") and len(e["args"]) == 2:
        r = strip(e["args"][1])
        if r.get("k") == "Adt" and r.get("adt") == "core::ops::range::RangeFrom":
            return peel(e["args"][0]), r["fields"][0]["e"]
    if isinstance(e, dict) and e.get("k") == "Index":
        r = strip(e["i"])
        if r.get("k") == "Adt" and r.get("adt") == "core::ops::range::RangeFrom":
            return peel(e["e"]), r["fields"][0]["e"]
    return None


def _is_len_difference(e, lets, longer, shorter, depth=0):
    """does e denote `longer.len() - shorter.len()` ?"""
    e = strip(e)
    if depth > 4 or not isinstance(e, dict):
        return False
    if e.get("k") in ("VarRef", "UpvarRef") and e["v"] in lets:
        return _is_len_difference(lets[e["v"]], lets, longer, shorter, depth + 1)
    if e.get("k") == "Binary" and e.get("op") == "Sub":
        def len_of(x):
            x = strip(x)
            if isinstance(x, dict) and x.get("k") == "Call" and (callee(x) or "").endswith("::len") and x["args"]:
                return F.var_of(x["args"][0])
            return None
        return len_of(e["l"]) == longer and len_of(e["r"]) == shorter and longer is not None and shorter is not None
    if e.get("k") == "Call" and (callee(e) or "").endswith("saturating_sub") and len(e["args"]) == 2:
        return _is_len_difference({"k": "Binary", "op": "Sub", "l": e["args"][0], "r": e["args"][1]}, lets, longer, shorter, depth + 1)
    return False


def _reversed_chain(e):
    """(source expr, reversed?) for `X.iter().rev()`, `X.iter_mut().rev()`, `X.iter()` .."""
    rev = False
    e = peel(e)
    while isinstance(e, dict) and e.get("k") == "Call":
        c = callee(e) or ""
        if c == IT + "rev":
            rev = not rev
            e = peel(e["args"][0])
        elif c in ("core::slice::<impl [T]>::iter", "core::slice::<impl [T]>::iter_mut", "core::iter::traits::collect::IntoIterator::into_iter",
                   "core::ops::deref::Deref::deref", "core::ops::deref::DerefMut::deref_mut", IT + "copied", IT + "cloned"):
            e = peel(e["args"][0])
        elif c == IT + "skip" or c == IT + "take":
            e = peel(e["args"][0])
        else:
            break
    return e, rev


def r40_broadcast(facts):
    """BROADCAST: element_wise_dimensions pairs dimensions from the last one, refuses unless equal-or-one and takes the maximum; the four operators and axpy apply their scalar operation; sliced_op matches operand dimensions against the target with ONE alignment everywhere"""
    c = Ctx("R40", facts, "right-aligned broadcasting: shape rule, scalar operations, alignment consistency of the slice walk")
    # ------------------------------------------------------------------ (a) the shape rule
    ewd = [b for b in facts.fns() if b.get("name") == "element_wise_dimensions"]
    if not ewd:
        ewd = [b for b in facts.fns() if (b.get("inputs") or []) == ["&[usize]", "&[usize]"] and b.get("output") == "alloc::vec::Vec<usize>"]
    c.floor("broadcast-shape function (&[usize], &[usize]) -> Vec<usize>", len(ewd), 1)
    for b in ewd:
        where = "%s:%d" % (F.rel(b["file"]), b["sp"][0])
        loops = []
        seen = set()
        for n in walk(facts.root(b)):
            fl = F.for_loop_parts(n)
            if fl and id(fl[3]) not in seen:
                seen.add(id(fl[3]))
                loops.append(fl)
        if len(loops) != 1:
            c.unk("dims:loop", where, "the pairing is not written as one `for` loop over zipped dimension iterators (%d loops)" % len(loops))
            continue
        it, pat, body, _ = loops[0]
        z = peel(it)
        if not (isinstance(z, dict) and z.get("k") == "Call" and callee(z) == IT + "zip"):
            c.unk("dims:pairing", where, "loop source is not a zip of the two dimension vectors: %s" % show(it)[:80])
            continue
        (s1, r1), (s2, r2) = _reversed_chain(z["args"][0]), _reversed_chain(z["args"][1])
        lets = {}
        for n_ in walk(facts.root(b)):
            if n_.get("k") == "Block":
                for st in n_["stmts"]:
                    if st["s"] == "let" and st["pat"].get("k") == "Binding" and st.get("init") is not None:
                        lets[st["pat"]["v"]] = st["init"]

        def base_var(x, hops=0):
            v = F.var_of(x)
            while v in lets and hops < 4:
                i_ = strip(lets[v])
                # `let mut result = longer.to_owned()` : a copy of `longer`
                while isinstance(i_, dict) and i_.get("k") == "Call" and (callee(i_) or "").rsplit("::", 1)[-1] in ("to_owned", "to_vec", "clone") and i_["args"]:
                    i_ = peel(i_["args"][0])
                nv = F.var_of(i_)
                if not nv or nv == v:
                    break
                v = nv
                hops += 1
            return v
        aligned = None
        if r1 and r2:
            aligned = "right"
        elif not r1 and not r2:
            t1, t2 = _tail_slice(s1), _tail_slice(s2)
            if t1 and not t2 and _is_len_difference(t1[1], lets, base_var(t1[0]), base_var(s2)):
                aligned = "right"
                s1 = t1[0]
            elif t2 and not t1 and _is_len_difference(t2[1], lets, base_var(t2[0]), base_var(s1)):
                aligned = "right"
            elif not t1 and not t2:
                aligned = "left"
        else:
            aligned = "mixed"
        pnames = [p_["pat"].get("v") for p_ in facts.params(b) if p_.get("pat") and p_["pat"].get("k") == "Binding"]
        for n_ in walk(facts.root(b)):
            if n_.get("k") == "Tuple" and len(n_["fields"]) == 2 and all("usize" in (strip(f_).get("ty") or "") for f_ in n_["fields"]):
                srcs = []
                for f_ in n_["fields"]:
                    f0 = peel(f_)
                    while isinstance(f0, dict) and f0.get("k") == "Call" and (callee(f0) or "").rsplit("::", 1)[-1] in ("to_owned", "to_vec", "clone") and f0["args"]:
                        f0 = peel(f0["args"][0])
                    srcs.append(F.var_of(f0))
                if all(v in pnames for v in srcs) and len(pnames) == 2:
                    if srcs[0] == srcs[1]:
                        c.bad("dims:two-operands", F.loc(b, n_), "one branch pairs a parameter's dimensions with themselves (`%s`): the other operand's shape is ignored" % show(n_)[:50])
                    else:
                        c.ok("dims:two-operands", F.loc(b, n_), "the pair is made of the two different parameters", nontrivial=False)
        if aligned == "right":
            c.ok("dims:right-aligned", F.loc(b, z), "the two dimension vectors are paired from the last dimension (`rev()` on both sides, or the longer one sliced by the rank difference)")
        elif aligned in ("left", "mixed"):
            c.bad("dims:right-aligned", F.loc(b, z), "the dimension vectors are paired %s: broadcasting must align the LAST dimensions" % ("from the front" if aligned == "left" else "with only one side reversed"))
        else:
            c.unk("dims:right-aligned", F.loc(b, z), "how the two dimension vectors are aligned is not recognised: %s" % show(it)[:100])
        if any(x.get("k") == "Call" and callee(x) in (IT + "skip", IT + "step_by", IT + "filter") for x in walk(it)):
            c.bad("dims:all-pairs", F.loc(b, z), "the pairing skips or filters dimensions")
        binds = F.pat_bindings(pat)
        lv = [v for v, _, _, path in binds if [p for p in path if p != "*"] == ["0"]]
        ov = [v for v, _, _, path in binds if [p for p in path if p != "*"] == ["1"]]
        if len(lv) != 1 or len(ov) != 1:
            c.unk("dims:bindings", where, "loop pattern is not `(l, o)`")
            continue
        # the loop body is *executed abstractly* on the nine orderings of {1,2,3}^2 by the small sequential interpreter of index_rules:
        # it either panics (refusal) or leaves a value in the element of the updated vector
        from .index_rules import ListEval, _Panic, Abstain as IAbstain
        from .symalg import Frac as _Frac
        bad_c = bad_m = None
        und = None
        for l in (1, 2, 3):
            for o in (1, 2, 3):
                le = ListEval(facts)
                env = {lv[0]: ("s", _Frac(l)), ov[0]: ("s", _Frac(o))}
                refused = False
                try:
                    le.ev(body, env)
                except _Panic:
                    refused = True
                except (IAbstain, Unsupported, RecursionError) as ex:
                    und = str(ex)
                    continue
                want_refuse = not (l == o or l == 1 or o == 1)
                if refused != want_refuse and bad_c is None:
                    bad_c = (l, o, refused)
                if not refused and not want_refuse:
                    val = le.const(env[lv[0]]) if env[lv[0]][0] == "s" else None
                    if val != max(l, o) and bad_m is None:
                        bad_m = (l, o, val)
        if und is not None:
            c.unk("dims:condition", F.loc(b, body), "the pairing loop's body is outside the small interpreter (%s)" % und)
        else:
            c.check(bad_c is None, "dims:condition", F.loc(b, body), "refuses exactly the pairs that are neither equal nor 1 (all 9 orderings of {1,2,3}^2)",
                    "for the pair (%s, %s) the operation %s, but right-aligned broadcasting says the opposite" % ((bad_c or (0, 0, 0))[0], (bad_c or (0, 0, 0))[1], "refuses" if (bad_c or (0, 0, True))[2] else "does not refuse"))
            c.check(bad_m is None, "dims:maximum", F.loc(b, body), "the result dimension is the pairwise maximum",
                    "for the admissible pair (%s, %s) the result dimension is %s, not the maximum" % (bad_m or (0, 0, 0)))
        # the result starts from the longer vector
        ps = [p for p in facts.params(b) if p.get("pat")]
        tails = []
        t = strip(facts.root(b))
        while isinstance(t, dict) and t.get("k") == "Block" and t.get("e") is not None:
            t = strip(t["e"])
        src_var = F.var_of(s1)
        c.check(F.var_of(t) is not None and F.var_of(t) == src_var, "dims:result", where, "the vector that was updated in place (the longer one) is returned",
                "the function does not return the vector it updated (%s)" % show(t)[:40]) if src_var else c.unk("dims:result", where, "updated vector not recognised")
    # ------------------------------------------------------------------ (b) the scalar operations
    from .deriv_rules import Forward, Abstain
    fl = facts.float or "f64"
    specs = {"core::ops::arith::Add": lambda a, b: a + b, "core::ops::arith::Sub": lambda a, b: a - b,
             "core::ops::arith::Mul": lambda a, b: a * b, "core::ops::arith::Div": lambda a, b: a / b}
    n_ops = 0
    for b in facts.fns():
        tr = b.get("impl_trait_def")
        if tr in specs and (b.get("inputs") or []) == ["&" + ARRAY, "&" + ARRAY]:
            n_ops += 1
            where = "%s:%d" % (F.rel(b["file"]), b["sp"][0])
            fw = Forward(facts)
            try:
                val, names, n_arr = fw.ctor(b)
                vals = fw.ev.alts(val)
            except (Abstain, Unsupported, RecursionError) as ex:
                vals = [("unk", str(ex))]
            inst = "scalar:%s" % tr.rsplit("::", 1)[-1]
            if not vals or any(v[0] != "arr" for v in vals):
                bad_ = [v for v in vals if v[0] != "arr"]
                c.unk(inst, where, "forward value outside the algebra (%s)" % (str(bad_[0][1])[:80] if bad_ else "?"))
                continue
            want = specs[tr](fw.alg.atom("a0"), fw.alg.atom("a1"))
            try:
                wrong = [v for v in vals if not same(v[1], want)]
                c.check(not wrong, inst, where, "element = %r%s" % (want, " on all %d paths" % len(vals) if len(vals) > 1 else ""),
                        "on %s the operator computes %r per element, not %r" % ("one of its paths" if len(vals) > 1 else "every path", wrong[0][1] if wrong else "", want))
            except Unsupported:
                c.unk(inst, where, "comparison outside the algebra")
    c.floor("binary element-wise operators on &Array", n_ops, 4)
    for b in [x for x in facts.fns() if x.get("name") == "axpy" and x.get("impl_self") == ARRAY]:
        where = "%s:%d" % (F.rel(b["file"]), b["sp"][0])
        fw = Forward(facts)
        try:
            val, names, n_arr = fw.ctor(b)
            vals = fw.ev.alts(val)
        except (Abstain, Unsupported, RecursionError) as ex:
            vals = [("unk", str(ex))]
        if len(vals) != 1 or vals[0][0] != "arr":
            c.unk("scalar:axpy", where, "forward value outside the algebra (%s)" % (str(vals[0][1])[:80] if vals else "?"))
        else:
            ps = [p["pat"].get("name") for p in facts.params(b) if p.get("pat") and p["ty"] == fl]
            want = fw.alg.atom("p:" + ps[0]) * fw.alg.atom("a0") + fw.alg.atom("a1") if ps else None
            try:
                c.check(want is not None and same(vals[0][1], want), "scalar:axpy", where, "element = %r" % want, "axpy computes %r per element, not alpha * x + y" % (vals[0][1],))
            except Unsupported:
                c.unk("scalar:axpy", where, "comparison outside the algebra")
    # ------------------------------------------------------------------ (d) every result carries the broadcast dimensions
    from .pass_rules import _return_paths
    from .shape_rules import _lets as _shape_lets, DIMS_PASS
    from .engine_rules import SLICED_OP as _SLICED
    ewd_defs = {b["def"] for b in ewd}
    n_users = 0
    for b in facts.fns():
        root = facts.root(b)
        if root is None or b["def"] in ewd_defs:
            continue
        calls = [n for n in walk(root) if n.get("k") == "Call" and resolved(n) in ewd_defs]
        if not calls:
            continue
        n_users += 1
        env = {}
        for nb in facts.nested(b):
            env.update(_shape_lets(facts, nb))

        def is_broadcast_dims(e, depth=0):
            """True if e denotes the vector computed by the broadcast-shape function; ('operand', text) if it denotes one operand's own dimensions"""
            e = peel(e)
            if not isinstance(e, dict) or depth > 8:
                return None
            if e.get("k") in ("VarRef", "UpvarRef") and e["v"] in env:
                return is_broadcast_dims(env[e["v"]], depth + 1)
            if e.get("k") == "Call":
                if resolved(e) in ewd_defs:
                    return True
                cn, rn = callee(e) or "", resolved(e) or ""
                if (cn in DIMS_PASS or rn in DIMS_PASS or cn.rsplit("::", 1)[-1] in ("clone", "to_vec", "to_owned", "as_slice", "deref", "new", "as_ref", "borrow")) and e["args"]:
                    return is_broadcast_dims(e["args"][0], depth + 1)
                if rn == "corgi::array::Array::dimensions" and e["args"]:
                    return ("operand", show(e)[:50])
            if e.get("k") == "Field" and e.get("name") == "dimensions":
                return ("operand", show(e)[:50])
            return None
        for ctx, e in _return_paths(root):
            t = strip(e)
            v = F.var_of(t)
            if v and t.get("k") == "VarRef" and v in env:
                t = strip(env[v])
            inst = "result-dims:%s" % b["def"]
            dims_e = None
            if t.get("k") == "Call" and resolved(t) == _SLICED and len(t["args"]) >= 7:
                if lit_value(t["args"][6]) == 0:
                    dims_e = t["args"][4]
                # the dimensions the operands are broadcast TO (the walk's target) are the broadcast dimensions as well
                tv_ = is_broadcast_dims(t["args"][3])
                if isinstance(tv_, tuple):
                    c.bad("target-dims:%s" % b["def"], F.loc(b, t["args"][3]), "the element-wise combinator hands `%s` - one operand's own dimensions - to sliced_op as the dimensions to broadcast to: "
                          "the other operand is refused (or mis-walked) whenever it is the larger one" % tv_[1])
                elif tv_ is True:
                    c.ok("target-dims:%s" % b["def"], F.loc(b, t["args"][3]), "the operands are broadcast to the dimensions computed by the broadcast-shape function", nontrivial=False)
            elif t.get("k") == "Call" and (resolved(t) or "").startswith("<%s as core::convert::From<(" % ARRAY) and t["args"]:
                tup = strip(t["args"][0])
                if tup.get("k") == "Tuple" and len(tup["fields"]) == 2:
                    dims_e = tup["fields"][0]
            if dims_e is None:
                # a clone of one operand has that operand's own dimensions
                t2 = t
                while isinstance(t2, dict) and t2.get("k") == "Call" and ((resolved(t2) or "") == "<%s as core::clone::Clone>::clone" % ARRAY) and t2["args"]:
                    t2 = peel(t2["args"][0])
                pvars = {p_["pat"]["v"] for p_ in facts.params(b) if p_.get("pat") and p_["pat"].get("k") == "Binding" and (p_.get("ty") or "").replace("&", "").strip() == ARRAY}
                if t2 is not t and isinstance(t2, dict) and t2.get("k") in ("VarRef", "UpvarRef") and t2["v"] in pvars:
                    verdict = ("operand", "%s.dimensions (the result is a clone of `%s`)" % (t2["v"].split("#")[0], t2["v"].split("#")[0]))
                else:
                    c.unk(inst, F.loc(b, e), "a result of the element-wise combinator is built in a way whose dimensions are not read: %s" % show(t)[:80])
                    continue
            else:
                verdict = is_broadcast_dims(dims_e)
            if verdict is True:
                c.ok(inst, F.loc(b, e), "the result is built with the dimensions computed by the broadcast-shape function")
            elif isinstance(verdict, tuple):
                # under a guard that compares the operands' shapes the operand's own dimensions may be the broadcast dimensions
                shape_conds = [cond for cond, truth in F.path_facts(ctx)
                               if any(x.get("k") == "Field" and x.get("name") == "dimensions" or (x.get("k") == "Call" and resolved(x) == "corgi::array::Array::dimensions") for x in walk(cond))]
                if shape_conds:
                    both_eq = any(truth and strip(cond).get("k") in ("Binary", "Call") and (strip(cond).get("op") == "Eq" or callee(strip(cond)) == "core::cmp::PartialEq::eq")
                                  and len({show(x)[:40] for x in walk(cond) if x.get("k") == "Field" and x.get("name") == "dimensions"}) >= 2
                                  for cond, truth in F.path_facts(ctx))
                    if both_eq:
                        c.ok(inst, F.loc(b, e), "built with one operand's dimensions on a path where the two operands' dimensions are equal")
                    else:
                        c.unk(inst, F.loc(b, e), "built with one operand's dimensions (`%s`) under a condition on the shapes (`%s`) that this rule does not decide" % (verdict[1], show(shape_conds[0])[:60]))
                    continue
                c.bad(inst, F.loc(b, e), "a result of the element-wise combinator is built with one operand's own dimensions (`%s`) instead of the pairwise-maximum "
                      "dimensions computed by the broadcast-shape function: wrong whenever the other operand has more dimensions or a larger one" % verdict[1])
            else:
                c.unk(inst, F.loc(b, e), "where the result's dimensions (`%s`) come from is not recognised" % (show(dims_e)[:60] if dims_e is not None else "?"))
    c.floor("functions that compute a broadcast shape (the element-wise combinator)", n_users, 1)
    # ------------------------------------------------------------------ (e) the period with which an operand's row is re-used is that operand's LAST dimension
    from .repr_rules import vec_literal_elems as _vle
    from .facts import is_sliced_closure
    for b in facts.fns():
        root = facts.root(b)
        if root is None or b["def"] in ewd_defs or not any(n.get("k") == "Call" and resolved(n) in ewd_defs for n in walk(root)):
            continue
        order = None
        for n in walk(root):
            if n.get("k") == "Call" and resolved(n) == _SLICED and len(n["args"]) >= 7 and lit_value(n["args"][5]) == 1:
                els = _vle(n["args"][0])
                if els:
                    order = [F.var_of(peel(x)) for x in els]
        if not order:
            continue
        env = {}
        for nb in facts.nested(b):
            env.update(_shape_lets(facts, nb))
        for nb in facts.nested(b):
            if nb is b or not is_sliced_closure(nb, facts):
                continue
            cps = [p_ for p_ in facts.params(nb) if p_.get("pat")]
            arrv = cps[1]["pat"].get("v") if len(cps) >= 2 and cps[1]["pat"].get("k") == "Binding" else None
            outv_ = cps[0]["pat"].get("v") if cps and cps[0]["pat"].get("k") == "Binding" else None
            for n in walk(facts.root(nb)):
                fl_ = F.for_loop_parts(n)
                if fl_ and outv_ and any(x.get("k") in ("VarRef", "UpvarRef") and x["v"] == outv_ for x in walk(fl_[0])):
                    posn = [x for x in walk(fl_[0]) if x.get("k") == "Call" and (callee(x) or "").rsplit("::", 1)[-1] in ("take", "skip", "step_by", "filter", "take_while", "skip_while")]
                    if posn:
                        c.bad("fill:%s" % b["def"], F.loc(nb, posn[0]), "the loop that fills the output row is cut by `%s`: some elements of the result are never computed (they keep the initial 0)"
                              % (callee(posn[0]) or "").rsplit("::", 1)[-1])
                    else:
                        c.ok("fill:%s" % b["def"], F.loc(nb, fl_[0]), "the loop over the output row visits every element", nontrivial=False)
            for n in walk(facts.root(nb)):
                if not (n.get("k") == "Binary" and n.get("op") == "Rem"):
                    continue
                # which operand slice is being indexed with this remainder?
                k_ = None
                for x in walk(facts.root(nb)):
                    if x.get("k") == "Index" and any(y is n for y in walk(x["i"])):
                        inner = peel(x["e"])
                        if isinstance(inner, dict) and inner.get("k") == "Index" and F.var_of(inner["e"]) == arrv:
                            k_ = lit_value(inner["i"])
                if k_ is None or not (0 <= k_ < len(order)) or order[k_] is None:
                    continue
                m_ = peel(n["r"])
                hops = 0
                while isinstance(m_, dict) and m_.get("k") in ("VarRef", "UpvarRef") and m_["v"] in env and hops < 4:
                    m_ = peel(env[m_["v"]])
                    hops += 1
                # accepted: the last dimension of operand k (last().unwrap(), dimensions[len - 1]) or the length of its slice
                txt = show(m_) if isinstance(m_, dict) else "?"
                opname = order[k_]
                reads_op = any(y.get("k") in ("VarRef", "UpvarRef") and y["v"] == opname for y in walk(m_)) if isinstance(m_, dict) else False
                is_last = False
                if isinstance(m_, dict):
                    calls = [(callee(y) or "").rsplit("::", 1)[-1] for y in walk(m_) if y.get("k") == "Call"]
                    dims_read = any(y.get("k") == "Field" and y.get("name") == "dimensions" for y in walk(m_)) or any((resolved(y) or "") == "corgi::array::Array::dimensions" for y in walk(m_) if y.get("k") == "Call")
                    if dims_read and "last" in calls:
                        is_last = True
                    ix_ = [y for y in walk(m_) if y.get("k") == "Index" or (y.get("k") == "Call" and callee(y) == "core::ops::index::Index::index")]
                    if dims_read and ix_ and any(z.get("k") == "Binary" and z.get("op") == "Sub" and lit_value(z["r"]) == 1 for z in walk(m_)):
                        is_last = True
                inst = "period:%s#%d" % (b["def"], k_)
                if reads_op and is_last:
                    c.ok(inst, F.loc(nb, n), "operand %d's row is re-used with the period of its own last dimension" % k_)
                elif reads_op:
                    c.bad(inst, F.loc(nb, n), "operand %d's row (a slice along its LAST dimension) is indexed modulo `%s`, which is not that operand's last dimension: for an operand whose last dimension is 1 "
                          "against a longer one the index runs past the one-element row" % (k_, txt[:50]))
                elif isinstance(m_, dict) and any(y.get("k") in ("VarRef", "UpvarRef") and y["v"] in order and y["v"] != opname for y in walk(m_)):
                    c.bad(inst, F.loc(nb, n), "operand %d's row is indexed modulo a quantity of the OTHER operand (`%s`)" % (k_, txt[:50]))
                else:
                    c.unk(inst, F.loc(nb, n), "the period `%s` used for operand %d is not recognised" % (txt[:50], k_))
    # ------------------------------------------------------------------ (c) alignment consistency of the slice walk
    so = facts.body("corgi::array::Array::sliced_op")
    if so is None:
        c.unk("align:sliced_op", "-", "sliced_op not found")
        return c
    _sliced_validity(facts, c, so)
    ps = [p for p in facts.params(so) if p.get("pat")]
    in_dims = ps[3]["pat"].get("v") if len(ps) > 3 and ps[3]["pat"].get("k") == "Binding" else None
    right, left = [], []
    for nb in facts.nested(so):
        root = facts.root(nb)
        for n in walk(root):
            # right-aligned: zip(X.dimensions.iter().rev().., input_dimensions.iter().rev()..)
            if n.get("k") == "Call" and callee(n) == IT + "zip" and len(n["args"]) == 2:
                (s1, r1), (s2, r2) = _reversed_chain(n["args"][0]), _reversed_chain(n["args"][1])
                f1 = F.field_chain(s1)[1] if isinstance(s1, dict) else []
                f2 = F.field_chain(s2)[1] if isinstance(s2, dict) else []
                is_dims = lambda s_, f_: f_[-1:] == ["dimensions"]
                is_in = lambda s_: F.var_of(s_) == in_dims
                if (is_dims(s1, f1) and is_in(s2)) or (is_dims(s2, f2) and is_in(s1)):
                    (right if (r1 and r2) else left).append((nb, n, "zip"))
        # left-aligned by position: `for (i, ..) in <..input_dimensions..>.enumerate()` ... `array.dimensions[i]`
        for n in walk(root):
            fl_ = F.for_loop_parts(n)
            if not fl_:
                continue
            it, pat, body, _ = fl_
            if not any(x.get("k") == "Call" and callee(x) == IT + "enumerate" for x in walk(it)):
                continue
            if not any(x.get("k") in ("VarRef", "UpvarRef") and x["v"] == in_dims for x in walk(it)):
                continue
            idx_vars = [v for v, _, ty, path in F.pat_bindings(pat) if [p for p in path if p != "*"] == ["0"]]
            # `.enumerate().rev()` keeps absolute positions: still counted from the front
            for x in walk(body):
                ix = None
                if x.get("k") == "Index":
                    ix = x
                elif x.get("k") == "Call" and callee(x) == "core::ops::index::Index::index" and len(x["args"]) == 2:
                    ix = {"e": x["args"][0], "i": x["args"][1]}
                if ix is None:
                    continue
                ch = F.field_chain(ix["e"])[1]
                iv = strip(ix["i"])
                if ch[-1:] == ["dimensions"] and iv.get("k") in ("VarRef", "UpvarRef") and iv["v"] in idx_vars:
                    left.append((nb, x, "index"))
    c.count("places matching an operand's dimensions against input_dimensions", len(right) + len(left))
    if not right and not left:
        c.unk("align:corgi::array::Array::sliced_op", "%s:%d" % (F.rel(so["file"]), so["sp"][0]), "no place where operand dimensions are matched against input_dimensions was recognised")
    elif right and left:
        nb, n, how = left[0]
        rb, rn, _ = right[0]
        c.bad("align:corgi::array::Array::sliced_op", F.loc(nb, n),
              "operand dimensions are matched against `input_dimensions` from the LAST dimension in the broadcast check (%s) but by absolute position from the FIRST "
              "dimension where the operand slices are advanced (`%s`): for an operand of lower rank than the target the slices are advanced along the wrong dimensions "
              "(e.g. [2,3,4] + [3,4] returns values computed from the wrong elements)" % (F.loc(rb, rn), show(n)[:50]))
    else:
        c.ok("align:corgi::array::Array::sliced_op", "%s:%d" % (F.rel(so["file"]), so["sp"][0]),
             "operand dimensions are matched against the target with one alignment (%s) in all %d places" % ("from the last dimension" if right else "by absolute position", len(right) + len(left)))
    return c


def r40_alignment_only(facts):
    """ALIGNMENT-CONSISTENCY (part (c) of R40 alone): every place where sliced_op matches an operand's dimensions against the target uses ONE alignment - the walk every batched product (leading-dimension broadcast of matmul) and every broadcast reduction goes through"""
    c = r40_broadcast(facts)
    c.obs = [o for o in c.obs if "@align:" in o.key]
    c.analysed = {}
    c.title = "alignment consistency of the slice walk (sliced_op)"
    return c


def _sliced_validity(facts, c, so):
    """the refusal of sliced_op: EVERY operand must have EVERY (non-sliced) dimension equal to 1 or to the target's"""
    from .config_rules import _panics
    root = facts.root(so)
    lets = {}
    for n in walk(root):
        if n.get("k") == "Block":
            for st in n["stmts"]:
                if st["s"] == "let" and st["pat"].get("k") == "Binding" and st.get("init") is not None:
                    lets[st["pat"]["v"]] = st["init"]
    ps = [p for p in facts.params(so) if p.get("pat")]
    arrv = ps[0]["pat"].get("v") if ps and ps[0]["pat"].get("k") == "Binding" else None
    found = None
    for n in walk(root):
        if n.get("k") == "If" and n.get("else") is None and _panics(n["then"]):
            cond = strip(n["cond"])
            neg = False
            while isinstance(cond, dict) and cond.get("k") == "Unary" and cond.get("op") == "Not":
                cond = strip(cond["e"])
                neg = not neg
            hops = 0
            while isinstance(cond, dict) and cond.get("k") == "VarRef" and cond["v"] in lets and hops < 3:
                cond = strip(lets[cond["v"]])
                hops += 1
            while isinstance(cond, dict) and cond.get("k") == "Block" and cond.get("e") is not None and not cond["stmts"]:
                cond = strip(cond["e"])
            if neg and isinstance(cond, dict) and cond.get("k") == "Call" and (callee(cond) or "").startswith(IT) and any(
                    x.get("k") in ("VarRef", "UpvarRef") and x["v"] == arrv for x in walk(cond["args"][0])):
                found = (n, cond)
    inst = "align:validity"
    if found is None:
        c.unk(inst, F.loc(so, root), "the assertion that refuses operands which do not broadcast to the target is not in a recognised form")
        return
    n, cond = found
    outer = (callee(cond) or "").rsplit("::", 1)[-1]
    clo = strip(cond["args"][1]) if len(cond["args"]) > 1 else None
    cb = facts.body(clo["closure"]) if isinstance(clo, dict) and clo.get("k") == "Closure" else None
    inner = None
    pred = None
    if cb is not None:
        for x in walk(facts.root(cb)):
            if x.get("k") == "Call" and (callee(x) or "") in (IT + "all", IT + "any") and len(x["args"]) == 2:
                inner = (callee(x) or "").rsplit("::", 1)[-1]
                pc = strip(x["args"][1])
                pred = facts.body(pc["closure"]) if isinstance(pc, dict) and pc.get("k") == "Closure" else None
    if outer not in ("all", "any") or inner is None or pred is None:
        c.unk(inst, F.loc(so, n), "the broadcast-validity condition is not `arrays.iter().all(|v| dims.zip(target).all(|(x, y)| ..))`")
        return
    # the per-dimension predicate on the grid {1,2,3}^2: true exactly when x == 1 or x == y
    pvars = [v for p_ in facts.params(pred) if p_.get("pat") for v, _, _, _ in F.pat_bindings(p_["pat"])]

    def num(e, env):
        e = strip(e)
        k = e.get("k") if isinstance(e, dict) else None
        if k == "Literal":
            return lit_value(e)
        if k in ("VarRef", "UpvarRef"):
            return env.get(e["v"])
        if k in ("Deref", "Borrow", "Use"):
            return num(e["e"], env)
        if k == "Block" and e.get("e") is not None and not e["stmts"]:
            return num(e["e"], env)
        if k == "Binary":
            a, b_ = num(e["l"], env), num(e["r"], env)
            if a is None or b_ is None:
                return None
            return {"Eq": a == b_, "Ne": a != b_, "Lt": a < b_, "Le": a <= b_, "Gt": a > b_, "Ge": a >= b_}.get(e["op"])
        if k == "LogicalOp":
            a, b_ = num(e["l"], env), num(e["r"], env)
            if a is None or b_ is None:
                return None
            return (a and b_) if e["op"] == "And" else (a or b_)
        if k == "Unary" and e.get("op") == "Not":
            a = num(e["e"], env)
            return None if a is None else (not a)
        return None
    wrong = None
    undecided = False
    if len(pvars) == 2:
        for x in (1, 2, 3):
            for y in (1, 2, 3):
                v = num(facts.root(pred), {pvars[0]: x, pvars[1]: y})
                if v is None:
                    undecided = True
                elif bool(v) != (x == 1 or x == y):
                    wrong = wrong or (x, y, v)
    else:
        undecided = True
    if outer != "all" or inner != "all":
        c.bad(inst, F.loc(so, n), "sliced_op accepts its operands if %s operand has %s dimension compatible with the target: operands that do not broadcast are walked anyway "
              "(every operand, every dimension must be 1 or equal to the target's)" % ("SOME" if outer == "any" else "every", "SOME" if inner == "any" else "every"))
    elif wrong:
        c.bad(inst, F.loc(so, n), "the per-dimension compatibility test is %s for an operand dimension %d against a target dimension %d (it must hold exactly when the operand's is 1 or equal)" % (wrong[2], wrong[0], wrong[1]))
    elif undecided:
        c.unk(inst, F.loc(so, n), "the per-dimension compatibility test is not a Boolean expression of the two dimensions")
    else:
        c.ok(inst, F.loc(so, n), "every operand, every non-sliced dimension: 1 or equal to the target's (checked on {1,2,3} x {1,2,3})")
