"""THIR-level inlining of private helper functions, so that rules written over the shape of
one body (the backward engine) keep working when code is moved into private helpers.

`engine_view(facts)` returns a Facts-like object in which the bodies of the engine
functions have every call of a private, non-recursive, return-free crate helper replaced by
the helper's body (parameters that receive a plain variable are substituted, the others
become `let`s; helper-local variables and closures are renamed apart)."""

import copy

from . import facts as F
from .facts import walk, strip, peel, resolved, ARRAY

NEVER_INLINE = ("backward", "propagate_consumers", "flatten_to", "with_children", "with_backward_op", "sliced_op", "op")


class ViewFacts:
    """Facts with an overlay of rewritten bodies."""

    def __init__(self, base):
        self.base = base
        self.overlay = {}
        self.inlined = {}       # root def -> [helper defs inlined]
        self._counter = 0

    def __getattr__(self, name):
        return getattr(self.base, name)

    def body(self, d):
        return self.overlay.get(d) or self.base.body(d)

    def root(self, b):
        b2 = self.overlay.get(b["def"], b)
        return b2["thir"]["root"] if b2.get("thir") else None

    def params(self, b):
        b2 = self.overlay.get(b["def"], b)
        return b2["thir"]["params"] if b2.get("thir") else []

    def nested(self, b):
        """b and the closure bodies reachable from its (possibly rewritten) tree"""
        out = [self.overlay.get(b["def"], b)]
        seen = {b["def"]}
        todo = [self.root(b)]
        while todo:
            r = todo.pop()
            for n in walk(r):
                if n.get("k") == "Closure" and n["closure"] not in seen:
                    seen.add(n["closure"])
                    cb = self.body(n["closure"])
                    if cb is not None:
                        out.append(cb)
                        todo.append(self.root(cb))
        return out

    def closures(self):
        return self.base.closures()

    def fns(self):
        return [self.overlay.get(b["def"], b) for b in self.base.fns()]

    def find(self, suffix):
        return self.base.find(suffix)

    def adt_fields(self, adt):
        return self.base.adt_fields(adt)


def _rename_tree(view, tree, suffix, subst):
    t = copy.deepcopy(tree)
    _rename_in_place(view, t, suffix, subst)
    return t


def _rename_in_place(view, t, suffix, subst):
    stack = [t]
    while stack:
        x = stack.pop()
        if isinstance(x, dict):
            if "v" in x and isinstance(x["v"], str):
                x["v"] = subst.get(x["v"], x["v"] + suffix)
            if x.get("k") == "Closure" and isinstance(x.get("closure"), str):
                old = x["closure"]
                new = old + suffix
                if new not in view.overlay:
                    cb = view.body(old)
                    if cb is not None:
                        cb2 = copy.deepcopy(cb)
                        cb2["def"] = new
                        cb2["orig_def"] = cb.get("orig_def", old)
                        view.overlay[new] = cb2
                        if cb2.get("thir"):
                            _rename_in_place(view, cb2["thir"], suffix, subst)
                        for cap in cb2.get("captures", []) or []:
                            if cap.get("v"):
                                cap["v"] = subst.get(cap["v"], cap["v"] + suffix)
                x["closure"] = new
            for v in x.values():
                if isinstance(v, (dict, list)):
                    stack.append(v)
        elif isinstance(x, list):
            for v in x:
                if isinstance(v, (dict, list)):
                    stack.append(v)


def default_policy(facts, callee_body):
    if callee_body is None or callee_body["kind"] not in ("Fn", "AssocFn"):
        return False
    if callee_body.get("reachable"):
        return False                    # public API is never dissolved
    if callee_body.get("name") in NEVER_INLINE:
        return False
    if callee_body.get("impl_trait_def"):
        return False
    root = facts.root(callee_body)
    if root is None:
        return False
    for n in walk(root):
        if n.get("k") == "Return":
            return False
        if n.get("k") == "Call" and resolved(n) == callee_body["def"]:
            return False                # recursive
    return True


def _inline_calls(view, tree, policy, stack, depth, log):
    """rewrite `tree` in place: inline eligible calls (post-order so that arguments are done first)"""
    if depth > 3:
        return

    def visit(x):
        if isinstance(x, dict):
            for k, v in list(x.items()):
                if isinstance(v, dict):
                    nv = visit(v)
                    if nv is not v:
                        x[k] = nv
                elif isinstance(v, list):
                    for i, it in enumerate(v):
                        if isinstance(it, dict):
                            ni = visit(it)
                            if ni is not it:
                                v[i] = ni
            if x.get("k") == "Call":
                c = x.get("callee") or {}
                d = c.get("resolved")
                if c.get("resolved_local") and d and d not in stack:
                    cb = view.base.body(d)
                    if policy(view.base, cb):
                        return build(x, cb)
            return x
        return x

    def build(call, cb):
        view._counter += 1
        suffix = "@%d" % view._counter
        params = [p for p in view.base.params(cb) if p.get("pat")]
        subst = {}
        lets = []
        for p, a in zip(params, call["args"]):
            pat = p["pat"]
            pa = peel(a)
            if pat.get("k") == "Binding" and not pat.get("sub") and isinstance(pa, dict) and pa.get("k") in ("VarRef", "UpvarRef"):
                subst[pat["v"]] = pa["v"]
            else:
                lets.append({"s": "let", "sp": call.get("sp"), "pat": None, "init": a, "_pat_src": pat})
        body = _rename_tree(view, view.base.root(cb), suffix, subst)
        for l in lets:
            l["pat"] = _rename_tree(view, l.pop("_pat_src"), suffix, subst)
        log.append(cb["def"])
        blk = {"k": "Block", "sp": call.get("sp"), "safety": "safe", "stmts": lets, "e": body, "ty": call.get("ty"), "inlined": cb["def"]}
        _inline_calls(view, blk["e"], policy, stack + [cb["def"]], depth + 1, log)
        return blk

    visit(tree)


def inline_body(view, b, policy=default_policy):
    if b["def"] in view.overlay:
        return view.overlay[b["def"]]
    nb = copy.deepcopy(b)
    log = []
    if nb.get("thir"):
        _inline_calls(view, nb["thir"]["root"], policy, [b["def"]], 0, log)
    view.overlay[b["def"]] = nb
    view.inlined[b["def"]] = log
    return nb


_CACHE = {}


def engine_view(facts):
    """Facts view with the engine functions' private helpers inlined (memoised per fact set)."""
    if isinstance(facts, ViewFacts):
        return facts
    key = id(facts)
    if key in _CACHE and _CACHE[key][0] is facts:
        return _CACHE[key][1]
    view = ViewFacts(facts)
    for b in facts.fns():
        if b.get("impl_self") == ARRAY and b.get("impl_trait_def") is None and b.get("name") in ("backward", "propagate_consumers"):
            inline_body(view, b)
    _CACHE.clear()
    _CACHE[key] = (facts, view)
    return view
