"""THIR-level inlining of private helper functions, so that rules written over the shape of
one body (the backward engine) keep working when code is moved into private helpers.

`engine_view(facts)` returns a Facts-like object in which the bodies of the engine
functions have every call of a private, non-recursive, return-free crate helper replaced by
the helper's body (parameters that receive a plain variable are substituted, the others
become `let`s; helper-local variables and closures are renamed apart)."""

import copy

from . import facts as F
from .facts import walk, strip, peel, resolved, callee, ARRAY

# functions the rules refer to by (canonical) name are kept as calls
NEVER_INLINE = ("backward", "propagate_consumers", "flatten_to", "with_children", "with_backward_op", "sliced_op", "op",
                "tracked", "untracked", "start_tracking", "stop_tracking", "dimensions", "values", "gradient", "gradient_mut",
                "replace_gradient", "reshape", "matmul", "sum", "sum_all")


class ViewFacts:
    """Facts with an overlay of rewritten bodies."""

    def __init__(self, base):
        self.base = base
        self.overlay = {}
        self.inlined = {}       # root def -> [helper defs inlined]
        self._counter = 0

    def __getattr__(self, name):
        return getattr(self.base, name)

    def body(self, d):
        return self.overlay.get(d) or self.base.body(d)

    def root(self, b):
        b2 = self.overlay.get(b["def"], b)
        return b2["thir"]["root"] if b2.get("thir") else None

    def params(self, b):
        b2 = self.overlay.get(b["def"], b)
        return b2["thir"]["params"] if b2.get("thir") else []

    def nested(self, b):
        """b and the closure bodies reachable from its (possibly rewritten) tree"""
        out = [self.overlay.get(b["def"], b)]
        seen = {b["def"]}
        todo = [self.root(b)]
        while todo:
            r = todo.pop()
            for n in walk(r):
                if n.get("k") == "Closure" and n["closure"] not in seen:
                    seen.add(n["closure"])
                    cb = self.body(n["closure"])
                    if cb is not None:
                        out.append(cb)
                        todo.append(self.root(cb))
        return out

    def closures(self):
        return self.base.closures()

    def fns(self):
        return [self.overlay.get(b["def"], b) for b in self.base.fns()]

    def find(self, suffix):
        return self.base.find(suffix)

    def adt_fields(self, adt):
        return self.base.adt_fields(adt)


def _rename_tree(view, tree, suffix, subst):
    t = copy.deepcopy(tree)
    _rename_in_place(view, t, suffix, subst)
    return t


def _rename_in_place(view, t, suffix, subst):
    stack = [t]
    while stack:
        x = stack.pop()
        if isinstance(x, dict):
            if "v" in x and isinstance(x["v"], str):
                x["v"] = subst.get(x["v"], x["v"] + suffix)
            if x.get("k") == "Closure" and isinstance(x.get("closure"), str):
                old = x["closure"]
                new = old + suffix
                if new not in view.overlay:
                    cb = view.body(old)
                    if cb is not None:
                        cb2 = copy.deepcopy(cb)
                        cb2["def"] = new
                        cb2["orig_def"] = cb.get("orig_def", old)
                        view.overlay[new] = cb2
                        if cb2.get("thir"):
                            _rename_in_place(view, cb2["thir"], suffix, subst)
                        for cap in cb2.get("captures", []) or []:
                            if cap.get("v"):
                                cap["v"] = subst.get(cap["v"], cap["v"] + suffix)
                x["closure"] = new
            for v in x.values():
                if isinstance(v, (dict, list)):
                    stack.append(v)
        elif isinstance(x, list):
            for v in x:
                if isinstance(v, (dict, list)):
                    stack.append(v)


def eliminate_returns(root):
    """Rewrite `{ s1; if c { return A; } s2; tail }` into `{ s1; if c { A } else { s2; tail } }`
    (in place, recursively on the else-part) so that helpers written with early returns can
    be inlined as expressions.  Returns True if no `return` is left."""
    def ends_with_return(blk):
        b = strip(blk)
        if isinstance(b, dict) and b.get("k") == "Return":
            return b
        if isinstance(b, dict) and b.get("k") == "Block":
            if b.get("e") is not None:
                return ends_with_return(b["e"])
            if b["stmts"] and b["stmts"][-1]["s"] == "expr":
                return ends_with_return(b["stmts"][-1]["e"])
        return None

    def replace_return(blk):
        """make the block evaluate to the returned expression instead of returning it"""
        b = strip(blk)
        if b.get("k") == "Return":
            return b["e"] if b.get("e") is not None else {"k": "Tuple", "fields": [], "ty": "()", "sp": b.get("sp")}
        if b.get("k") == "Block":
            if b.get("e") is not None:
                b["e"] = replace_return(b["e"])
            elif b["stmts"]:
                last = b["stmts"].pop()
                b["e"] = replace_return(last["e"])
            return b
        return b

    def fix(blk):
        if not isinstance(blk, dict) or blk.get("k") != "Block":
            return
        for i, st in enumerate(blk["stmts"]):
            if st["s"] != "expr":
                continue
            e = strip(st["e"])
            if isinstance(e, dict) and e.get("k") == "If" and e.get("else") is None and ends_with_return(e["then"]) is not None \
                    and not any(x.get("k") == "Return" for x in walk(e["cond"])):
                rest = {"k": "Block", "sp": blk.get("sp"), "safety": "safe", "stmts": blk["stmts"][i + 1:], "e": blk.get("e"), "ty": blk.get("ty")}
                then_v = replace_return(e["then"])
                new_if = {"k": "If", "ty": blk.get("ty"), "sp": e.get("sp"), "cond": e["cond"], "then": then_v, "else": rest}
                blk["stmts"] = blk["stmts"][:i]
                blk["e"] = new_if
                fix(rest)
                return
        # a trailing `return x` as the last statement / tail
        if blk.get("e") is not None and strip(blk["e"]).get("k") == "Return":
            blk["e"] = replace_return(blk["e"])
        elif blk.get("e") is None and blk["stmts"] and blk["stmts"][-1]["s"] == "expr" and isinstance(strip(blk["stmts"][-1]["e"]), dict) \
                and strip(blk["stmts"][-1]["e"]).get("k") == "Return":
            last = blk["stmts"].pop()
            blk["e"] = replace_return(last["e"])
    r = strip(root)
    fix(r)
    return not any(x.get("k") == "Return" for x in walk(root))


def default_policy(facts, callee_body):
    if callee_body is None or callee_body["kind"] not in ("Fn", "AssocFn"):
        return False
    if callee_body.get("name") in NEVER_INLINE:
        return False
    if callee_body.get("impl_trait_def"):
        return False
    root = facts.root(callee_body)
    if root is None:
        return False
    size = 0
    for n in walk(root):
        size += 1
        if n.get("k") == "Call" and resolved(n) in ("corgi::array::Array::with_children", "corgi::array::Array::sliced_op",
                                                    "corgi::array::Array::with_backward_op"):
            return False                # an operation constructor: a node of the program, not engine plumbing
    if size > 400:
        return False
    for n in walk(root):
        if n.get("k") == "Call" and resolved(n) == callee_body["def"]:
            return False                # recursive
    if any(n.get("k") == "Return" for n in walk(root)):
        trial = copy.deepcopy(root)
        if not eliminate_returns(trial):
            return False
    return True


def _inline_calls(view, tree, policy, stack, depth, log):
    """rewrite `tree` in place: inline eligible calls (post-order so that arguments are done first)"""
    if depth > 3:
        return

    FN_CALLS = ("core::ops::function::Fn::call", "core::ops::function::FnMut::call_mut", "core::ops::function::FnOnce::call_once")
    # local closures bound once by `let name = |..| ..;` (never re-assigned): calls of them are inlined as well
    clos = {}
    for n in walk(tree):
        if n.get("k") == "Block":
            for st in n["stmts"]:
                if st["s"] == "let" and isinstance(st.get("pat"), dict) and st["pat"].get("k") == "Binding" and not st["pat"].get("sub") \
                        and st.get("init") is not None and isinstance(strip(st["init"]), dict) and strip(st["init"]).get("k") == "Closure":
                    clos[st["pat"]["v"]] = strip(st["init"])["closure"]
    inlined_clos = set()

    def visit(x):
        if isinstance(x, dict):
            for k, v in list(x.items()):
                if isinstance(v, dict):
                    nv = visit(v)
                    if nv is not v:
                        x[k] = nv
                elif isinstance(v, list):
                    for i, it in enumerate(v):
                        if isinstance(it, dict):
                            ni = visit(it)
                            if ni is not it:
                                v[i] = ni
            if x.get("k") == "Call":
                c = x.get("callee") or {}
                d = c.get("resolved")
                if c.get("resolved_local") and d and d not in stack:
                    cb = view.base.body(d)
                    if policy(view.base, cb):
                        return build(x, cb)
                if c.get("path") in FN_CALLS and len(x["args"]) == 2:
                    f = peel(x["args"][0])
                    tup = strip(x["args"][1])
                    if isinstance(f, dict) and f.get("k") in ("VarRef", "UpvarRef") and f["v"] in clos and isinstance(tup, dict) and tup.get("k") == "Tuple":
                        cd = clos[f["v"]]
                        cb = view.body(cd)
                        if cb is not None and cd not in stack and closure_policy(view, cb):
                            inlined_clos.add(f["v"])
                            return build(x, cb, args=tup["fields"], is_closure=True)
            return x
        return x

    def build(call, cb, args=None, is_closure=False):
        view._counter += 1
        suffix = "@%d" % view._counter
        params = [p for p in view.params(cb) if p.get("pat")]
        subst = {}
        lets = []
        if is_closure:
            # captured variables keep their identity (they are the enclosing body's variables)
            for cap in cb.get("captures", []) or []:
                if cap.get("v"):
                    subst[cap["v"]] = cap["v"]
            for x_ in walk(view.root(cb)):
                if x_.get("k") == "UpvarRef":
                    subst.setdefault(x_["v"], x_["v"])
        for p, a in zip(params, call["args"] if args is None else args):
            pat = p["pat"]
            pa = peel(a)
            if pat.get("k") == "Binding" and not pat.get("sub") and isinstance(pa, dict) and pa.get("k") in ("VarRef", "UpvarRef"):
                subst[pat["v"]] = pa["v"]
            else:
                lets.append({"s": "let", "sp": call.get("sp"), "pat": None, "init": a, "_pat_src": pat})
        body = _rename_tree(view, view.root(cb) if is_closure else view.base.root(cb), suffix, subst)
        if any(x.get("k") == "Return" for x in walk(body)):
            eliminate_returns(body)
        for l in lets:
            l["pat"] = _rename_tree(view, l.pop("_pat_src"), suffix, subst)
        log.append(cb["def"])
        blk = {"k": "Block", "sp": call.get("sp"), "safety": "safe", "stmts": lets, "e": body, "ty": call.get("ty"), "inlined": cb["def"]}
        # a closure handed to the helper as an argument is now a `let` of this block: its calls inside the body are inlined as well
        has_clo_arg = any(isinstance(strip(l.get("init")), dict) and strip(l["init"]).get("k") == "Closure" for l in lets)
        _inline_calls(view, blk if has_clo_arg else blk["e"], policy, stack + [cb["def"]], depth + 1, log)
        return blk

    visit(tree)
    # a closure all of whose uses were inlined is dead: drop its `let` so that its body is not analysed out of context
    for v in inlined_clos:
        uses = sum(1 for n in walk(tree) if n.get("k") in ("VarRef", "UpvarRef") and n.get("v") == v)
        if uses == 0:
            for n in walk(tree):
                if n.get("k") == "Block":
                    n["stmts"] = [st for st in n["stmts"] if not (st["s"] == "let" and isinstance(st.get("pat"), dict)
                                                                  and st["pat"].get("k") == "Binding" and st["pat"].get("v") == v)]


def closure_policy(view, cb):
    """a local closure is inlined when it is small, return-free (or return-eliminable) and does not attach graph structure"""
    root = view.root(cb)
    if root is None:
        return False
    size = 0
    for n in walk(root):
        size += 1
        if n.get("k") == "Call" and resolved(n) in ("corgi::array::Array::with_children", "corgi::array::Array::sliced_op",
                                                    "corgi::array::Array::with_backward_op"):
            return False
    if size > 400:
        return False
    if any(n.get("k") == "Return" for n in walk(root)):
        trial = copy.deepcopy(root)
        if not eliminate_returns(trial):
            return False
    return True


def inline_body(view, b, policy=default_policy):
    if b["def"] in view.overlay:
        return view.overlay[b["def"]]
    nb = copy.deepcopy(b)
    log = []
    if nb.get("thir"):
        _inline_calls(view, nb["thir"]["root"], policy, [b["def"]], 0, log)
    view.overlay[b["def"]] = nb
    view.inlined[b["def"]] = log
    return nb


PLACE_KINDS = ("VarRef", "UpvarRef", "Field", "Deref", "Use", "PointerCoercion", "ValueTypeAscription", "PlaceTypeAscription")


def _is_place_alias(e):
    """`&x.f`, `&*x`, `x.f.g`, `&**x`: an expression that only names a place (no call except Deref, no index by a variable)"""
    e0 = e
    n = 0
    while isinstance(e0, dict) and n < 12:
        k = e0.get("k")
        if k in ("VarRef", "UpvarRef"):
            return True
        if k == "Borrow" and e0.get("bk") == "shared":
            e0 = e0["e"]
        elif k in ("Field", "Deref", "Use", "PointerCoercion", "ValueTypeAscription", "PlaceTypeAscription"):
            e0 = e0["e"]
        elif k == "Call" and (e0.get("callee") or {}).get("path") == "core::ops::deref::Deref::deref" and len(e0["args"]) == 1:
            e0 = e0["args"][0]
        elif k == "Block" and not e0["stmts"] and e0.get("e") is not None:
            e0 = e0["e"]
        else:
            return False
        n += 1
    return False


def propagate_place_aliases(view, root):
    """`let operands = &self.children;` ... `operands.iter()`  ==>  `(&self.children).iter()`.
    Only immutable, never-reassigned bindings of pure place expressions are substituted, in
    the body and in the closures it contains."""
    aliases = {}
    assigned = set()
    roots = [root]
    seen_clo = set()
    todo = [root]
    while todo:
        r = todo.pop()
        for n in walk(r):
            if n.get("k") == "Closure" and n["closure"] not in seen_clo:
                seen_clo.add(n["closure"])
                cb = view.body(n["closure"])
                if cb is not None and cb.get("thir"):
                    if n["closure"] not in view.overlay:
                        cb = copy.deepcopy(cb)
                        view.overlay[n["closure"]] = cb
                    roots.append(cb["thir"]["root"])
                    todo.append(cb["thir"]["root"])
    for r in roots:
        for n in walk(r):
            k = n.get("k")
            if k in ("Assign", "AssignOp"):
                l = peel(n["l"])
                if isinstance(l, dict) and l.get("k") in ("VarRef", "UpvarRef") and strip(n["l"]).get("k") in ("VarRef", "UpvarRef"):
                    assigned.add(l["v"])
            if k == "Borrow" and n.get("bk") == "mut":
                l = strip(n["e"])
                if isinstance(l, dict) and l.get("k") in ("VarRef", "UpvarRef"):
                    assigned.add(l["v"])
            if k == "Block":
                for st in n["stmts"]:
                    if st["s"] == "let" and st["pat"].get("k") == "Binding" and not st["pat"].get("sub") and st.get("init") is not None \
                            and "Mut" not in str(st["pat"].get("mode", "")).split(",")[-1] and _is_place_alias(st["init"]):
                        if not (isinstance(strip(st["init"]), dict) and strip(st["init"]).get("k") in ("VarRef", "UpvarRef")):
                            aliases[st["pat"]["v"]] = st["init"]
    aliases = {v: e for v, e in aliases.items() if v not in assigned}
    if not aliases:
        return 0
    count = [0]

    def subst(x):
        if isinstance(x, dict):
            for k, v in list(x.items()):
                if k in ("pat", "sp"):
                    continue
                if isinstance(v, dict):
                    if v.get("k") in ("VarRef", "UpvarRef") and v.get("v") in aliases:
                        rep = copy.deepcopy(aliases[v["v"]])
                        x[k] = rep
                        count[0] += 1
                        subst(rep)
                    else:
                        subst(v)
                elif isinstance(v, list):
                    for i, it in enumerate(v):
                        if isinstance(it, dict):
                            if it.get("k") in ("VarRef", "UpvarRef") and it.get("v") in aliases:
                                v[i] = copy.deepcopy(aliases[it["v"]])
                                count[0] += 1
                                subst(v[i])
                            else:
                                subst(it)
    for r in roots:
        # resolve chains a -> b -> place first
        for _ in range(3):
            subst(r)
    return count[0]


NEXT = "core::iter::traits::iterator::Iterator::next"


def normalise_while_let(root):
    """`let mut it = ITER; while let Some(PAT) = it.next() { BODY }`  ==>  the desugared form of
    `for PAT in ITER { BODY }`, when `it` is used nowhere else.  (In place; returns the number of loops rewritten.)
    `break` / `continue` inside BODY keep their meaning: both forms are one `loop` around BODY."""
    uses = {}
    for n in walk(root):
        if n.get("k") in ("VarRef", "UpvarRef"):
            uses[n["v"]] = uses.get(n["v"], 0) + 1
    count = 0

    def while_let(loop):
        """(iterator var, Some-pattern, body, else) of a while-let loop node"""
        if not isinstance(loop, dict) or loop.get("k") != "Loop":
            return None
        b = strip(loop["body"])
        while isinstance(b, dict) and b.get("k") == "Block" and not b["stmts"] and b.get("e") is not None:
            b = strip(b["e"])
        if not isinstance(b, dict) or b.get("k") != "If" or b.get("else") is None:
            return None
        cond = strip(b["cond"])
        if cond.get("k") != "Let":
            return None
        call = strip(cond["e"])
        pat = cond["pat"]
        if call.get("k") != "Call" or (call.get("callee") or {}).get("path") != NEXT or len(call["args"]) != 1:
            return None
        if pat.get("k") != "Variant" or pat.get("variant") != "Some" or not pat.get("subs"):
            return None
        it = peel(call["args"][0])
        if not isinstance(it, dict) or it.get("k") != "VarRef":
            return None
        els = strip(b["else"])
        if not any(x.get("k") == "Break" for x in walk(els)):
            return None
        return it["v"], pat, b["then"], b["else"], call

    def rewrite(blk):
        nonlocal count
        i = 0
        while i < len(blk["stmts"]):
            st = blk["stmts"][i]
            if st["s"] == "let" and isinstance(st.get("pat"), dict) and st["pat"].get("k") == "Binding" and not st["pat"].get("sub") \
                    and st.get("init") is not None and uses.get(st["pat"]["v"], 0) == 1:
                v = st["pat"]["v"]
                # the loop is a later statement of the same block or its tail
                for j in range(i + 1, len(blk["stmts"]) + 1):
                    holder, key = (blk["stmts"][j], "e") if j < len(blk["stmts"]) else (blk, "e")
                    if j < len(blk["stmts"]) and holder["s"] != "expr":
                        continue
                    cand = holder.get(key)
                    inner = cand
                    while isinstance(inner, dict) and inner.get("k") in ("Use", "NeverToAny", "Scope"):
                        inner = inner["e"]
                    wl = while_let(inner)
                    if wl and wl[0] == v:
                        _, pat, body, els, call = wl
                        some_arm = {"pat": pat, "guard": None, "body": body}
                        none_arm = {"pat": {"k": "Variant", "adt": "core::option::Option", "variant": "None", "subs": [], "ty": pat.get("ty")},
                                    "guard": None, "body": els}
                        inner_match = {"k": "Match", "ty": "()", "sp": inner.get("sp"), "scrutinee": call, "source": "ForLoopDesugar(normalised)",
                                       "arms": [none_arm, some_arm]}
                        loop = {"k": "Loop", "ty": "()", "sp": inner.get("sp"),
                                "body": {"k": "Block", "sp": inner.get("sp"), "safety": "safe", "stmts": [{"s": "expr", "e": inner_match}], "e": None, "ty": "()"}}
                        outer = {"k": "Match", "ty": "()", "sp": inner.get("sp"), "scrutinee": st["init"], "source": "ForLoopDesugar(normalised)",
                                 "arms": [{"pat": st["pat"], "guard": None, "body": loop}]}
                        holder[key] = outer
                        del blk["stmts"][i]
                        count += 1
                        i -= 1
                        break
            i += 1

    for n in list(walk(root)):
        if n.get("k") == "Block":
            rewrite(n)
    return count


_CACHE = {}


def option_combinators_to_matches(view, root):
    """`o.map(|x| B).unwrap_or(D)`, `o.map_or(D, |x| B)` and `o.map_or_else(|| D, |x| B)` with closure literals are the match
    `match o { Some(x) => B, None => D }`: rewritten in place so that the engine rules read one form (D is evaluated before the test
    in the first two forms; for the reading rules - which value reaches which slot under which condition - that does not matter)."""
    OPT = "core::option::Option::<T>::"
    n_done = 0

    def closure_parts(e, n_params):
        c0 = strip(e)
        if not isinstance(c0, dict) or c0.get("k") != "Closure":
            return None
        cb = view.body(c0["closure"])
        if cb is None or view.root(cb) is None or not closure_policy(view, cb):
            return None
        ps = [p_ for p_ in view.params(cb) if p_.get("pat")]
        if len(ps) != n_params:
            return None
        view._counter += 1
        suffix = "@%d" % view._counter
        subst = {}
        for x_ in walk(view.root(cb)):
            if x_.get("k") == "UpvarRef":
                subst.setdefault(x_["v"], x_["v"])
        body = _rename_tree(view, view.root(cb), suffix, subst)
        if any(x.get("k") == "Return" for x in walk(body)):
            if not eliminate_returns(body):
                return None
        pats = [_rename_tree(view, p_["pat"], suffix, subst) for p_ in ps]
        return pats, body

    def make(o, some_pat, some_body, none_body, call):
        oty = strip(o).get("ty") or ""
        return {"k": "Match", "ty": call.get("ty"), "sp": call.get("sp"), "scrutinee": o, "source": "OptionCombinator", "arms": [
            {"pat": {"ty": oty, "k": "Variant", "adt": "core::option::Option", "variant": "Some", "subs": [{"field": "0", "idx": 0, "pat": some_pat}]}, "guard": None, "body": some_body},
            {"pat": {"ty": oty, "k": "Variant", "adt": "core::option::Option", "variant": "None", "subs": []}, "guard": None, "body": none_body}]}

    def rewrite(x):
        nonlocal n_done
        if not isinstance(x, dict) or x.get("k") != "Call":
            return None
        cal = callee(x) or ""
        a = x.get("args") or []
        if cal == OPT + "unwrap_or" and len(a) == 2:
            inner = strip(a[0])
            if isinstance(inner, dict) and inner.get("k") == "Call" and callee(inner) == OPT + "map" and len(inner["args"]) == 2:
                cp = closure_parts(inner["args"][1], 1)
                if cp:
                    return make(inner["args"][0], cp[0][0], cp[1], a[1], x)
        if cal == OPT + "map_or" and len(a) == 3:
            cp = closure_parts(a[2], 1)
            if cp:
                return make(a[0], cp[0][0], cp[1], a[1], x)
        if cal == OPT + "map_or_else" and len(a) == 3:
            cp, cd = closure_parts(a[2], 1), closure_parts(a[1], 0)
            if cp and cd:
                return make(a[0], cp[0][0], cp[1], cd[1], x)
        return None

    def visit(x):
        nonlocal n_done
        if isinstance(x, dict):
            for k, v in list(x.items()):
                if isinstance(v, dict):
                    visit(v)
                elif isinstance(v, list):
                    for it in v:
                        if isinstance(it, (dict, list)):
                            visit(it)
            new = rewrite(x)
            if new is not None:
                x.clear()
                x.update(new)
                n_done += 1
        elif isinstance(x, list):
            for it in x:
                visit(it)
    visit(root)
    return n_done


def engine_view(facts):
    """Facts view with the engine functions' private helpers inlined (memoised per fact set)."""
    if isinstance(facts, ViewFacts):
        return facts
    key = id(facts)
    if key in _CACHE and _CACHE[key][0] is facts:
        return _CACHE[key][1]
    view = ViewFacts(facts)
    for b in facts.fns():
        if b.get("impl_self") == ARRAY and b.get("impl_trait_def") is None and b.get("name") in ("backward", "propagate_consumers"):
            nb = inline_body(view, b)
            if nb.get("thir"):
                option_combinators_to_matches(view, nb["thir"]["root"])
                propagate_place_aliases(view, nb["thir"]["root"])
                normalise_while_let(nb["thir"]["root"])
    _CACHE.clear()
    _CACHE[key] = (facts, view)
    return view


INT_TYPES = ("usize", "u8", "u16", "u32", "u64", "isize", "i32", "i64", "bool")


def _int_only(t):
    t = (t or "").strip()
    if t in INT_TYPES:
        return True
    if t.startswith("(") and t.endswith(")"):
        inner = t[1:-1]
        return all(_int_only(x) for x in inner.split(",") if x.strip())
    return False


def int_helper_policy(facts, cb):
    """a crate-local function from integers to integers without loops or side effects: index arithmetic given a name"""
    if cb is None or cb["kind"] not in ("Fn", "AssocFn") or cb.get("impl_trait_def"):
        return False
    if not cb.get("inputs") or not all(_int_only(t) for t in cb["inputs"]) or not _int_only(cb.get("output")):
        return False
    root = facts.root(cb)
    if root is None:
        return False
    size = 0
    for n in walk(root):
        size += 1
        if n.get("k") in ("Loop", "Assign", "AssignOp", "Closure", "Return") or (n.get("k") == "Match" and str(n.get("source", "")).startswith("ForLoopDesugar")):
            return False
        if n.get("k") == "Call" and resolved(n) == cb["def"]:
            return False
    return size <= 300


_KCACHE = {}


def kernel_view(facts):
    """Facts view in which calls of pure integer helper functions are inlined everywhere (functions and closures): index arithmetic that was
    given a name reads like the expression it stands for"""
    if isinstance(facts, ViewFacts):
        return facts
    key = id(facts)
    if key in _KCACHE and _KCACHE[key][0] is facts:
        return _KCACHE[key][1]
    helpers = [b for b in facts.fns() if int_helper_policy(facts, b)]
    if not helpers:
        _KCACHE.clear()
        _KCACHE[key] = (facts, facts)
        return facts
    hdefs = {b["def"] for b in helpers}
    view = ViewFacts(facts)
    for b in facts.bodies:
        root = facts.root(b)
        if root is None or b["def"] in hdefs:
            continue
        if any(n.get("k") == "Call" and resolved(n) in hdefs for n in walk(root)):
            inline_body(view, b, policy=int_helper_policy)
    _KCACHE.clear()
    _KCACHE[key] = (facts, view)
    return view
