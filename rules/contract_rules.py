"""R55 SHAPE-CONTRACT: every operation of the public API, evaluated in the shape slice (rules/shapeval.py: dimensions concrete, element
data abstracted) on a finite grid of small operand shapes, refuses exactly the shapes the properties call inadmissible and returns
an array with the documented dimensions for the others.

The specification side is the property text (C04: broadcast or refuse; C05: [.., m, k] x [.., k, n]; C06: window counts; C07:
point-wise functions keep the dimensions, reshape takes the requested ones, sum(k) collapses the last k into one unit dimension).
The code side is read from the source of the current tree on every run.  A grid point the interpreter cannot finish (control depends
on element data, an unsupported construct) is left undecided; an operation for which no grid point is decided is an abstention.

What this decides that the structural rules do not: a shortcut in front of the general path (`if <guard> { return <other route> }`)
whose guard admits shapes the shortcut mishandles, and an added assertion that refuses admissible shapes - both are invisible to a
rule that reads the general path only."""

import itertools

from . import facts as F
from .core import Ctx
from .facts import ARRAY
from . import shapeval as SV

SKIP = False        # set by the cross-configuration comparison of R19 (see there)

ARITH = ("core::ops::arith::Add", "core::ops::arith::Sub", "core::ops::arith::Mul", "core::ops::arith::Div")
REF_ARR = "&" + ARRAY


def _shapes(rank, vals):
    return [list(t) for t in itertools.product(vals, repeat=rank)]


def _bcast(x, y):
    """broadcast of two shapes aligned at the last dimension, or None"""
    n_ = max(len(x), len(y))
    x = [1] * (n_ - len(x)) + list(x)
    y = [1] * (n_ - len(y)) + list(y)
    out = []
    for a, b in zip(x, y):
        if a == b or a == 1 or b == 1:
            out.append(max(a, b))
        else:
            return None
    return out


def _prod(d):
    n = 1
    for x in d:
        n *= x
    return n


class _Tally:
    def __init__(self, c, inst, where, what):
        self.c, self.inst, self.where, self.what = c, inst, where, what
        self.decided = 0
        self.undecided = 0
        self.bad = None
        self.why_undecided = None

    def point(self, outcome, expect, shapes):
        """expect: ('refuse',) | ('dims', [..]) | ('any',)"""
        kind = outcome[0]
        if kind == "unknown":
            self.undecided += 1
            self.why_undecided = self.why_undecided or outcome[1]
            return
        if expect[0] == "any":
            self.decided += 1
            return
        if kind == "value" and not isinstance(outcome[1], SV.Arr):
            self.undecided += 1
            self.why_undecided = self.why_undecided or "the result is not an array the shape slice can follow"
            return
        self.decided += 1
        if self.bad is not None:
            return
        if expect[0] == "refuse" and kind == "value":
            self.bad = "%s accepts %s (inadmissible: %s) and returns dimensions %s instead of refusing" % (self.what, shapes, expect[1], outcome[1].dims)
        elif expect[0] == "dims" and kind == "panic":
            sp = outcome[1].get("sp") if isinstance(outcome[1], dict) else None
            self.bad = "%s refuses %s (panic reached at line %s), which is admissible: the result should have dimensions %s" % (self.what, shapes, sp[0] if sp else "?", expect[1])
        elif expect[0] == "dims" and kind == "value" and outcome[1].dims != expect[1]:
            self.bad = "%s of %s returns dimensions %s; documented: %s" % (self.what, shapes, outcome[1].dims, expect[1])

    def close(self, min_decided=1):
        if self.bad:
            self.c.bad(self.inst, self.where, self.bad)
        elif self.decided < min_decided:
            self.c.unk(self.inst, self.where, "the shape slice of %s could not be evaluated on the grid (%d point(s) undecided: %s)" % (self.what, self.undecided, self.why_undecided))
        else:
            self.c.ok(self.inst, self.where, "%s: %d grid points agree with the documented refusals and dimensions%s"
                      % (self.what, self.decided, (" (%d undecided)" % self.undecided) if self.undecided else ""), {"decided": self.decided, "undecided": self.undecided})


def _where(b):
    return "%s:%d" % (F.rel(b["file"]), b["sp"][0])


def _ewise(facts, c):
    fl = facts.float or "f64"
    n = 0
    pairs = []
    for r, vals in ((1, (1, 2, 3, 4, 6)), (2, (1, 2, 3)), (3, (1, 2))):
        sh = _shapes(r, vals)
        pairs += [(x, y) for x in sh for y in sh]
    # a few larger extents (multiples of each other are not broadcastable)
    pairs += [([2, 4], [2, 2]), ([4, 2], [2, 2]), ([2, 2], [2, 4]), ([4, 4], [4, 1]), ([1, 4], [4, 4]), ([6, 1], [3, 1]), ([3, 4], [3, 2]), ([4], [2, 2]), ([2, 4], [2])]
    for r1, r2 in ((1, 2), (2, 1), (1, 3), (3, 1), (2, 3), (3, 2)):
        pairs += [(x, y) for x in _shapes(r1, (1, 2, 3) if r1 < 3 else (1, 2)) for y in _shapes(r2, (1, 2, 3) if r2 < 3 else (1, 2))]
    for b in facts.fns():
        if b.get("impl_trait_def") not in ARITH or not b.get("thir"):
            continue
        ins = b.get("inputs") or []
        name = "%s<%s> for %s" % (b["impl_trait_def"].rsplit("::", 1)[-1], ins[1] if len(ins) > 1 else "?", ins[0] if ins else "?")
        if ins == [REF_ARR, REF_ARR]:
            n += 1
            t = _Tally(c, "contract:%s" % b["def"], _where(b), name.replace(ARRAY, "Array"))
            for x, y in pairs:
                want = _bcast(x, y)
                out = SV.run(facts, b, [SV.Arr(x), SV.Arr(y)])
                t.point(out, ("dims", want) if want is not None else ("refuse", "not broadcastable"), "%s and %s" % (x, y))
            t.close()
        elif sorted(ins) == sorted([REF_ARR, fl]) or sorted(ins) == sorted([ARRAY, fl]):
            n += 1
            t = _Tally(c, "contract:%s" % b["def"], _where(b), name.replace(ARRAY, "Array"))
            for r, vals in ((1, (1, 3)), (2, (1, 2, 3)), (3, (1, 2))):
                for x in _shapes(r, vals):
                    args = [SV.Arr(x) if ARRAY in i_ else SV.UNK for i_ in ins]
                    t.point(SV.run(facts, b, args), ("dims", x), "%s" % x)
            t.close()
    c.count("element-wise operator implementations evaluated", n)


POINTWISE = ("reciprocal", "powf", "ln", "exp", "relu", "sigmoid", "softmax")


def _pointwise(facts, c):
    fl = facts.float or "f64"
    n = 0
    grid = []
    for r, vals in ((1, (1, 3)), (2, (1, 2, 3)), (3, (1, 2)), (4, (1, 2))):
        grid += _shapes(r, vals)
    for b in facts.fns():
        if not b.get("thir") or b.get("output") not in (ARRAY,) and not (b.get("output") or "").endswith(">::Output"):
            continue
        ins = b.get("inputs") or []
        nm = b.get("name")
        if b.get("impl_self") == ARRAY and b.get("impl_trait_def") is None and nm in POINTWISE and ins and ins[0] == REF_ARR and all(i_ == fl for i_ in ins[1:]):
            n += 1
            t = _Tally(c, "contract:%s" % b["def"], _where(b), nm)
            for x in grid:
                t.point(SV.run(facts, b, [SV.Arr(x)] + [SV.UNK] * (len(ins) - 1)), ("dims", x), "%s" % x)
            t.close()
        elif b.get("impl_trait_def") == "core::ops::arith::Neg" and ins in ([REF_ARR], [ARRAY]):
            n += 1
            t = _Tally(c, "contract:%s" % b["def"], _where(b), "negation")
            for x in grid:
                t.point(SV.run(facts, b, [SV.Arr(x)]), ("dims", x), "%s" % x)
            t.close()
        elif b.get("impl_self") == ARRAY and b.get("impl_trait_def") is None and nm == "reshape" and ins == [REF_ARR, "alloc::vec::Vec<usize>"]:
            n += 1
            t = _Tally(c, "contract:%s" % b["def"], _where(b), "reshape")
            targets = _shapes(1, (1, 2, 3, 4, 6)) + _shapes(2, (1, 2, 3)) + _shapes(3, (1, 2))
            for x in _shapes(1, (1, 4, 6)) + _shapes(2, (1, 2, 3)) + _shapes(3, (1, 2)):
                for d in targets:
                    ok = _prod(x) == _prod(d)
                    t.point(SV.run(facts, b, [SV.Arr(x), list(d)]), ("dims", d) if ok else ("refuse", "another element count"), "%s to %s" % (x, d))
            t.close()
        elif b.get("impl_self") == ARRAY and b.get("impl_trait_def") is None and nm == "sum" and ins == [REF_ARR, "usize"]:
            n += 1
            t = _Tally(c, "contract:%s" % b["def"], _where(b), "sum")
            for x in grid:
                for k in range(0, len(x) + 1):
                    want = list(x) if k == 0 else list(x[:len(x) - k]) + [1]
                    t.point(SV.run(facts, b, [SV.Arr(x), k]), ("dims", want), "%s over the last %d" % (x, k))
            t.close()
    c.count("point-wise / reshape / sum implementations evaluated", n)


def _matmul(facts, c):
    n = 0
    for b in facts.fns():
        if not (b.get("thir") and b.get("name") == "matmul" and b.get("impl_self") == ARRAY and b.get("impl_trait_def") is None and len(b.get("inputs") or []) == 3):
            continue
        n += 1
        t = _Tally(c, "contract:%s" % b["def"], _where(b), "matmul")
        mats = _shapes(2, (1, 2, 3))
        cases = [([], x, [], y) for x in mats for y in mats]
        small = _shapes(2, (1, 2))
        for ba, bb in ((1, 1), (2, 2), (2, 1)):
            cases += [([ba], x, [bb], y) for x in small for y in small]
        cases += [([2], x, [], y) for x in small for y in small]
        for pa, x, pb, y in cases:
            for at in (False, True):
                for bt in (False, True):
                    m, k = (x[1], x[0]) if at else (x[0], x[1])
                    k2, nn = (y[1], y[0]) if bt else (y[0], y[1])
                    want = ("dims", list(pa if len(pa) >= len(pb) else pb) + [m, nn]) if k == k2 else ("refuse", "inner dimensions %d and %d" % (k, k2))
                    out = SV.run(facts, b, [(SV.Arr(pa + x), at), (SV.Arr(pb + y), bt), SV.NONE])
                    t.point(out, want, "%s%s x %s%s" % (pa + x, "^T" if at else "", pb + y, "^T" if bt else ""))
        t.close()
    c.count("matmul implementations evaluated", n)


def _conv(facts, c):
    n = 0
    for b in facts.fns():
        if not (b.get("thir") and b.get("name") == "conv" and b.get("impl_self") == ARRAY and b.get("impl_trait_def") is None
                and (b.get("inputs") or []) == [REF_ARR, REF_ARR, "(usize, usize)"]):
            continue
        n += 1
        t = _Tally(c, "contract:%s" % b["def"], _where(b), "conv")
        for d in (1, 2):
            for r, cc in ((1, 1), (2, 2), (2, 3), (3, 2), (4, 4), (3, 5)):
                for fr, fc in ((1, 1), (2, 2), (1, 2), (2, 1), (3, 3)):
                    for sr, sc in ((1, 1), (2, 2), (1, 2), (3, 2), (2, 1)):
                        for fn_ in (1, 2):
                            if fr <= r and fc <= cc:
                                want = ("dims", [fn_, (r - fr) // sr + 1, (cc - fc) // sc + 1])
                            else:
                                want = ("any",)     # a filter larger than the image: how it is refused is not specified at shape level
                            out = SV.run(facts, b, [SV.Arr([d, r, cc]), SV.Arr([fn_, d, fr, fc]), (sr, sc)])
                            t.point(out, want, "image %s, filters %s, stride %s" % ([d, r, cc], [fn_, d, fr, fc], (sr, sc)))
        t.close()
    c.count("conv implementations evaluated", n)


def _flatten(facts, c):
    n = 0
    allsh = _shapes(1, (1, 2, 3)) + _shapes(2, (1, 2, 3)) + _shapes(3, (1, 2))
    for b in facts.fns():
        if not (b.get("thir") and b.get("name") == "flatten_to" and b.get("impl_self") == ARRAY and b.get("impl_trait_def") is None and len(b.get("inputs") or []) == 2):
            continue
        n += 1
        t = _Tally(c, "contract:%s" % b["def"], _where(b), "flatten_to")
        for tgt in allsh:
            for o in allsh:
                x = _bcast(tgt, o)
                if x is None:
                    continue
                t.point(SV.run(facts, b, [SV.Arr(x), list(tgt)]), ("dims", list(tgt)), "an adjoint of dimensions %s reduced to an operand of dimensions %s" % (x, tgt))
        t.close()
    c.count("flatten_to implementations evaluated", n)


def _ctors(facts, c):
    fl = facts.float or "f64"
    n = 0
    dimsets = _shapes(1, (0, 1, 2, 3)) + _shapes(2, (0, 1, 2, 3)) + _shapes(3, (0, 1, 2))
    for b in facts.fns():
        if not (b.get("thir") and b.get("impl_self") == ARRAY and b.get("impl_trait_def") == "core::convert::From" and b.get("name") == "from"):
            continue
        ins = b.get("inputs") or []
        if ins in (["(alloc::vec::Vec<usize>, alloc::vec::Vec<%s>)" % fl], ["(alloc::vec::Vec<usize>, alloc::rc::Rc<alloc::vec::Vec<%s>>)" % fl]):
            n += 1
            t = _Tally(c, "contract:%s" % b["def"], _where(b), "Array::from((dimensions, values))")
            for d in [()] + dimsets:
                for cnt in sorted({_prod(d), _prod(d) + 1, max(0, _prod(d) - 1), 1, 3}):
                    if d == () and cnt == 1:
                        continue        # an empty dimension list with one value: not judged (the statement speaks of ranks >= 1)
                    ok = all(x >= 1 for x in d) and _prod(d) == cnt
                    why = "a zero dimension" if not all(x >= 1 for x in d) else "%d values for %d elements" % (cnt, _prod(d))
                    t.point(SV.run(facts, b, [(list(d), SV.FVec(cnt))]), ("dims", list(d)) if ok else ("refuse", why), "dimensions %s with %d values" % (d, cnt))
            t.close()
        elif ins == ["alloc::vec::Vec<usize>"]:
            n += 1
            t = _Tally(c, "contract:%s" % b["def"], _where(b), "Array::from(dimensions)")
            for d in dimsets:
                ok = all(x >= 1 for x in d)
                t.point(SV.run(facts, b, [list(d)]), ("dims", list(d)) if ok else ("refuse", "a zero dimension"), "dimensions %s" % d)
            t.close()
        elif ins == ["alloc::vec::Vec<%s>" % fl]:
            n += 1
            t = _Tally(c, "contract:%s" % b["def"], _where(b), "Array::from(values)")
            for cnt in (0, 1, 2, 5):
                t.point(SV.run(facts, b, [SV.FVec(cnt)]), ("dims", [cnt]) if cnt else ("refuse", "no values: a zero dimension"), "%d values" % cnt)
            t.close()
        elif ins == ["alloc::vec::Vec<%s>" % ARRAY]:
            n += 1
            t = _Tally(c, "contract:%s" % b["def"], _where(b), "Array::from(arrays)")
            shapes = _shapes(1, (1, 2, 3)) + _shapes(2, (1, 2))
            for x in shapes:
                for y in shapes:
                    for k in (1, 2, 3):
                        items = [SV.Arr(x)] + [SV.Arr(y)] * (k - 1)
                        ok = (k == 1) or x == y
                        t.point(SV.run(facts, b, [items]), ("dims", [k] + list(x)) if ok else ("refuse", "nested shapes differ"), "%d arrays of dimensions %s%s" % (k, x, "" if k == 1 else " / %s" % y))
            t.close()
    c.count("constructors evaluated", n)


def _layers(facts, c):
    """Dense::forward: a batch [b, inputs] gives [b, outputs]; a batch of another width is refused (also when its element count happens to be a
    multiple of the layer's width)"""
    n = 0
    for b in facts.fns():
        if not (b.get("thir") and b.get("name") == "forward" and b.get("impl_trait_def") == "corgi::layer::Layer" and "Dense" in (b.get("impl_self") or "")):
            continue
        adt = next((a for k, a in facts.adts.items() if k.endswith("::Dense")), None)
        fields = [f_ for v in (adt or {}).get("variants", []) for f_ in v["fields"]]
        arrs = [f_ for f_ in fields if f_["ty"] == ARRAY]
        wi = next((i for i, f_ in enumerate(fields) if f_["ty"] == ARRAY and "weight" in f_["name"]), None)
        bi = next((i for i, f_ in enumerate(fields) if f_["ty"] == ARRAY and "bias" in f_["name"]), None)
        n += 1
        t = _Tally(c, "contract:%s" % b["def"], _where(b), "Dense::forward")
        if len(arrs) != 2 or wi is None or bi is None:
            t.close()
            continue
        for ins in (1, 2, 3):
            for outs in (1, 2, 3):
                for batch in (1, 2):
                    for width in (1, 2, 3, 4, 6):
                        me = []
                        for i, f_ in enumerate(fields):
                            me.append(SV.Arr([outs, ins], tracked=True) if i == wi else SV.Arr([outs], tracked=True) if i == bi else SV.NONE if f_["ty"].startswith("core::option::Option<") else SV.UNK)
                        want = ("dims", [batch, outs]) if width == ins else ("refuse", "rows of width %d for a layer of %d inputs" % (width, ins))
                        out = SV.run(facts, b, [tuple(me), SV.Arr([batch, width])])
                        t.point(out, want, "a [%d, %d] batch given to Dense(%d -> %d)" % (batch, width, ins, outs))
        t.close()
    c.count("Dense::forward implementations evaluated", n)
    # Conv::forward: a single image [depth, rows, cols] gives [filters, window rows, window cols] for every geometry in which the filter fits
    m_ = 0
    for b in facts.fns():
        if not (b.get("thir") and b.get("name") == "forward" and b.get("impl_trait_def") == "corgi::layer::Layer" and (b.get("impl_self") or "").endswith("::Conv")):
            continue
        adt = next((a for k, a in facts.adts.items() if k.endswith("::Conv")), None)
        fields = [f_ for v in (adt or {}).get("variants", []) for f_ in v["fields"]]
        fi = next((i for i, f_ in enumerate(fields) if f_["ty"] == ARRAY and "filter" in f_["name"]), None)
        bi = next((i for i, f_ in enumerate(fields) if f_["ty"] == ARRAY and "bias" in f_["name"]), None)
        si = next((i for i, f_ in enumerate(fields) if f_["ty"] == "(usize, usize)"), None)
        m_ += 1
        t = _Tally(c, "contract:%s" % b["def"], _where(b), "Conv::forward")
        if fi is None or bi is None or si is None or sum(1 for f_ in fields if f_["ty"] == "(usize, usize)") != 1:
            t.close()
            continue
        for d in (1, 2):
            for r, cc in ((2, 2), (3, 3), (3, 5), (4, 4)):
                for fr, fc in ((1, 1), (2, 2), (2, 3)):
                    for sr, sc in ((1, 1), (2, 2), (1, 2)):
                        for fn_ in (1, 2):
                            if fr > r or fc > cc:
                                continue
                            me = []
                            for i, f_ in enumerate(fields):
                                me.append(SV.Arr([fn_, d, fr, fc], tracked=True) if i == fi else SV.Arr([fn_, 1, 1], tracked=True) if i == bi else (sr, sc) if i == si
                                          else SV.NONE if f_["ty"].startswith("core::option::Option<") else SV.UNK)
                            want = ("dims", [fn_, (r - fr) // sr + 1, (cc - fc) // sc + 1])
                            out = SV.run(facts, b, [tuple(me), SV.Arr([d, r, cc])])
                            t.point(out, want, "an image %s given to Conv(filters %s, stride %s)" % ([d, r, cc], [fn_, d, fr, fc], (sr, sc)))
        t.close()
    c.count("Conv::forward implementations evaluated", m_)


def r55_shape_contract(facts, families=("ewise", "pointwise", "matmul", "conv", "flatten", "ctors", "layers")):
    """SHAPE-CONTRACT: on a finite grid of small operand shapes, evaluated in the shape slice of the source (dimensions concrete, element data abstracted), every operation refuses exactly the inadmissible shapes and returns the documented dimensions"""
    c = Ctx("R55", facts, "operations refuse exactly the inadmissible shapes and return the documented dimensions (finite grid, shape slice)")
    if SKIP:
        return c
    if "ewise" in families:
        _ewise(facts, c)
    if "pointwise" in families:
        _pointwise(facts, c)
    if "matmul" in families:
        _matmul(facts, c)
    if "conv" in families:
        _conv(facts, c)
    if "flatten" in families:
        _flatten(facts, c)
    if "ctors" in families:
        _ctors(facts, c)
    if "layers" in families:
        _layers(facts, c)
    return c


def r56_attach_contract(facts):
    """ATTACH-CONTRACT: on every path through an operation (shape slice, finite grid of shapes x every assignment of tracking flags to the operands) the result is tracked exactly when some operand is, reaches every tracked operand through its recorded operands, carries a derivative then, and records nothing when no operand is tracked"""
    import itertools as _it
    fl = facts.float or "f64"
    c = Ctx("R56", facts, "every path through an operation attaches the graph iff an operand is tracked (finite grid, shape slice)")
    if SKIP:
        return c
    n = 0

    def judge(b, what, cases):
        """cases: list of (args builder(flags) -> (args, operand arrays), number of array operands, label)"""
        nonlocal n
        n += 1
        inst = "attach:%s" % b["def"]
        decided = undecided = 0
        bad = None
        for build, k, label in cases:
            for flags in _it.product((False, True), repeat=k):
                args, operands = build(flags)
                out = SV.run(facts, b, args)
                if out[0] != "value" or not isinstance(out[1], SV.Arr):
                    undecided += 1
                    continue
                decided += 1
                if bad:
                    continue
                r = out[1]
                ids = [o.uid for o in operands]
                tracked_ids = [o.uid for o, f_ in zip(operands, flags) if f_]
                reach = r.reach() | {r.uid}
                desc = "%s with operands %s" % (label, ", ".join("%s%s" % (o.dims, " (tracked)" if f_ else "") for o, f_ in zip(operands, flags)))
                if any(flags) != bool(r.tracked):
                    bad = "%s: the result is %s although %s" % (desc, "tracked" if r.tracked else "not tracked", "an operand is tracked" if any(flags) else "no operand is tracked")
                elif any(flags) and [t for t in tracked_ids if t not in reach]:
                    bad = "%s: the result does not record the tracked operand (no path from the result to it: its gradient is never computed)" % desc
                elif any(flags) and not r.bop and r.uid not in ids:
                    bad = "%s: the result records operands but carries no derivative" % desc
                elif not any(flags) and ((r.reach() & set(ids)) or (r.bop and r.uid not in ids)):
                    bad = "%s: the result of untracked operands keeps a reference to them / a derivative" % desc
        where = _where(b)
        if bad:
            c.bad(inst, where, "%s: %s" % (what, bad))
        elif decided == 0:
            c.unk(inst, where, "the shape slice of %s could not be evaluated on any grid point" % what)
        else:
            c.ok(inst, where, "%s: %d combinations of shapes and tracking flags attach the graph as documented%s" % (what, decided, (" (%d undecided)" % undecided) if undecided else ""))

    def arr(d, f_):
        return SV.Arr(d, f_)
    pairs = [([2, 3], [2, 3]), ([2, 3], [3]), ([1, 3], [3, 1]), ([3], [1]), ([1], [2, 2]), ([2, 2, 2], [2, 1, 1]), ([3], [3]), ([1, 1], [1])]
    singles = [[3], [1], [2, 3], [2, 1, 2]]
    for b in facts.fns():
        if not b.get("thir"):
            continue
        ins = b.get("inputs") or []
        tr = b.get("impl_trait_def")
        nm = b.get("name")
        if tr in ARITH and ins == [REF_ARR, REF_ARR]:
            cases = []
            for x, y in pairs:
                cases.append(((lambda fl_, x=x, y=y: (lambda a_, b_: ([a_, b_], [a_, b_]))(arr(x, fl_[0]), arr(y, fl_[1]))), 2, "%s" % tr.rsplit("::", 1)[-1]))
            judge(b, "%s of two arrays" % tr.rsplit("::", 1)[-1], cases)
        elif tr in ARITH and (sorted(ins) == sorted([REF_ARR, fl]) or sorted(ins) == sorted([ARRAY, fl])):
            cases = []
            for x in singles:
                cases.append(((lambda fl_, x=x: (lambda a_: ([a_ if ARRAY in i_ else SV.UNK for i_ in ins], [a_]))(arr(x, fl_[0]))), 1, "%s by a number" % tr.rsplit("::", 1)[-1]))
            judge(b, "%s by a number" % tr.rsplit("::", 1)[-1], cases)
        elif tr == "core::ops::arith::Neg" and ins in ([REF_ARR], [ARRAY]):
            judge(b, "negation", [((lambda fl_, x=x: (lambda a_: ([a_], [a_]))(arr(x, fl_[0]))), 1, "negation") for x in singles])
        elif b.get("impl_self") == ARRAY and tr is None and nm in POINTWISE and ins and ins[0] == REF_ARR and all(i_ == fl for i_ in ins[1:]):
            judge(b, nm, [((lambda fl_, x=x: (lambda a_: ([a_] + [SV.UNK] * (len(ins) - 1), [a_]))(arr(x, fl_[0]))), 1, nm) for x in singles])
        elif b.get("impl_self") == ARRAY and tr is None and nm == "sum" and ins == [REF_ARR, "usize"]:
            judge(b, "sum", [((lambda fl_, x=x, k=k: (lambda a_: ([a_, k], [a_]))(arr(x, fl_[0]))), 1, "sum over the last %d" % k) for x in singles for k in range(1, len(x) + 1)])
        elif b.get("impl_self") == ARRAY and tr is None and nm == "reshape" and ins == [REF_ARR, "alloc::vec::Vec<usize>"]:
            judge(b, "reshape", [((lambda fl_, x=x, d=d: (lambda a_: ([a_, list(d)], [a_]))(arr(x, fl_[0]))), 1, "reshape to %s" % d)
                                 for x, d in (([6], [2, 3]), ([2, 3], [3, 2]), ([2, 3], [6]), ([2, 3], [2, 3]), ([1], [1, 1]))])
        elif b.get("impl_self") == ARRAY and tr is None and nm == "matmul" and len(ins) == 3:
            cases = []
            for x, y in (([2, 3], [3, 2]), ([2, 2], [2, 2]), ([2, 2, 3], [1, 3, 2])):
                cases.append(((lambda fl_, x=x, y=y: (lambda a_, b_: ([(a_, False), (b_, False), SV.NONE], [a_, b_]))(arr(x, fl_[0]), arr(y, fl_[1]))), 2, "matmul"))
                cases.append(((lambda fl_, x=x, y=y: (lambda a_, b_, c_: ([(a_, False), (b_, False), SV.Some(c_)], [a_, b_, c_]))(arr(x, fl_[0]), arr(y, fl_[1]), arr([y[-1]], fl_[2]))), 3, "matmul with an additive term"))
            judge(b, "matmul", cases)
        elif b.get("impl_self") == ARRAY and tr is None and nm == "conv" and ins == [REF_ARR, REF_ARR, "(usize, usize)"]:
            cases = []
            for im, fi, st in (([1, 3, 3], [2, 1, 2, 2], (1, 1)), ([2, 4, 4], [1, 2, 1, 1], (2, 2)), ([1, 2, 2], [1, 1, 2, 2], (1, 1))):
                cases.append(((lambda fl_, im=im, fi=fi, st=st: (lambda a_, b_: ([a_, b_, st], [a_, b_]))(arr(im, fl_[0]), arr(fi, fl_[1]))), 2, "conv"))
            judge(b, "conv", cases)
    c.count("operations evaluated", n)
    return c


def r55_flatten(facts):
    """SHAPE-CONTRACT (flatten_to): an adjoint of the broadcast dimensions is reduced to exactly the operand's dimensions, for every pair of shapes of a finite grid"""
    return r55_shape_contract(facts, ("flatten",))


def r55_layers(facts):
    """SHAPE-CONTRACT (layers): Dense::forward maps a [batch, inputs] array to [batch, outputs] and refuses a batch of another width; Conv::forward maps an image to [filters, window rows, window cols] for every geometry in which the filter fits; on a finite grid"""
    return r55_shape_contract(facts, ("layers",))


def r55_ctors(facts):
    """SHAPE-CONTRACT (constructors): a zero dimension, a wrong element count and differing nested shapes are refused, everything else is built with the given dimensions, on a finite grid"""
    return r55_shape_contract(facts, ("ctors",))


def r55_ewise(facts):
    """SHAPE-CONTRACT (element-wise operators): broadcast or refuse, result dimensions = broadcast dimensions, on a finite grid of equal-rank shapes"""
    return r55_shape_contract(facts, ("ewise",))


def r55_pointwise(facts):
    """SHAPE-CONTRACT (point-wise functions, reshape, sum): dimensions kept / requested / last k collapsed into one, on a finite grid"""
    return r55_shape_contract(facts, ("pointwise",))


def r55_matmul(facts):
    """SHAPE-CONTRACT (matmul): [.., m, k] x [.., k, n] under all transposition flags: refusal of differing inner dimensions, result dimensions, on a finite grid"""
    return r55_shape_contract(facts, ("matmul",))


def r55_conv(facts):
    """SHAPE-CONTRACT (conv): result dimensions [filters, (rows - filter rows) / stride + 1, (cols - filter cols) / stride + 1] and no refusal of a filter that fits, on a finite grid"""
    return r55_shape_contract(facts, ("conv",))
