"""Rules over the backward-pass engine (Array::backward / Array::propagate_consumers and the
private helpers they call): R10 FLAG-WRITERS-AND-PAIRING, R11 SHAPE-TYPESTATE, R14
DEFAULT-SEED, R23 ENGINE-STATE-LAYERING, R24 COUNT-PROTOCOL, R25 ACCUMULATE-ARMS, and the
engine half of R13.  All THIR pattern work is done on the *inlined view* of the engine
(rules/inline.py) with path conditions that understand early exits (facts.walk_ctx)."""

import re

from . import facts as F
from .core import Ctx
from .facts import (ARRAY, callee, resolved, strip, peel, walk, walk_ctx, loc, field_chain, var_of, lit_value,
                    path_facts, some_bindings_on_path, none_on_path, for_loop_parts)
from .inline import engine_view
from .repr_rules import self_var, param_vars, MUTATING
from .show import show

FN_CALL = "core::ops::function::Fn::call"
CELL = "core::cell::Cell::<T>::"
REFCELL = "core::cell::RefCell::<T>::"
OPTION = "core::option::Option"
IT = "core::iter::traits::iterator::Iterator::"
BOP_MARK = "core::ops::function::Fn(&'a [corgi::array::Array], &'b [bool], &'c corgi::array::Array)"
ADD = "corgi::array::arithmetic::<impl core::ops::arith::Add<&corgi::array::Array> for &corgi::array::Array>::add"
FLATTEN = "corgi::array::Array::flatten_to"
CLONE = "<corgi::array::Array as core::clone::Clone>::clone"
CTOR_PREFIX = "<corgi::array::Array as core::convert::From<("
ENGINE_FN_NAMES = ("backward", "propagate_consumers")
CELL_WRITES = ("set", "replace", "swap", "take", "update", "get_mut", "as_ptr")
OPT_VIEWS = ("core::option::Option::<T>::as_ref", "core::option::Option::<T>::as_mut", "core::option::Option::<T>::as_deref",
             "core::option::Option::<T>::as_deref_mut", "core::option::Option::<&T>::cloned", "core::option::Option::<&T>::copied",
             "core::option::Option::<T>::take")


def _is_some(n):
    return isinstance(n, dict) and n.get("k") == "Adt" and n["adt"] == OPTION and n["variant"] == "Some"


def _is_none(n):
    return isinstance(n, dict) and n.get("k") == "Adt" and n["adt"] == OPTION and n["variant"] == "None"


def _tail(n):
    n = strip(n)
    while isinstance(n, dict) and n.get("k") == "Block":
        if n["stmts"] or n.get("e") is None:
            return n
        n = strip(n["e"])
    return n


def closure_tail(facts, b):
    root = strip(facts.root(b))
    stmts = []
    while isinstance(root, dict) and root.get("k") == "Block":
        stmts.extend(root["stmts"])
        if root.get("e") is None:
            return stmts, None
        root = strip(root["e"])
    return stmts, root


# ------------------------------------------------------------------ anchors

def engine_bodies(facts):
    out = {}
    for b in facts.fns():
        if b.get("impl_self") == ARRAY and b.get("impl_trait_def") is None and b.get("name") in ENGINE_FN_NAMES:
            out[b["name"]] = b
    return out


def field_roles(facts):
    roles = {}
    for f in facts.adt_fields(ARRAY):
        t = f["ty"]
        if t == "alloc::rc::Rc<core::cell::Cell<usize>>":
            roles.setdefault("counter", []).append(f["name"])
        elif t == "alloc::rc::Rc<core::cell::Cell<core::option::Option<corgi::array::Array>>>":
            roles.setdefault("delta", []).append(f["name"])
        elif t == "alloc::rc::Rc<core::cell::RefCell<core::option::Option<corgi::array::Array>>>":
            roles.setdefault("gradient", []).append(f["name"])
        elif t.startswith("core::option::Option<alloc::rc::Rc<") and BOP_MARK in t:
            roles.setdefault("derivative", []).append(f["name"])
        elif t == "alloc::rc::Rc<alloc::vec::Vec<corgi::array::Array>>":
            roles.setdefault("edges", []).append(f["name"])
        elif t == "core::cell::Cell<bool>":
            roles.setdefault("flags", []).append(f["name"])
    return roles


def role(facts, name):
    r = field_roles(facts).get(name, [])
    return r[0] if len(r) == 1 else None


def invocation_sites(facts, bodies=None):
    """Calls of a derivative closure: Fn::call whose callee object has the BackwardOp type."""
    out = []
    mark = BOP_MARK.replace("'a ", "").replace("'b ", "").replace("'c ", "")
    for b in (bodies if bodies is not None else facts.bodies):
        for n, ctx in walk_ctx(facts.root(b)):
            if n.get("k") == "Call" and callee(n) in (FN_CALL, "core::ops::function::FnMut::call_mut", "core::ops::function::FnOnce::call_once"):
                g = (n.get("callee") or {}).get("gargs") or []
                if g and mark in g[0].replace("'a ", "").replace("'b ", "").replace("'c ", ""):
                    out.append((b, n, ctx))
    return out


def engine_set(facts):
    """Root definitions that make up the engine: backward, propagate_consumers, and every
    private crate function all of whose call sites lie inside the engine (helpers extracted
    from it)."""
    base = facts.base if hasattr(facts, "base") else facts
    eng = {b["def"] for b in engine_bodies(base).values()}
    callers = {}
    for b in base.bodies:
        rootdef = b.get("root", b["def"])
        for n in walk(base.root(b)):
            if n.get("k") == "Call":
                c = n.get("callee") or {}
                if c.get("resolved_local"):
                    callers.setdefault(c["resolved"], set()).add(rootdef)
            if n.get("k") == "FnItem":
                c = n.get("fn") or {}
                if c.get("resolved_local"):
                    callers.setdefault(c.get("resolved") or c.get("path"), set()).add("<as value>")
    changed = True
    while changed:
        changed = False
        for d, cs in callers.items():
            if d in eng:
                continue
            b = base.body(d)
            if b is None or b["kind"] not in ("Fn", "AssocFn") or b.get("reachable") or b.get("impl_trait_def"):
                continue
            if cs and cs <= eng:
                eng.add(d)
                changed = True
    return eng


# ------------------------------------------------------------------ the pass model

class PassModel:
    """Names the pieces of Array::backward (inlined view) that the rules talk about."""

    def __init__(self, facts):
        self.facts = engine_view(facts)
        facts = self.facts
        self.ok = False
        eng = engine_bodies(facts)
        self.bw = eng.get("backward")
        self.pc = eng.get("propagate_consumers")
        if not self.bw:
            self.why = "Array::backward not found"
            return
        self.root = facts.root(self.bw)
        self.selfv = self_var(facts, self.bw)
        self.binds = F.bindings_of(self.root)
        self.f_delta = role(facts, "delta")
        self.f_grad = role(facts, "gradient")
        self.f_counter = role(facts, "counter")
        self.f_edges = role(facts, "edges")
        self.f_deriv = role(facts, "derivative")
        ps = param_vars(facts, self.bw)
        self.seedv = ps[1][0] if len(ps) > 1 else None
        self.sites = [s for s in invocation_sites(facts, [self.bw])]
        self.inv = self.sites[0][1] if len(self.sites) == 1 else None
        self.ok = all([self.selfv, self.f_delta, self.f_grad, self.f_counter, self.f_edges, self.seedv])
        self.why = "" if self.ok else "engine fields / parameters not identified by type"
        # evaluation-order index of every node (spans are useless for ordering once helpers are inlined)
        self.order = {}
        for i, n in enumerate(walk(self.root)):
            self.order[id(n)] = i

    def pos(self, n):
        return self.order.get(id(n), -1)

    def unlet(self, e, depth=0):
        """follow `let v = init` for single-assignment locals (value view of an expression)"""
        e0 = strip(e)
        while isinstance(e0, dict) and e0.get("k") == "VarRef" and depth < 8:
            bnd = self.binds.get(e0["v"])
            if not bnd or bnd[0] != "let" or not isinstance(bnd[1], dict):
                break
            e0 = strip(bnd[1])
            depth += 1
        return e0

    # -- slots -----------------------------------------------------------------
    def guard_var_slot(self, v):
        """v is bound to `n.gradient.borrow_mut()` / `.borrow()` -> n"""
        bnd = self.binds.get(v)
        if bnd and bnd[0] == "let" and len(bnd) > 1 and isinstance(bnd[1], dict):
            init = peel(bnd[1])
            if init.get("k") == "Call" and callee(init) in (REFCELL + "borrow_mut", REFCELL + "borrow"):
                root, chain = field_chain(init["args"][0])
                if chain == [self.f_grad] and var_of(root):
                    return var_of(root)
        return None

    def slot_owner(self, scrut):
        """scrut reads the *content* of n.delta or n.gradient -> (n, field)"""
        s = peel(scrut)
        n = 0
        while isinstance(s, dict) and s.get("k") == "Call" and callee(s) in OPT_VIEWS and n < 4:
            s = peel(s["args"][0])
            n += 1
        if not isinstance(s, dict):
            return None, None
        if s.get("k") == "Call" and (callee(s) == CELL + "take" or (callee(s) == CELL + "replace" and _is_none(strip(s["args"][1])))):
            root, chain = field_chain(s["args"][0])
            if chain == [self.f_delta] and var_of(root):
                return var_of(root), self.f_delta
        v = var_of(s)
        if v:
            o = self.guard_var_slot(v)
            if o:
                return o, self.f_grad
            # a variable that holds the taken content
            bnd = self.binds.get(v)
            if bnd and bnd[0] == "let" and bnd[1] is not None and s.get("k") == "VarRef":
                return self.slot_owner(bnd[1])
        if s.get("k") == "Call" and callee(s) in (REFCELL + "take", REFCELL + "replace"):
            root, chain = field_chain(s["args"][0])
            if chain == [self.f_grad] and var_of(root):
                return var_of(root), self.f_grad
        return None, None

    # -- shape typing -------------------------------------------------------------
    def owner_of_dims(self, e):
        e = peel(e)
        if e.get("k") == "Call" and callee(e) in ("core::clone::Clone::clone", "alloc::slice::<impl [T]>::to_vec", "alloc::borrow::ToOwned::to_owned"):
            return self.owner_of_dims(e["args"][0])
        if e.get("k") == "Call" and resolved(e) == "corgi::array::Array::dimensions":
            return var_of(e["args"][0])
        root, chain = field_chain(e)
        if chain == ["dimensions"] and var_of(root):
            return var_of(root)
        v = var_of(e)
        if v and e.get("k") == "VarRef":
            bnd = self.binds.get(v)
            if bnd and bnd[0] == "let" and bnd[1] is not None:
                return self.owner_of_dims(bnd[1])
        return None

    def dims_owner(self, v, depth):
        """the dimensions of the array held in variable v are those of node ...: v itself if it is a node, else the node whose
        shape the value bound to v has (the old content of a node's slot has that node's dimensions)"""
        if v != self.selfv and v in self.binds and self.binds[v][0] == "owner":
            return ("owner", self.binds[v][1])
        if v != self.selfv and v in self.binds and depth < 18:
            sh = self.shape_of_var(v, depth + 1)
            if sh[0] == "owner":
                return sh
        return ("owner", v)

    def opt_inner_shape(self, e, depth):
        """shape of the payload of an Option-typed expression"""
        e = peel(e)
        while isinstance(e, dict) and e.get("k") == "Call" and callee(e) in OPT_VIEWS:
            e = peel(e["args"][0])
        if var_of(e) == self.seedv and e.get("k") in ("VarRef", "UpvarRef"):
            return ("owner", self.selfv)       # the property's precondition: seeds have the result's shape
        n, fld = self.slot_owner(e)
        if n:
            return ("owner", n)
        if _is_some(e):
            return self.shape(e["fields"][0]["e"], depth + 1)
        return ("raw", "option %s" % show(e)[:60])

    def shape(self, e, depth=0):
        """('owner', var) | ('raw', why)"""
        e = peel(e)
        if depth > 20 or not isinstance(e, dict):
            return ("raw", "too deep")
        k = e.get("k")
        if k in ("VarRef", "UpvarRef"):
            return self.shape_of_var(e["v"], depth + 1)
        if k == "Call":
            r = resolved(e)
            cal = callee(e)
            if r == FLATTEN:
                n = self.owner_of_dims(e["args"][1])
                return self.dims_owner(n, depth) if n else ("raw", "flatten_to target is not some node's dimensions")
            if r == ADD:
                a = self.shape(e["args"][0], depth + 1)
                b = self.shape(e["args"][1], depth + 1)
                if a[0] == "owner" and a == b:
                    return a
                return ("raw", "sum of %s and %s" % (a, b))
            if r == CLONE:
                return self.shape(e["args"][0], depth + 1)
            if (r or "").startswith(CTOR_PREFIX):
                tup = strip(e["args"][0])
                if tup.get("k") == "Tuple":
                    n = self.owner_of_dims(tup["fields"][0])
                    if n:
                        return self.dims_owner(n, depth)
                return ("raw", "constructed with dimensions not taken from a node")
            if cal in ("core::option::Option::<T>::unwrap_or_else", "core::option::Option::<T>::unwrap_or", "core::option::Option::<T>::map_or_else"):
                a = self.opt_inner_shape(e["args"][0], depth + 1)
                d = e["args"][1]
                dd = strip(d)
                if dd.get("k") == "Closure":
                    cb = self.facts.body(dd["closure"])
                    _, t = closure_tail(self.facts, cb)
                    # statements of the closure may bind lets
                    self.binds.update(F.bindings_of(self.facts.root(cb)))
                    b = self.shape(t, depth + 1) if t is not None else ("raw", "empty closure")
                else:
                    b = self.shape(d, depth + 1)
                if a[0] == "owner" and a == b:
                    return a
                return ("raw", "option payload %s / default %s" % (a, b))
            if cal in ("core::option::Option::<T>::unwrap", "core::option::Option::<T>::expect"):
                return self.opt_inner_shape(e["args"][0], depth + 1)
            return ("raw", "result of %s" % (r or cal))
        if k in ("If", "Match", "Block"):
            if k == "If":
                branches = [e["then"], e.get("else")]
            elif k == "Match":
                branches = [a["body"] for a in e["arms"]]
            else:
                branches = [e.get("e")]
            outs = []
            for b in branches:
                if b is None:
                    return ("raw", "missing branch")
                if F._diverging(b):
                    continue
                outs.append(self.shape(b, depth + 1))
            if outs and all(o[0] == "owner" for o in outs) and len({o[1] for o in outs}) == 1:
                return outs[0]
            return ("raw", "branches disagree: %s" % outs)
        return ("raw", "expression %s" % k)

    def shape_of_var(self, v, depth):
        if v == self.selfv:
            return ("owner", self.selfv)
        bnd = self.binds.get(v)
        if bnd is None:
            return ("raw", "unbound %s" % v)
        if bnd[0] == "owner":
            return ("owner", bnd[1])
        if bnd[0] == "let":
            if bnd[1] is None:
                return ("raw", "uninitialised")
            return self.shape(bnd[1], depth)
        _, scrut, path, owner = bnd
        p = [x for x in path if x != "*"]
        if p == ["Some.0"]:
            sh = self.opt_inner_shape(scrut, depth)
            if sh[0] == "owner":
                return sh
        return ("raw", "bound by a pattern over %s" % show(scrut)[:60])

    # -- sinks ---------------------------------------------------------------------
    def delta_sets(self):
        out = []
        for n, ctx in walk_ctx(self.root):
            if n.get("k") == "Call" and callee(n) in (CELL + "set", CELL + "replace"):
                root, chain = field_chain(n["args"][0])
                if chain == [self.f_delta]:
                    val = strip(n["args"][1])
                    if callee(n) == CELL + "replace" and _is_none(val):
                        continue
                    out.append((n, ctx, var_of(root), val))
        return out

    def gradient_stores(self):
        out = []
        for n, ctx in walk_ctx(self.root):
            if n.get("k") == "Assign":
                lhs = peel(n["l"])
                v = var_of(lhs)
                o = self.guard_var_slot(v) if v else None
                if o:
                    out.append((n, ctx, o, strip(n["r"])))
            if n.get("k") == "Call" and callee(n) in (REFCELL + "replace", "core::option::Option::<T>::replace", "core::option::Option::<T>::insert"):
                a0 = peel(n["args"][0])
                root, chain = field_chain(n["args"][0])
                o = None
                if chain and chain[-1] == self.f_grad:
                    o = var_of(root)
                elif var_of(a0):
                    o = self.guard_var_slot(var_of(a0))
                if o:
                    val = strip(n["args"][1])
                    if callee(n).endswith("::insert"):
                        val = {"k": "Adt", "adt": OPTION, "variant": "Some", "fields": [{"name": "0", "e": val}], "sp": val.get("sp")}
                    out.append((n, ctx, o, val))
        return out

    def arm_kind(self, ctx, owner, field):
        """Is the content of owner's slot known to be Some / None on this path?"""
        for scrut, pat in some_bindings_on_path(ctx):
            o, f = self.slot_owner(scrut) if scrut is not None else (None, None)
            if o == owner and f == field:
                return "Some", pat
        for scrut in none_on_path(ctx):
            o, f = self.slot_owner(scrut)
            if o == owner and f == field:
                return "None", None
        return None, None

    def payload_cases(self, payload, ctx, owner, field, depth=0):
        """[(kind, expr, old-vars)] : the stored payload split by what is known about the slot"""
        kind, pat = self.arm_kind(ctx, owner, field)
        if kind:
            return [(kind, payload, [v for v, _, _, _ in F.pat_bindings(pat)] if pat else [])]
        e = peel(payload)
        if depth < 4 and e.get("k") in ("VarRef",) and e["v"] in self.binds and self.binds[e["v"]][0] == "let" and self.binds[e["v"]][1] is not None:
            return self.payload_cases(self.binds[e["v"]][1], ctx, owner, field, depth + 1)
        e = strip(payload)
        if e.get("k") == "Match":
            o, f = self.slot_owner(e["scrutinee"])
            if o == owner and f == field:
                out = []
                for a in e["arms"]:
                    p = a["pat"]
                    while p.get("k") in ("Deref", "DerefPattern"):
                        p = p["sub"]
                    if p.get("k") == "Variant" and p.get("adt") == OPTION:
                        out.append((p["variant"], a["body"], [v for v, _, _, _ in F.pat_bindings(a["pat"])]))
                    else:
                        out.append((None, a["body"], []))
                return out
        if e.get("k") == "If" and strip(e["cond"]).get("k") == "Let":
            cond = strip(e["cond"])
            o, f = self.slot_owner(cond["e"])
            if o == owner and f == field and F._is_some_pat(cond["pat"]) and e.get("else") is not None:
                return [("Some", e["then"], [v for v, _, _, _ in F.pat_bindings(cond["pat"])]), ("None", e["else"], [])]
        if e.get("k") == "Call" and callee(e) in ("core::option::Option::<T>::map_or", "core::option::Option::<T>::map_or_else"):
            o, f = self.slot_owner(e["args"][0])
            if o == owner and f == field:
                clo = strip(e["args"][2])
                if clo.get("k") == "Closure":
                    cb = self.facts.body(clo["closure"])
                    _, t = closure_tail(self.facts, cb)
                    self.binds.update(F.bindings_of(self.facts.root(cb)))
                    olds = [v for v, _, _, _ in param_vars(self.facts, cb)]
                    d = e["args"][1]
                    if strip(d).get("k") == "Closure":
                        db = self.facts.body(strip(d)["closure"])
                        _, d = closure_tail(self.facts, db)
                    return [("Some", t, olds), ("None", d, [])]
        return [(None, payload, [])]


def _some_payload(e):
    e = strip(e)
    if _is_some(e):
        return e["fields"][0]["e"]
    return None


def _vars_in(e):
    return {x["v"] for x in walk(e) if x.get("k") in ("VarRef", "UpvarRef")}


def _only_linear_wrappers(e):
    e = peel(e)
    if e.get("k") in ("VarRef", "UpvarRef"):
        return True
    if e.get("k") == "Call" and resolved(e) in (FLATTEN, CLONE):
        return _only_linear_wrappers(e["args"][0])
    return False


# ------------------------------------------------------------------ R11

def r11_shape_typestate(facts):
    """R11: every value entering a pending-delta or gradient slot has the owner's dimensions; sums happen in the owner's shape."""
    c = Ctx("R11", facts, "every value entering a pending-delta or gradient slot has the owner's dimensions")
    m = PassModel(facts)
    if not m.ok:
        c.floor("Array::backward model (%s)" % m.why, 0, 1)
        return c
    bw = m.bw
    ds = m.delta_sets()
    gs = m.gradient_stores()
    c.floor("pending-delta stores in the engine", len(ds), 1)
    c.floor("gradient stores in the engine", len(gs), 1)

    def nm(v):
        return v.split("#")[0] if v else "?"
    for what, stores, fld in (("delta", ds, m.f_delta), ("gradient", gs, m.f_grad)):
        for n, ctx, owner, val in stores:
            payload = _some_payload(val)
            if payload is None:
                if _is_none(val):
                    c.ok("sink:%s-clear" % what, loc(bw, n), "slot cleared", nontrivial=False)
                    continue
                c.unk("sink:%s" % what, loc(bw, n), "stored value is not Some(..): %s" % show(val)[:100])
                continue
            for kind, expr, olds in m.payload_cases(payload, ctx, owner, fld):
                if what == "delta":
                    inst = "sink:delta-merge-%s" % ("later" if kind == "Some" else "first" if kind == "None" else "other")
                else:
                    inst = "sink:gradient-%s" % ("accumulate" if kind == "Some" else "first" if kind == "None" else "other")
                # the old content of the slot is Owner(owner) by the invariant being proved
                saved = {}
                for ov in olds:
                    saved[ov] = m.binds.get(ov)
                    m.binds[ov] = ("owner", owner)
                sh = m.shape(expr)
                for ov, old in saved.items():
                    if old is None:
                        m.binds.pop(ov, None)
                    else:
                        m.binds[ov] = old
                c.check(sh == ("owner", owner), inst, loc(bw, n),
                        "value stored into %s.%s is typed Owner(%s)" % (nm(owner), what, nm(owner)),
                        "value stored into %s.%s is not reduced to %s's dimensions (%s): a broadcast operand used more than once keeps "
                        "the broadcast shape or has its earlier contributions replicated"
                        % (nm(owner), what, nm(owner), sh[1] if sh[0] == "raw" else "owner is %s" % nm(sh[1])))
    # sums only in the owner's shape
    n_add = 0
    for n, ctx in walk_ctx(m.root):
        if n.get("k") == "Call" and resolved(n) == ADD:
            n_add += 1
            a = m.shape(n["args"][0])
            b = m.shape(n["args"][1])
            # old slot content bound by a Some pattern on the path
            for side in (0, 1):
                v = var_of(n["args"][side])
                if v:
                    for scrut, pat in some_bindings_on_path(ctx):
                        if scrut is not None and v in [x for x, _, _, _ in F.pat_bindings(pat)]:
                            o, f = m.slot_owner(scrut)
                            if o:
                                if side == 0:
                                    a = ("owner", o)
                                else:
                                    b = ("owner", o)
            c.check(a[0] == "owner" and a == b, "sum:same-shape#%d" % n_add, loc(bw, n),
                    "both operands of the sum are typed Owner(%s)" % nm(a[1]) if a[0] == "owner" else "",
                    "the engine adds %s and %s: adding a contribution in the broadcast shape to one in the owner's shape replicates the smaller "
                    "one, and the later reduction counts it once per broadcast position" % (a, b))
    # flatten_to summary
    ft = None
    for b in facts.fns():
        if b.get("impl_self") == ARRAY and b.get("name") == "flatten_to":
            ft = b
    if ft is None:
        c.floor("flatten_to", 0, 1)
    else:
        ok, why = _flatten_to_summary(m.facts, ft)
        if ok is None:
            c.unk("summary:flatten_to", "%s:%d" % (F.rel(ft["file"]), ft["sp"][0]), why)
        else:
            c.check(ok, "summary:flatten_to", "%s:%d" % (F.rel(ft["file"]), ft["sp"][0]),
                    "flatten_to returns self only under `self.dimensions == dimensions`, otherwise a sliced_op whose output dimensions are the parameter (flatten_count 0)", why)
    return c


def _return_paths(root):
    """[(ctx, expr)] for every value a function body can return: `return e` and the tail"""
    out = []
    for n, ctx in walk_ctx(root):
        if n.get("k") == "Return" and n.get("e") is not None:
            out.append((ctx, n["e"]))

    def tails(e, ctx):
        e0 = strip(e)
        if not isinstance(e0, dict):
            return
        k = e0.get("k")
        if k == "Block":
            # recover the ctx at the tail by re-walking
            for n, c2 in walk_ctx(e0, ctx):
                if e0.get("e") is not None and n is e0["e"]:
                    tails(n, c2)
                    return
            return
        if k == "If" and e0.get("else") is not None:
            tails(e0["then"], ctx + (("if", e0, "then"),))
            tails(e0["else"], ctx + (("if", e0, "else"),))
            return
        if k == "Match":
            for i, a in enumerate(e0["arms"]):
                tails(a["body"], ctx + (("arm", e0, i),))
            return
        if F._diverging(e0):
            return
        out.append((ctx, e0))
    tails(root, ())
    return out


def _flatten_to_summary(facts, ft):
    root = facts.root(ft)
    selfv = self_var(facts, ft)
    ps = param_vars(facts, ft)
    dimv = ps[1][0] if len(ps) > 1 else None
    binds = F.bindings_of(root)

    def is_dims_eq(cond):
        cond = strip(cond)
        sides = None
        if cond.get("k") == "Binary" and cond["op"] == "Eq":
            sides = [cond["l"], cond["r"]]
        elif cond.get("k") == "Call" and callee(cond) == "core::cmp::PartialEq::eq":
            sides = cond["args"]
        if not sides:
            return False
        for a, b in ((sides[0], sides[1]), (sides[1], sides[0])):
            r, ch = field_chain(a)
            if var_of(r) == selfv and ch == ["dimensions"] and var_of(b) == dimv:
                return True
        return False
    paths = _return_paths(root)
    if not paths:
        return False, "flatten_to has no recognisable return value"
    n_self = n_red = 0
    pending_unk = None
    for ctx, e in paths:
        e0 = peel(e) if strip(e).get("k") != "Call" else strip(e)
        if var_of(e0) == selfv and strip(e).get("k") in ("VarRef", "Use"):
            if not any(t and is_dims_eq(cond) for cond, t in path_facts(ctx)):
                return False, "flatten_to can return self without having checked `self.dimensions == dimensions`"
            n_self += 1
            continue
        t = strip(e)
        v = var_of(t)
        if v and t.get("k") == "VarRef" and v in binds and binds[v][0] == "let" and binds[v][1] is not None:
            t = strip(binds[v][1])
        if t.get("k") == "Call" and resolved(t) == "corgi::array::Array::sliced_op":
            od = peel(t["args"][4])
            hops = 0
            while var_of(od) and var_of(od) != dimv and var_of(od) in binds and binds[var_of(od)][0] == "let" and binds[var_of(od)][1] is not None and hops < 4:
                od = peel(binds[var_of(od)][1])     # `let target = dimensions;` bound before the call
                hops += 1
            if var_of(od) != dimv:
                return False, "the reducing branch builds its result with output dimensions other than the target parameter"
            if lit_value(t["args"][6]) != 0:
                return False, "sliced_op flatten_count is not 0"
            n_red += 1
            continue
        if t.get("k") == "Call" and resolved(t) == "corgi::array::linalg::<impl corgi::array::Array>::reshape":
            # a reshape to the target dimensions keeps the shape contract (values are judged elsewhere)
            if var_of(peel(t["args"][1])) == dimv or any(x.get("k") in ("VarRef",) and x["v"] == dimv for x in walk(t["args"][1])):
                n_red += 1
                continue
        # another way of producing the result (a hand-written reduction next to the primitive)
        alt = _judge_alternative_reducer(facts, ft, root, ctx, e, t, selfv, dimv, binds)
        if alt[0] is True:
            n_red += 1
            pending_unk = pending_unk or alt[1]
            continue
        return alt
    if n_red == 0:
        return False, "flatten_to never reduces"
    if pending_unk:
        return None, pending_unk
    return True, ""


def _judge_alternative_reducer(facts, ft, root, ctx, e, t, selfv, dimv, binds):
    """A return path of flatten_to that builds its result directly (not through the reduction primitive).
    -> (False, why): definitely wrong;  (True, why): shape right, values not judged (why = abstention text)
    Shape clause: the result's dimensions are the target parameter.  Value clause, decided only by an information argument:
    if everything the path (and its guards) reads of the target dimensions is symmetric in their order (len, product, sum,
    the copy into the result), the path computes the same values for [1,3] and [3,1] (from [2,3,3]) or for [2,1,2] and
    [2,2,1] (from [2,2,2]) although the sums over the broadcast positions differ: it is wrong for one of them."""
    CTOR = "<%s as core::convert::From<(" % ARRAY
    dims_e = None
    if t.get("k") == "Call" and (resolved(t) or "").startswith(CTOR) and t["args"]:
        tup = strip(t["args"][0])
        if tup.get("k") == "Tuple" and len(tup["fields"]) == 2:
            dims_e = tup["fields"][0]
    if dims_e is None:
        return False, "a return path of flatten_to is neither `self` under the equal-dimensions guard, nor a sliced_op / reshape to the target dimensions, nor an array built with them: %s" % show(t)[:100]
    d0 = peel(dims_e)
    hops = 0
    while isinstance(d0, dict) and hops < 6:
        if d0.get("k") in ("VarRef", "UpvarRef") and d0["v"] != dimv and d0["v"] in binds and binds[d0["v"]][0] == "let" and binds[d0["v"]][1] is not None:
            d0 = peel(binds[d0["v"]][1])
        elif d0.get("k") == "Call" and (callee(d0) or "").rsplit("::", 1)[-1] in ("to_vec", "to_owned", "clone", "into", "from", "collect", "copied", "cloned", "iter") and d0["args"]:
            d0 = peel(d0["args"][0])
        else:
            break
        hops += 1
    if var_of(d0) != dimv:
        # `if let [a, b] = *dimensions { .. Array::from((vec![a, b], ..)) }`: the target's elements re-assembled in order
        from .repr_rules import vec_literal_elems as _vle
        els = _vle(d0) if isinstance(d0, dict) else None
        bound = None
        for cond, truth in path_facts(ctx):
            cnd = strip(cond)
            if truth and cnd.get("k") == "Let" and strip(cnd["pat"]).get("k") == "Slice" and cnd["pat"].get("slice") is None:
                sc = peel(cnd["e"])
                if var_of(sc) == dimv:
                    bound = [q.get("v") for q in (cnd["pat"].get("prefix") or []) + (cnd["pat"].get("suffix") or [])]
        if els is not None and bound is not None and [var_of(x) for x in els] == bound:
            pass        # the result's dimensions are the target's, element by element
        elif any(x.get("k") in ("VarRef", "UpvarRef") and x["v"] == dimv for x in walk(dims_e)) or bound is not None:
            return True, ("flatten_to has a return path that builds its result directly; how its dimensions (`%s`) derive from the target is not read" % show(dims_e)[:60])
        else:
            return False, "a return path of flatten_to builds its result with dimensions other than the target parameter: %s" % show(dims_e)[:80]
    # ---- how the target dimensions are read on this path: its guards and the branch that ends in this return
    SYM_TERMINALS = ("len", "product", "sum", "count", "is_empty")
    PASS = ("iter", "into_iter", "copied", "cloned", "deref", "as_slice", "as_ref", "borrow", "to_vec", "to_owned", "clone")
    parents = {}
    for n in walk(root):
        for ch in F.kids(n):
            if isinstance(ch, dict):
                parents[id(ch)] = n
    region = []
    for cond, truth in path_facts(ctx):
        region.append(cond)
    # the statements of the innermost block that contains the return value
    blk = None
    p_ = parents.get(id(e)) or parents.get(id(strip(e)))
    cur = strip(e)
    while cur is not None:
        par = parents.get(id(cur))
        if par is None:
            break
        if par.get("k") == "Block":
            blk = par
            break
        cur = par
    if blk is not None:
        for st in blk["stmts"]:
            region.append(st.get("init") if st["s"] == "let" else st.get("e"))
        if blk.get("e") is not None:
            region.append(blk["e"])
    else:
        region.append(e)
    # lets outside the block that the region mentions (e.g. `flatten_dimension_count`)
    for _ in range(2):
        for r_ in list(region):
            for x in walk(r_) if isinstance(r_, dict) else []:
                if x.get("k") in ("VarRef", "UpvarRef") and x["v"] in binds and binds[x["v"]][0] == "let" and isinstance(binds[x["v"]][1], dict) \
                        and not any(binds[x["v"]][1] is y for y in region):
                    region.append(binds[x["v"]][1])
    positional = None
    n_reads = 0
    for r_ in region:
        if not isinstance(r_, dict):
            continue
        for x in walk(r_):
            if not (x.get("k") in ("VarRef", "UpvarRef") and x["v"] == dimv):
                continue
            if any(x is y for y in walk(dims_e)):
                continue            # the copy into the result
            n_reads += 1
            # climb: the read is symmetric if the first call that is not a pass-through is a symmetric terminal or an equality with self.dimensions
            cur = x
            verdict = None
            for _ in range(10):
                par = parents.get(id(cur))
                if par is None:
                    verdict = "lost"
                    break
                k = par.get("k")
                if k in ("Borrow", "Deref", "Use", "Scope", "PointerCoercion", "Cast"):
                    cur = par
                    continue
                if k == "Call":
                    tail = (callee(par) or "").rsplit("::", 1)[-1]
                    if tail in PASS and par["args"] and any(cur is y for y in walk(par["args"][0])):
                        cur = par
                        continue
                    if tail in SYM_TERMINALS:
                        verdict = "sym"
                        break
                    if tail in ("eq", "ne") and (callee(par) or "").startswith("core::cmp::PartialEq"):
                        verdict = "sym"
                        break
                    verdict = "pos:" + tail
                    break
                if k == "Binary" and par.get("op") in ("Eq", "Ne"):
                    verdict = "sym"
                    break
                verdict = "pos:" + str(k)
                break
            if verdict != "sym":
                positional = positional or (x, verdict)
    shape_ok_text = "its dimensions are the target's"
    if positional is not None or n_reads == 0:
        return True, ("flatten_to has a return path that builds its result directly from the buffer (`%s`): %s, but whether its values are the sums over the broadcast "
                      "positions is not decided (the path reads the target dimensions by position)" % (show(t)[:60], shape_ok_text))
    # ---- all reads symmetric: is the path reached for a pair of targets that differ only in the order of their dimensions?
    witnesses = [([2, 3, 3], [1, 3], [3, 1]), ([2, 2, 2], [2, 1, 2], [2, 2, 1]), ([2, 2, 3, 3], [1, 3], [3, 1])]

    def ival(x, S, T, depth=0):
        x = peel(x)
        if not isinstance(x, dict) or depth > 12:
            return None
        k = x.get("k")
        if k == "Literal":
            v = lit_value(x)
            return v if isinstance(v, (int, bool)) else None
        if k in ("VarRef", "UpvarRef"):
            if x["v"] in binds and binds[x["v"]][0] == "let" and isinstance(binds[x["v"]][1], dict):
                return ival(binds[x["v"]][1], S, T, depth + 1)
            return None
        if k == "Call":
            tail = (callee(x) or "").rsplit("::", 1)[-1]
            if tail in ("len", "product") and x["args"]:
                a = peel(x["args"][0])
                while isinstance(a, dict) and a.get("k") == "Call" and (callee(a) or "").rsplit("::", 1)[-1] in PASS and a["args"]:
                    a = peel(a["args"][0])
                lst = None
                if var_of(a) == dimv:
                    lst = T
                else:
                    r_, ch = field_chain(a)
                    if var_of(r_) == selfv and ch == ["dimensions"]:
                        lst = S
                    elif var_of(r_) == selfv and ch == ["values"]:
                        lst = [1] * 0
                        if tail == "len":
                            n_ = 1
                            for d in S:
                                n_ *= d
                            return n_
                if lst is None:
                    return None
                if tail == "len":
                    return len(lst)
                n_ = 1
                for d in lst:
                    n_ *= d
                return n_
            if tail == "saturating_sub" and len(x["args"]) == 2:
                a, b = ival(x["args"][0], S, T, depth + 1), ival(x["args"][1], S, T, depth + 1)
                return None if a is None or b is None else max(0, a - b)
            if tail in ("eq", "ne") and len(x["args"]) == 2:
                sides = x["args"]
                return _veq(sides, S, T, tail == "ne", depth)
            return None
        if k == "Binary":
            if x["op"] in ("Eq", "Ne"):
                v = _veq([x["l"], x["r"]], S, T, x["op"] == "Ne", depth)
                if v is not None:
                    return v
            a, b = ival(x["l"], S, T, depth + 1), ival(x["r"], S, T, depth + 1)
            if a is None or b is None:
                return None
            op = x["op"]
            try:
                return {"Add": a + b, "Sub": a - b, "Mul": a * b, "Div": a // b if b else None, "Eq": a == b, "Ne": a != b, "Lt": a < b, "Le": a <= b, "Gt": a > b, "Ge": a >= b}.get(op)
            except Exception:
                return None
        if k == "Unary" and x.get("op") == "Not":
            a = ival(x["e"], S, T, depth + 1)
            return None if a is None else (not a)
        if k == "LogicalOp":
            a, b = ival(x["l"], S, T, depth + 1), ival(x["r"], S, T, depth + 1)
            if a is None or b is None:
                return None
            return (a and b) if x["op"] == "And" else (a or b)
        return None

    def _veq(sides, S, T, neg, depth):
        lists = []
        for sd in sides:
            a = peel(sd)
            while isinstance(a, dict) and a.get("k") == "Call" and (callee(a) or "").rsplit("::", 1)[-1] in PASS and a["args"]:
                a = peel(a["args"][0])
            if var_of(a) == dimv:
                lists.append(T)
            else:
                r_, ch = field_chain(a) if isinstance(a, dict) else (None, None)
                if r_ is not None and var_of(r_) == selfv and ch == ["dimensions"]:
                    lists.append(S)
        if len(lists) == 2:
            return (lists[0] != lists[1]) if neg else (lists[0] == lists[1])
        return None
    for S, T1, T2 in witnesses:
        reach = []
        for T in (T1, T2):
            ok_ = True
            for cond, truth in path_facts(ctx):
                v = ival(cond, S, T)
                if v is None:
                    ok_ = None
                    break
                if bool(v) != truth:
                    ok_ = False
                    break
            reach.append(ok_)
        if reach == [True, True]:
            return False, ("flatten_to has a return path that builds its result directly from the buffer and reads the target dimensions only through %s: it computes the same values "
                           "when a delta of dimensions %s is reduced to %s and to %s, although the sums over the broadcast positions differ (one collapses dimension %d, the other dimension %d): "
                           "the gradient of a broadcast operand is wrong for at least one of them"
                           % ("their count and product", S, T1, T2, len(S) - len(T1) + T1.index(1), len(S) - len(T2) + T2.index(1)))
    return True, ("flatten_to has a return path that builds its result directly from the buffer (`%s`): %s, but whether its values are the sums over the broadcast positions is not decided"
                  % (show(t)[:60], shape_ok_text))


# ------------------------------------------------------------------ R14

def r14_default_seed(facts):
    """R14: the omitted seed is ones of the root's shape; a supplied seed is used as given."""
    c = Ctx("R14", facts, "omitted seed = ones with the root's dimensions")
    m = PassModel(facts)
    if not m.ok:
        c.floor("Array::backward model (%s)" % m.why, 0, 1)
        return c
    bw = m.bw
    defaults = []     # expressions used when the seed is None
    givens = []       # (expr, bound vars) used when the seed is Some
    dropped = []      # (expr, why): places a supplied seed can reach where it is not bound
    all_nodes = []
    for b_ in m.facts.nested(bw):
        all_nodes.extend(walk_ctx(m.facts.root(b_)))
    for n, ctx in all_nodes:
        k = n.get("k")
        scr_ = peel(n["scrutinee"]) if k == "Match" else None
        while isinstance(scr_, dict) and scr_.get("k") == "Call" and callee(scr_) in OPT_VIEWS and scr_["args"]:
            scr_ = peel(scr_["args"][0])
        if k == "Match" and isinstance(scr_, dict) and scr_.get("k") in ("VarRef", "UpvarRef") and scr_["v"] == m.seedv:
            some_open, none_open = True, True     # can a Some / a None scrutinee still reach the next arm?
            for a in n["arms"]:
                p = a["pat"]
                guarded = a.get("guard") is not None
                if p.get("k") == "Variant" and p["variant"] == "None":
                    if none_open:
                        defaults.append(a["body"])
                    none_open = none_open and guarded
                elif p.get("k") == "Variant" and p["variant"] == "Some":
                    if some_open:
                        givens.append((a["body"], [v for v, _, _, _ in F.pat_bindings(p)]))
                    some_open = some_open and guarded
                elif p.get("k") in ("Wild", "Binding"):
                    if none_open:
                        defaults.append(a["body"])
                    if some_open and (strip(a["body"]).get("ty") or "") != "!":
                        dropped.append((a["body"], "a supplied seed that does not take an earlier arm ends in the catch-all arm"))
                    none_open = none_open and guarded
                    some_open = some_open and guarded
        elif k == "If" and strip(n["cond"]).get("k") == "Let" and var_of(strip(n["cond"])["e"]) == m.seedv:
            cond = strip(n["cond"])
            if F._is_some_pat(cond["pat"]) and n.get("else") is not None:
                givens.append((n["then"], [v for v, _, _, _ in F.pat_bindings(cond["pat"])]))
                defaults.append(n["else"])
        elif k == "Call" and callee(n) in ("core::option::Option::<T>::unwrap_or_else", "core::option::Option::<T>::unwrap_or",
                                           "core::option::Option::<T>::map_or_else", "core::option::Option::<T>::map_or") \
                and var_of(n["args"][0]) == m.seedv:
            d = strip(n["args"][1])
            if d.get("k") == "Closure":
                cb = m.facts.body(d["closure"])
                _, t = closure_tail(m.facts, cb)
                m.binds.update(F.bindings_of(m.facts.root(cb)))
                defaults.append(t)
            else:
                defaults.append(d)
            if callee(n).endswith("map_or_else") or callee(n).endswith("map_or"):
                clo = strip(n["args"][2])
                if clo.get("k") == "Closure":
                    cb = m.facts.body(clo["closure"])
                    _, t = closure_tail(m.facts, cb)
                    givens.append((t, [v for v, _, _, _ in param_vars(m.facts, cb)]))
            else:
                givens.append((None, []))
    c.floor("places where the seed parameter is resolved", len(defaults), 1)
    for d in defaults:
        body = _tail(d)
        ok, why = _is_ones_of_self(m, body)
        c.check(ok, "seed:default", loc(bw, body), "None seed -> ones with self's dimensions (Array::from((self.dimensions.clone(), vec![1.0; n])))", why)
    # the seed a pass starts from is a plain untracked array: the derivatives run with their operands un-tracked, so everything they
    # compute from an untracked seed is untracked; a tracked seed makes every gradient of the pass a tracked graph node holding operands
    for e_ in defaults + [g for g, _ in givens if g is not None]:
        t_ = _tail(e_)
        mark = [x for x in walk(t_) if x.get("k") == "Call" and resolved(x) in ("corgi::array::Array::tracked", "corgi::array::Array::start_tracking")]
        v_ = var_of(t_)
        if not mark and v_ and peel(t_).get("k") == "VarRef" and v_ in m.binds and m.binds[v_][0] == "let" and m.binds[v_][1] is not None:
            mark = [x for x in walk(m.binds[v_][1]) if x.get("k") == "Call" and resolved(x) in ("corgi::array::Array::tracked", "corgi::array::Array::start_tracking")]
        c.check(not mark, "seed:untracked", loc(bw, t_), "the seed is used without marking it tracked",
                "the seed of the pass is marked tracked (`%s`): every gradient computed from it is a tracked node with operands, not a plain untracked array "
                "(gradients keep the graph alive and later operations differentiate into them)" % show(t_)[:70])
    for g, why_ in dropped:
        c.bad("seed:given", loc(bw, _tail(g)), "%s, which uses `%s` instead of the seed: the gradients are not those of the seed the caller supplied" % (why_, show(_tail(g))[:60]))
    for g, vs in givens:
        if g is None:
            c.ok("seed:given", loc(bw, m.root), "a supplied seed is used as given (unwrap_or*)")
            continue
        body = _tail(g)
        c.check(var_of(body) in vs and peel(body).get("k") in ("VarRef", "UpvarRef"), "seed:given", loc(bw, body),
                "a supplied seed is used as given", "a supplied seed is not used as given: %s" % show(body)[:80])
    return c


def r14_seed_untracked(facts):
    """the seed a backward pass starts from is not marked tracked (gradients are plain untracked arrays)"""
    c = r14_default_seed(facts)
    c.obs = [o for o in c.obs if "@seed:untracked" in o.key or "@floor:" in o.key or "@anchor-missing:" in o.key or "@coverage-reduced:" in o.key]
    c.title = "the seed of a pass is a plain untracked array"
    return c


def _is_ones_of_self(m, e):
    e = strip(e)
    n = 0
    while isinstance(e, dict) and e.get("k") == "Block" and n < 4:
        # inlined helper / block with lets: follow the tail, remember lets
        m.binds.update(F.bindings_of(e))
        if e.get("e") is None:
            break
        e = strip(e["e"])
        n += 1
    v = var_of(e)
    if v and e.get("k") == "VarRef" and v in m.binds and m.binds[v][0] == "let" and m.binds[v][1] is not None:
        return _is_ones_of_self(m, m.binds[v][1])
    if not (e.get("k") == "Call" and (resolved(e) or "").startswith(CTOR_PREFIX)):
        return False, "default seed is not built by the (dimensions, values) constructor: %s" % show(e)[:100]
    tup = strip(e["args"][0])
    if tup.get("k") != "Tuple" or len(tup["fields"]) != 2:
        return False, "constructor argument is not a (dimensions, values) tuple"
    if m.owner_of_dims(tup["fields"][0]) != m.selfv:
        return False, "default seed dimensions are not self.dimensions"
    v = strip(tup["fields"][1])
    vv = var_of(v)
    if vv and v.get("k") == "VarRef" and vv in m.binds and m.binds[vv][0] == "let" and m.binds[vv][1] is not None:
        v = strip(m.binds[vv][1])
    if v.get("k") == "Call" and callee(v) == "alloc::rc::Rc::<T>::new":
        v = strip(v["args"][0])
    if not (v.get("k") == "Call" and callee(v) == "alloc::vec::from_elem"):
        return False, "default seed values are not vec![x; n]: %s" % show(v)[:80]
    if lit_value(v["args"][0]) != 1.0:
        return False, "default seed is filled with %s, not 1.0" % show(v["args"][0])
    n_ = peel(v["args"][1])
    nv = var_of(n_)
    if nv and n_.get("k") == "VarRef" and nv in m.binds and m.binds[nv][0] == "let" and m.binds[nv][1] is not None:
        n_ = peel(m.binds[nv][1])
    ok_n = False
    if n_.get("k") == "Call" and callee(n_) in ("alloc::vec::Vec::<T, A>::len", "core::slice::<impl [T]>::len"):
        a0 = peel(n_["args"][0])
        if a0.get("k") == "Call" and resolved(a0) == "corgi::array::Array::values":
            ok_n = var_of(a0["args"][0]) == m.selfv
        else:
            r, ch = field_chain(n_["args"][0])
            ok_n = var_of(r) == m.selfv and ch == ["values"]
    elif n_.get("k") == "Call" and callee(n_) in (IT + "product", IT + "fold"):
        for x in walk(n_):
            if x.get("k") == "Field" and x["name"] == "dimensions" and var_of(x["e"]) == m.selfv:
                ok_n = True
            if x.get("k") == "Call" and resolved(x) == "corgi::array::Array::dimensions" and var_of(x["args"][0]) == m.selfv:
                ok_n = True
            if x.get("k") in ("VarRef", "UpvarRef") and m.owner_of_dims(x) == m.selfv:
                ok_n = True
    if not ok_n:
        return False, "default seed length is not self.values.len() / product of self.dimensions: %s" % show(n_)[:80]
    return True, ""


# ------------------------------------------------------------------ R25

def r25_accumulate_arms(facts):
    """R25: slots accumulate: an occupied slot gets old + new, an empty one gets new."""
    c = Ctx("R25", facts, "slots accumulate: occupied -> old + new, empty -> new")
    m = PassModel(facts)
    if not m.ok:
        c.floor("Array::backward model (%s)" % m.why, 0, 1)
        return c
    bw = m.bw
    total = 0
    for name, stores, fld in (("delta", m.delta_sets(), m.f_delta), ("gradient", m.gradient_stores(), m.f_grad)):
        kinds_seen = {}
        for n, ctx, owner, val in stores:
            total += 1
            payload = _some_payload(val)
            if payload is None:
                if _is_none(val) and name == "gradient":
                    c.bad("gradient:cleared", loc(bw, n), "the backward pass empties a gradient slot: what earlier passes accumulated there is lost (gradients add up across passes until the "
                          "caller takes them)")
                    continue
                if _is_none(val):
                    continue
                c.bad("%s:store" % name, loc(bw, n), "the %s slot is set to something that is not Some(..)" % name)
                continue
            cases = m.payload_cases(payload, ctx, owner, fld)
            for kind, expr, olds in cases:
                if kind is None:
                    c.bad("%s:unmatched" % name, loc(bw, n),
                          "blind store into the %s slot: the stored value does not depend on whether the slot is occupied (not inside / computed by a "
                          "match on the slot's content), so an existing contribution is overwritten" % name)
                    continue
                kinds_seen.setdefault(owner, set()).add(kind)
                p = peel(m.unlet(expr))
                if kind == "Some":
                    def old_plus_new(p):
                        """True / False / None (assembled by hand from value buffers: not read)"""
                        p = peel(m.unlet(p)) if isinstance(p, dict) else p
                        if not isinstance(p, dict):
                            return False
                        if p.get("k") in ("If", "Match", "Block"):
                            br = [p["then"], p.get("else")] if p["k"] == "If" else ([a["body"] for a in p["arms"]] if p["k"] == "Match" else [p.get("e")])
                            br = [b_ for b_ in br if b_ is None or not F._diverging(b_)]
                            if not br or any(b_ is None for b_ in br):
                                return False
                            vals = [old_plus_new(b_) for b_ in br]
                            return False if any(v is False for v in vals) else (None if any(v is None for v in vals) else True)
                        if p.get("k") == "Call" and (resolved(p) or "").startswith(CTOR_PREFIX):
                            used = _vars_in(p)
                            for _ in range(3):
                                for v_ in list(used):
                                    bnd_ = m.binds.get(v_)
                                    if bnd_ and bnd_[0] == "let" and bnd_[1] is not None:
                                        used |= _vars_in(bnd_[1])
                            reads = any((x.get("k") == "Field" and x.get("adt") == ARRAY and x.get("name") == "values") for v_ in used
                                        for x in (walk(m.binds[v_][1]) if m.binds.get(v_) and m.binds[v_][0] == "let" and m.binds[v_][1] is not None else []))
                            return None if (used & set(olds)) and reads else False
                        ok_ = p.get("k") == "Call" and resolved(p) == ADD
                        if ok_:
                            a0 = _vars_in(p["args"][0])
                            a1 = _vars_in(p["args"][1])
                            has_old = bool((a0 | a1) & set(olds))
                            other = p["args"][1] if (a0 & set(olds)) else p["args"][0]
                            other2 = m.unlet(peel(other)) if peel(other).get("k") == "VarRef" else other
                            has_new = bool(_vars_in(other) - set(olds)) and (_only_linear_wrappers(other) or _only_linear_wrappers(other2))
                            ok_ = has_old and has_new
                        return bool(ok_)
                    ok = old_plus_new(p)
                    if ok is None:
                        c.unk("%s:Some-arm" % name, loc(bw, n), "an alternative of the value stored into the occupied %s slot is assembled by hand from value buffers: whether it is old + new is not read" % name)
                        continue
                    c.check(ok, "%s:Some-arm" % name, loc(bw, n),
                            "occupied slot: stores old + new (resolved <&Array as Add<&Array>>::add)",
                            "occupied %s slot is not updated to old + new: %s (an earlier contribution would be lost or combined wrongly)" % (name, show(expr)[:120]))
                else:
                    ex2 = m.unlet(peel(expr)) if peel(expr).get("k") == "VarRef" else expr
                    ok = (_only_linear_wrappers(ex2) and len(_vars_in(ex2) - {owner}) >= 1) or _only_linear_wrappers(expr)
                    c.check(ok, "%s:None-arm" % name, loc(bw, n), "empty slot: stores the new contribution",
                            "empty %s slot does not store the new contribution as is: %s" % (name, show(expr)[:120]))
        for owner, ks in kinds_seen.items():
            for kind in ("Some", "None"):
                if kind not in ks:
                    c.bad("%s:%s-arm" % (name, kind), "%s:%d" % (F.rel(bw["file"]), bw["sp"][0]),
                          "no store into the %s slot handles the case where the slot is %s" % (name, "occupied (an existing value would be lost)" if kind == "Some" else "empty"))
    c.floor("slot stores examined", total, 2)
    # ---- a pass may not end early because a gradient is already held: gradients add up across passes
    for n, ctx in walk_ctx(m.root):
        if n.get("k") != "Return":
            continue
        conds = []
        for fr in ctx:
            if fr[0] in ("if", "after"):
                conds.append(fr[1]["cond"])
            elif fr[0] in ("arm", "guard", "after-arm"):
                conds.append(fr[1]["scrutinee"])
                if fr[0] in ("arm", "guard") and fr[1]["arms"][fr[2]].get("guard") is not None:
                    conds.append(fr[1]["arms"][fr[2]]["guard"])
            elif fr[0] == "logic":
                conds.append(fr[1]["l"])
        used = set()
        for cd in conds:
            used |= _vars_in(cd)
        for _ in range(3):
            for v_ in list(used):
                bnd_ = m.binds.get(v_)
                if bnd_ and bnd_[1] is not None:
                    used |= _vars_in(bnd_[1])
        srcs = list(conds) + [m.binds[v_][1] for v_ in used if m.binds.get(v_) and m.binds[v_][1] is not None]
        on_grad = any(x.get("k") == "Field" and x.get("name") == m.f_grad and x.get("adt") == ARRAY for e_ in srcs for x in walk(e_))
        if on_grad:
            c.bad("gradient:held-ends-pass", loc(bw, n), "backward returns early under a condition that reads the gradient slot: a pass over a node that already holds a gradient "
                  "from an earlier pass is cut short, so what this pass should add (there and upstream) is lost")
        else:
            c.unk("backward:early-return", loc(bw, n), "backward has an early `return`; whether the slots still accumulate on the inputs that take it is not read")
    return c


# ------------------------------------------------------------------ R13 (engine half)

def engine_seed_linearity(c, facts):
    m = PassModel(facts)
    if not m.ok:
        c.floor("Array::backward model", 0, 1)
        return
    bw = m.bw
    inv = m.inv
    pass_delta = None
    if inv is not None:
        tup = strip(inv["args"][1]) if len(inv["args"]) > 1 else None
        third = tup["fields"][2] if tup and tup.get("k") == "Tuple" and len(tup["fields"]) == 3 else None
        pass_delta = var_of(third) if third is not None else None
    state = {"third": False}

    def from_invocation(v, seen):
        if v in seen or len(seen) > 16 or inv is None:
            return False
        seen.add(v)
        bnd = m.binds.get(v)
        if bnd is None or bnd[1] is None:
            return False
        src = bnd[1]
        if any(x is inv for x in walk(src)):
            return True
        if bnd[0] == "let" and peel(src).get("k") not in ("VarRef", "UpvarRef"):
            ok_calls = True
        for x in walk(src):
            if x.get("k") == "Call" and callee(x) not in (
                    "core::iter::traits::collect::IntoIterator::into_iter", IT + "enumerate", IT + "next", IT + "zip",
                    "core::slice::<impl [T]>::iter", "core::ops::deref::Deref::deref", "alloc::vec::Vec::<T, A>::drain",
                    "core::ops::index::Index::index", "core::option::Option::<T>::take", "core::mem::take", IT + "rev"):
                return False
        return any(from_invocation(x["v"], seen) for x in walk(src) if x.get("k") in ("VarRef", "UpvarRef"))

    def opt_lin(e, depth):
        e = peel(e)
        while isinstance(e, dict) and e.get("k") == "Call" and callee(e) in OPT_VIEWS:
            e = peel(e["args"][0])
        if var_of(e) == m.seedv and e.get("k") in ("VarRef", "UpvarRef"):
            return True
        o, f = m.slot_owner(e)
        if o and f == m.f_delta:
            return True
        if _is_some(e):
            return seedlin(e["fields"][0]["e"], depth + 1)
        return False

    def tri_all(vals):
        vals = list(vals)
        if any(v is False for v in vals):
            return False
        if any(v is None for v in vals):
            return None
        return True

    def seedlin(e, depth=0):
        """True: linear in the seed; False: recognisably not; None: built by hand from buffers (not read)"""
        e = peel(e)
        if depth > 16 or not isinstance(e, dict):
            return False
        k = e.get("k")
        if k in ("VarRef", "UpvarRef"):
            v = e["v"]
            bnd = m.binds.get(v)
            if bnd is None:
                return False
            if bnd[0] == "lin":
                return True         # old content of a pending-delta slot: linear by the induction hypothesis
            if bnd[0] == "owner":
                return False
            if bnd[0] == "let":
                return False if bnd[1] is None else seedlin(bnd[1], depth + 1)
            _, scrut, path, owner = bnd
            if [p for p in path if p != "*"] == ["Some.0"] and opt_lin(scrut, depth):
                return True
            if from_invocation(v, set()):
                return bool(pass_delta is not None and state["third"])
            return False
        if k == "Call":
            r = resolved(e)
            cal = callee(e)
            if r in (FLATTEN, CLONE):
                return seedlin(e["args"][0], depth + 1)
            if r == ADD:
                return tri_all([seedlin(e["args"][0], depth + 1), seedlin(e["args"][1], depth + 1)])
            if (r or "").startswith(CTOR_PREFIX):
                ok, _ = _is_ones_of_self(m, e)
                if ok:
                    return True       # the default seed: it *is* the seed of this pass
                tup = strip(e["args"][0]) if e.get("args") else {}
                if tup.get("k") == "Tuple" and len(tup["fields"]) == 2:
                    vv = peel(tup["fields"][1])
                    hops = 0
                    while isinstance(vv, dict) and vv.get("k") == "Call" and callee(vv) in ("alloc::rc::Rc::<T>::new",) and vv["args"] and hops < 3:
                        vv = peel(vv["args"][0])
                        hops += 1
                    if isinstance(vv, dict) and vv.get("k") == "VarRef" and vv["v"] in m.binds and m.binds[vv["v"]][0] == "let" and m.binds[vv["v"]][1] is not None:
                        init = m.binds[vv["v"]][1]
                        reads = any((x.get("k") == "Field" and x.get("adt") == ARRAY and x.get("name") == "values") or
                                    (x.get("k") == "Call" and resolved(x) == "corgi::array::Array::values") for x in walk(init))
                        if reads:
                            return None     # an array assembled by hand from other arrays' buffers: arithmetic not read here
                return False
            if cal in ("core::option::Option::<T>::unwrap_or_else", "core::option::Option::<T>::unwrap_or"):
                d = strip(e["args"][1])
                if d.get("k") == "Closure":
                    cb = m.facts.body(d["closure"])
                    _, d = closure_tail(m.facts, cb)
                    m.binds.update(F.bindings_of(m.facts.root(cb)))
                if not opt_lin(e["args"][0], depth) or d is None:
                    return False
                return seedlin(d, depth + 1)
            if cal in ("core::option::Option::<T>::unwrap", "core::option::Option::<T>::expect"):
                return bool(opt_lin(e["args"][0], depth))
            return False
        if k in ("If", "Match", "Block"):
            if k == "If":
                br = [e["then"], e.get("else")]
            elif k == "Match":
                br = [a["body"] for a in e["arms"]]
            else:
                br = [e.get("e")]
            br = [b for b in br if b is None or not F._diverging(b)]
            if not br or any(b is None for b in br):
                return False
            return tri_all(seedlin(b, depth + 1) for b in br)
        return False

    if pass_delta is not None:
        state["third"] = True
        state["third"] = seedlin({"k": "VarRef", "v": pass_delta, "ty": ""})
    c.check(bool(state["third"]), "engine:closure-argument", loc(bw, inv) if inv is not None else "-",
            "the adjoint handed to the derivative closure is the pass's delta (pending delta, supplied seed, or default ones)",
            "the adjoint handed to the derivative closure is not the pass's delta")
    for n, ctx, owner, val in m.delta_sets():
        payload = _some_payload(val)
        if payload is None:
            continue
        for kind, expr, olds in m.payload_cases(payload, ctx, owner, m.f_delta):
            saved = {ov: m.binds.get(ov) for ov in olds}
            for ov in olds:
                m.binds[ov] = ("lin", owner)
            ok = seedlin(expr)
            for ov, old in saved.items():
                if old is None:
                    m.binds.pop(ov, None)
                else:
                    m.binds[ov] = old
            if ok is None:
                c.unk("engine:delta-%s" % kind, loc(bw, n), "an alternative of the value delivered to a child's pending delta is assembled by hand from value buffers: its arithmetic is not read")
                continue
            c.check(ok, "engine:delta-%s" % kind, loc(bw, n),
                    "value delivered to a child's pending delta is a sum of reduced closure slots / pending deltas: linear in the seed",
                    "value delivered to a child's pending delta is not linear in the seed: %s" % show(expr)[:120])
    for n, ctx, owner, val in m.gradient_stores():
        payload = _some_payload(val)
        if payload is None:
            continue
        for kind, expr, olds in m.payload_cases(payload, ctx, owner, m.f_grad):
            p = peel(m.unlet(expr))
            if kind == "Some":
                if p.get("k") in ("If", "Match") and seedlin(p) is None:
                    c.unk("engine:gradient-Some", loc(bw, n), "an alternative of the value added to an occupied gradient slot is assembled by hand from value buffers: its arithmetic is not read")
                    continue
                ok = p.get("k") == "Call" and resolved(p) == ADD and bool(seedlin(p["args"][0]) or seedlin(p["args"][1]))
                c.check(ok, "engine:gradient-Some", loc(bw, n), "this pass's contribution to an occupied gradient slot is linear in the seed (old + delta)",
                        "contribution added to an occupied gradient slot is not linear in the seed: %s" % show(expr)[:120])
            else:
                if seedlin(expr) is None:
                    c.unk("engine:gradient-%s" % kind, loc(bw, n), "an alternative of the gradient stored into an empty slot is assembled by hand from value buffers: its arithmetic is not read")
                    continue
                c.check(seedlin(expr), "engine:gradient-%s" % kind, loc(bw, n), "gradient stored into an empty slot is linear in the seed",
                        "gradient stored into an empty slot is not linear in the seed: %s" % show(expr)[:120])


# ------------------------------------------------------------------ R10

def _plain_iteration_of(e, pred):
    """e is an iteration (iter / into_iter / copied / cloned / by_ref only) over something satisfying pred"""
    e = peel(e)
    n = 0
    while isinstance(e, dict) and e.get("k") == "Call" and callee(e) in (
            "core::slice::<impl [T]>::iter", "core::iter::traits::collect::IntoIterator::into_iter", IT + "copied", IT + "cloned",
            IT + "by_ref", "alloc::vec::Vec::<T, A>::iter", "core::slice::<impl [T]>::iter_mut") and n < 6:
        e = peel(e["args"][0])
        n += 1
    return pred(e)



def _fresh_tail(base, b, depth=0):
    """True iff the value of body b is an array built by a checked constructor (directly, or by a crate-local helper whose value is)."""
    tl = strip(base.root(b))
    while isinstance(tl, dict) and tl.get("k") == "Block" and tl.get("e") is not None:
        lets = {st["pat"]["v"]: st["init"] for st in tl["stmts"] if st["s"] == "let" and st["pat"].get("k") == "Binding" and st.get("init") is not None}
        tl = strip(tl["e"])
        if isinstance(tl, dict) and tl.get("k") == "VarRef" and tl["v"] in lets:
            tl = strip(lets[tl["v"]])
    if not (isinstance(tl, dict) and tl.get("k") == "Call"):
        return False
    r = resolved(tl) or ""
    if r.startswith("<corgi::array::Array as core::convert::From<"):
        return True
    if depth < 2:
        hb = base.by_def.get(r) if hasattr(base, "by_def") else None
        if hb is None:
            hb = next((x for x in base.fns() if x["def"] == r), None)
        if hb is not None and hb.get("thir") and not any(y.get("k") == "Return" for y in walk(base.root(hb))):
            return _fresh_tail(base, hb, depth + 1)
    return False


def _detaching_function(base, b, var):
    """`var` is a by-value Array parameter of fn b, b stores to no field, has no early return, and its value is a freshly built array."""
    if b["kind"] not in ("Fn", "AssocFn") or not b.get("thir"):
        return False
    byval = {v for p_ in base.params(b) if p_.get("pat") and p_["pat"].get("k") == "Binding" and p_["pat"].get("ty") == ARRAY for v in [p_["pat"]["v"]]}
    if var not in byval:
        return False
    for x in walk(base.root(b)):
        if x.get("k") == "Return":
            return False
        if x.get("k") in ("Assign", "AssignOp") and strip(x.get("l") or {}).get("k") != "VarRef":
            return False
    return _fresh_tail(base, b)


def r10_flag_writers_and_pairing(facts):
    """R10: who writes the tracking flags; stop/restore pairing around the derivative call."""
    c = Ctx("R10", facts, "tracking flags: writers, callers, and stop/restore pairing in the pass")
    base = facts
    flags = field_roles(base).get("flags", [])
    c.floor("per-handle flag fields (Cell<bool>)", len(flags), 2)
    eng = engine_bodies(base)
    c.floor("engine bodies", len(eng), 2)
    E = engine_set(base)
    allowed_setters = ("tracked", "untracked", "start_tracking", "stop_tracking")
    n_w = 0
    for b in base.bodies:
        for n in walk(base.root(b)):
            if n.get("k") == "Call" and (callee(n) or "").startswith(CELL) and n["args"]:
                mth = callee(n).split("::")[-1]
                if mth in CELL_WRITES:
                    root, chain = field_chain(n["args"][0])
                    if chain and chain[-1] in flags:
                        n_w += 1
                        ok = b.get("impl_self") == ARRAY and b.get("impl_trait_def") is None and b.get("name") in allowed_setters
                        why_ok = "flag %s written by the flag API (%s)" % (chain[-1], b.get("name"))
                        if not ok and b.get("impl_self") == ARRAY and b["kind"] == "AssocFn" and not b.get("reachable") \
                                and (b.get("inputs") or [""])[0] == ARRAY and var_of(root) == self_var(base, b) and len(chain) == 1:
                            ok = True
                            why_ok = "flag %s of the by-value array under construction set by the private builder %s" % (chain[-1], b.get("name"))
                        if not ok and b.get("impl_self") == ARRAY and b.get("impl_trait_def") is None and b["kind"] == "AssocFn" and not b.get("reachable"):
                            # a private helper of the flag API: every call of it (transitively) sits in tracked / untracked / start_tracking / stop_tracking
                            def only_from_setters(d, seen):
                                if d in seen:
                                    return True
                                seen.add(d)
                                callers = []
                                for b2 in base.bodies:
                                    for n2 in walk(base.root(b2)):
                                        if n2.get("k") == "Call" and resolved(n2) == d:
                                            callers.append(base.body(b2.get("root", b2["def"])) or b2)
                                if not callers:
                                    return False
                                for cb in callers:
                                    if cb.get("impl_self") == ARRAY and cb.get("impl_trait_def") is None and cb.get("name") in allowed_setters:
                                        continue
                                    if cb.get("impl_self") == ARRAY and cb.get("impl_trait_def") is None and not cb.get("reachable") and cb["kind"] == "AssocFn" \
                                            and (cb.get("inputs") or [""])[0] == ARRAY:
                                        continue        # a private builder working on the by-value array under construction
                                    if cb.get("impl_self") == ARRAY and cb.get("impl_trait_def") is None and not cb.get("reachable") and only_from_setters(cb["def"], seen):
                                        continue
                                    return False
                                return True
                            if only_from_setters(b["def"], set()):
                                ok = True
                                why_ok = "flag %s written by %s, a private helper called only by the flag API" % (chain[-1], b.get("name"))
                        c.check(ok, "flag-writer:%s#%s" % (b["def"], chain[-1]), loc(b, n), why_ok,
                                "flag %s is written (Cell::%s) outside tracked/untracked/start_tracking/stop_tracking" % (chain[-1], mth))
    c.floor("flag write sites", n_w, 4)
    # what the flag API writes: tracked() -> both flags true, untracked() -> both false, start_tracking() -> is_tracked true,
    # stop_tracking() -> is_tracked false (constants read from the bodies; one level into private helpers called with literal arguments)
    want_api = {"tracked": {"is_tracked": True, "keep_gradient": True}, "untracked": {"is_tracked": False, "keep_gradient": False},
                "start_tracking": {"is_tracked": True}, "stop_tracking": {"is_tracked": False}}
    roles_ = field_roles(base)
    flag_names = list(flags)

    def canonical_flag(name):
        # after role canonicalisation the two flags keep their source names on the pinned tree; map by position otherwise
        return name

    def writes_of(body, subst, depth=0):
        """[(flag, value|None)] written by Cell::set / Cell::replace on self.<flag> in `body`, with parameters replaced by literals from `subst`"""
        out = []
        sv = self_var(base, body)
        for n in walk(base.root(body)):
            if n.get("k") != "Call" or not n.get("args"):
                continue
            cn = callee(n) or ""
            if cn.startswith(CELL) and cn.split("::")[-1] in CELL_WRITES and len(n["args"]) >= 2:
                r_, ch = field_chain(n["args"][0])
                if ch and ch[-1] in flag_names and var_of(r_) == sv:
                    a = strip(n["args"][1])
                    v = lit_value(a)
                    if not isinstance(v, bool) and a.get("k") in ("VarRef", "UpvarRef") and a["v"] in subst:
                        v = subst[a["v"]]
                    out.append((ch[-1], v if isinstance(v, bool) else None))
            elif depth < 2 and (n.get("callee") or {}).get("resolved_local"):
                hb = base.body(resolved(n))
                if hb is not None and hb.get("impl_self") == ARRAY and hb.get("impl_trait_def") is None and not hb.get("reachable") and hb.get("thir") \
                        and var_of(peel(n["args"][0])) == sv:
                    hps = [p_ for p_ in base.params(hb) if p_.get("pat")]
                    sub2 = {}
                    for p_, a in zip(hps[1:], n["args"][1:]):
                        v = lit_value(strip(a))
                        if isinstance(v, bool) and p_["pat"].get("k") == "Binding":
                            sub2[p_["pat"]["v"]] = v
                    out.extend(writes_of(hb, sub2, depth + 1))
        return out
    for b in base.fns():
        if not (b.get("impl_self") == ARRAY and b.get("impl_trait_def") is None and b.get("name") in want_api and b.get("thir")):
            continue
        ws = writes_of(b, {})
        inst = "flag-api:%s" % b["name"]
        where = "%s:%d" % (F.rel(b["file"]), b["sp"][0])
        problems, unknown = [], []
        for fl_, val in want_api[b["name"]].items():
            got = [v for f_, v in ws if f_ == fl_]
            if not got:
                problems.append("%s() never writes %s (it must become %s)" % (b["name"], fl_, str(val).lower()))
            elif any(v is None for v in got):
                unknown.append("%s is written with a value that is not a constant here" % fl_)
            elif got[-1] != val or any(v != val for v in got):
                problems.append("%s() writes %s = %s; it must become %s" % (b["name"], fl_, str(got[-1]).lower(), str(val).lower()))
        for f_, v in ws:
            if f_ not in want_api[b["name"]]:
                problems.append("%s() also writes %s" % (b["name"], f_))
        # ... on every path: an early return leaves the flag as it was for the inputs its condition admits
        early_ = [x for x in walk(base.root(b)) if x.get("k") == "Return"]
        if early_:
            problems.append("%s() has an early `return` (`%s`): on that path the flag is not written, so the call does not do what its name says for some arrays"
                            % (b["name"], show(early_[0])[:50]))
        # start_tracking / stop_tracking return the PREVIOUS value of is_tracked and nothing else
        if b["name"] in ("start_tracking", "stop_tracking") and (b.get("output") or "") == "bool":
            tl = strip(base.root(b))
            while isinstance(tl, dict) and tl.get("k") == "Block" and tl.get("e") is not None:
                blk_lets = {st["pat"]["v"]: st["init"] for st in tl["stmts"] if st["s"] == "let" and st["pat"].get("k") == "Binding" and st.get("init") is not None}
                tl = strip(tl["e"])
                if isinstance(tl, dict) and tl.get("k") == "VarRef" and tl["v"] in blk_lets:
                    tl = strip(blk_lets[tl["v"]])
            ok_ret = None
            if isinstance(tl, dict) and tl.get("k") == "Call":
                cn_ = callee(tl) or ""
                r_, ch_ = field_chain(tl["args"][0]) if tl.get("args") else (None, None)
                if cn_.startswith(CELL) and cn_.split("::")[-1] in ("replace", "get") and ch_ and ch_[-1] == "is_tracked":
                    ok_ret = True
                elif (tl.get("callee") or {}).get("resolved_local"):
                    ok_ret = None       # a private helper: not read here
                else:
                    ok_ret = False
            elif isinstance(tl, dict) and tl.get("k") in ("LogicalOp", "Binary", "Unary", "Literal"):
                ok_ret = False
            if ok_ret is False:
                problems.append("%s() does not return the previous value of is_tracked alone (`%s`): the backward pass passes these values to the derivative as the operands' flags and restores tracking from them"
                                % (b["name"], show(tl)[:60]))
        if problems:
            c.bad(inst, where, "; ".join(problems))
        elif unknown:
            c.unk(inst, where, "; ".join(unknown))
        else:
            c.ok(inst, where, "%s() writes %s" % (b["name"], ", ".join("%s = %s" % (k_, str(v_).lower()) for k_, v_ in want_api[b["name"]].items())))
    for b in base.bodies:
        mir = b.get("mir")
        if not mir:
            continue
        for p in mir["field_places"]:
            if p["ctx"] in MUTATING and any(isinstance(e, dict) and e.get("adt") == ARRAY and e["field"] in flags for e in p["proj"]):
                c.bad("flag-store:%s" % b["def"], "%s:%d" % (F.rel(b["file"]), p["sp"][0]), "%s of a flag field in %s" % (p["ctx"], b["def"]))
    n_calls = 0
    for b in base.bodies:
        rootdef = b.get("root", b["def"])
        for n in walk(base.root(b)):
            if n.get("k") != "Call":
                continue
            r = resolved(n)
            if r in ("corgi::array::Array::start_tracking", "corgi::array::Array::stop_tracking"):
                n_calls += 1
                c.check(rootdef in E, "flag-call:%s#%s" % (b["def"], r.split("::")[-1]), loc(b, n),
                        "%s called by the backward pass" % r.split("::")[-1],
                        "%s called outside the backward engine: library code changes the tracking flag of an existing array" % r.split("::")[-1])
            elif r in ("corgi::array::Array::tracked", "corgi::array::Array::untracked"):
                n_calls += 1
                recv = strip(n["args"][0])
                fresh, why = False, ""
                rv = recv
                env = {}
                for x in walk(base.root(b)):
                    if x.get("k") == "Block":
                        for s in x["stmts"]:
                            if s["s"] == "let" and s["pat"].get("k") == "Binding" and s.get("init") is not None:
                                env[s["pat"]["v"]] = s["init"]
                k_ = 0
                while rv.get("k") == "VarRef" and rv["v"] in env and k_ < 4:
                    rv = strip(env[rv["v"]])
                    k_ += 1
                if rv.get("k") == "Call" and (resolved(rv) or "").startswith("<corgi::array::Array as core::convert::From<"):
                    fresh, why = True, "on a freshly constructed array"
                elif recv.get("k") == "VarRef" and b.get("impl_self") == ARRAY and not b.get("reachable") \
                        and recv["v"] == self_var(base, b) and (b.get("inputs") or [""])[0] == ARRAY:
                    fresh, why = True, "on the by-value array under construction"
                if not fresh and r.endswith("::untracked") and rv.get("k") == "Call" and (resolved(rv) or "").endswith("<corgi::array::Array as core::clone::Clone>::clone"):
                    fresh, why = True, "on a clone made for the purpose: the flag is per handle, the handle that was cloned keeps its own"
                if not fresh and r.endswith("::untracked") and recv.get("k") == "VarRef" and _detaching_function(base, b, recv["v"]):
                    fresh, why = True, ("on a by-value parameter of a function that returns a freshly built array and stores nothing: the caller's own handles "
                                        "keep their flags (the flag is per handle) and no graph leaves the function")
                c.check(fresh, "flag-call:%s#%s" % (b["def"], r.split("::")[-1]), loc(b, n),
                        "%s() %s" % (r.split("::")[-1], why),
                        "%s() applied to an existing array inside the library (%s)" % (r.split("::")[-1], show(recv)[:80]))
    c.floor("flag API call sites in the library", n_calls, 4)

    # (b) pairing, on the inlined engine
    m = PassModel(facts)
    if not m.ok or m.inv is None:
        c.unk("pairing:invocation", "-", "expected one derivative invocation in backward, found %d" % (len(m.sites) if m.ok else 0))
        return c
    vf, bw, inv = m.facts, m.bw, m.inv
    STOP, START = "corgi::array::Array::stop_tracking", "corgi::array::Array::start_tracking"

    def is_children(e):
        r, ch = field_chain(e)
        return ch == [m.f_edges] and var_of(r) == m.selfv

    def mentions_children(e):
        return any(x.get("k") == "Field" and x.get("name") == m.f_edges and var_of(x["e"]) == m.selfv for x in walk(e))

    def calls_in(e, fn):
        for x in walk(e):
            if x.get("k") == "Call" and resolved(x) == fn:
                return True
            if x.get("k") == "FnItem" and ((x.get("fn") or {}).get("resolved") or (x.get("fn") or {}).get("path")) == fn:
                return True     # `.map(Array::stop_tracking)`: the function item is applied to every element
            if x.get("k") == "Closure":
                cb = vf.body(x["closure"])
                if cb and any(y.get("k") == "Call" and resolved(y) == fn for y in walk(vf.root(cb))):
                    return True
        return False

    # candidate saved-flag vectors: Vec<bool> locals whose definition / pushes involve stop_tracking over self.children
    saved = None
    saved_sp = None
    for v, bnd in m.binds.items():
        if bnd[0] != "let" or bnd[1] is None:
            continue
        init = bnd[1]
        ity = (strip(init).get("ty") or "") if isinstance(strip(init), dict) else ""
        if mentions_children(init) and calls_in(init, STOP) and (not ity or "bool" in ity):
            saved, saved_sp = v, m.pos(init)
    if saved is None:
        for n, ctx in walk_ctx(m.root):
            if n.get("k") == "Call" and callee(n) == "alloc::vec::Vec::<T, A>::push" and calls_in(n["args"][1], STOP):
                v = var_of(n["args"][0])
                in_loop_over_children = False
                for x in walk(m.root):
                    fl = for_loop_parts(x)
                    if fl and mentions_children(fl[0]) and any(y is n for y in walk(fl[2])):
                        in_loop_over_children = True
                if v and in_loop_over_children:
                    saved, saved_sp = v, m.pos(n)
    c.check(saved is not None, "pairing:stop", loc(bw, inv),
            "operands are un-tracked before the derivative runs and their flags saved",
            "no statement before the derivative call saves the operands' flags while stopping tracking")
    if saved is None:
        return c
    # ... on every path that produces the saved flags: a branch of the initialiser that reads the flags without stopping leaves
    # those operands tracked while the derivative runs (the adjoints it computes then record a graph)
    sb = m.binds.get(saved)
    if sb is not None and sb[0] == "let" and isinstance(sb[1], dict):
        def branches(e):
            e0 = strip(e)
            if isinstance(e0, dict) and e0.get("k") == "Block" and e0.get("e") is not None and not any(calls_in(st.get("init") or st.get("e") or {}, STOP) for st in e0["stmts"]):
                return branches(e0["e"])
            if isinstance(e0, dict) and e0.get("k") == "If" and e0.get("else") is not None:
                return branches(e0["then"]) + branches(e0["else"])
            if isinstance(e0, dict) and e0.get("k") == "Match":
                out_ = []
                for a_ in e0["arms"]:
                    if not F._diverging(a_["body"]):
                        out_ += branches(a_["body"])
                return out_
            return [e0]
        brs = branches(sb[1])
        if len(brs) > 1:
            missing = [x_ for x_ in brs if isinstance(x_, dict) and not calls_in(x_, STOP)]
            c.check(not missing, "pairing:stop-on-every-path", loc(bw, missing[0]) if missing else loc(bw, inv),
                    "every branch that produces the saved flags stops tracking of the operands",
                    "one branch of the saved-flags initialiser (`%s`) does not stop tracking: on that path the operands stay tracked while the derivative closure runs, "
                    "so the adjoints it computes from them are tracked arrays with a recorded graph" % (show(missing[0])[:60] if missing else ""))
    # ... and what is saved for an operand IS the flag stop_tracking returned for it (its state before the derivative call), nothing computed
    # from other state (a counter, the keep flag): the restore and the derivative's mask both read this vector
    def stop_call(e):
        e0 = peel(e)
        return isinstance(e0, dict) and e0.get("k") == "Call" and (resolved(e0) == STOP or callee(e0) == STOP)
    elem_exprs = []
    if sb is not None and sb[0] == "let" and isinstance(sb[1], dict):
        for x in walk(sb[1]):
            if x.get("k") == "Call" and callee(x) == IT + "map" and len(x["args"]) == 2 and strip(x["args"][1]).get("k") == "Closure":
                cb_ = vf.body(strip(x["args"][1])["closure"])
                if cb_ is not None and calls_in(vf.root(cb_), STOP):
                    r_ = strip(vf.root(cb_))
                    lets_ = {}
                    while isinstance(r_, dict) and r_.get("k") == "Block":
                        for st in r_["stmts"]:
                            if st["s"] == "let" and st["pat"].get("k") == "Binding" and st.get("init") is not None:
                                lets_[st["pat"]["v"]] = st["init"]
                        if r_.get("e") is None:
                            r_ = None
                            break
                        r_ = strip(r_["e"])
                    if isinstance(r_, dict) and r_.get("k") == "VarRef" and r_["v"] in lets_:
                        r_ = lets_[r_["v"]]
                    if r_ is not None:
                        elem_exprs.append(r_)
    for n, ctx in walk_ctx(m.root):
        if n.get("k") == "Call" and callee(n) == "alloc::vec::Vec::<T, A>::push" and var_of(n["args"][0]) == saved:
            a_ = n["args"][1]
            if peel(a_).get("k") == "VarRef" and m.binds.get(peel(a_)["v"]) and m.binds[peel(a_)["v"]][0] == "let" and m.binds[peel(a_)["v"]][1] is not None:
                a_ = m.binds[peel(a_)["v"]][1]
            elem_exprs.append(a_)
    def other_state(e_):
        return any(x.get("k") == "Field" and x.get("adt") == ARRAY and x.get("name") not in ("is_tracked",) for x in walk(e_)) or \
            any(x.get("k") == "Call" and (resolved(x) or "").startswith(ARRAY + "::") and resolved(x) != STOP for x in walk(e_))
    wrong = [e_ for e_ in elem_exprs if not stop_call(e_) and other_state(e_)]
    unread_ = [e_ for e_ in elem_exprs if not stop_call(e_) and not other_state(e_)
               and not any(x.get("k") == "Field" and x.get("adt") == ARRAY and x.get("name") == "is_tracked" for x in walk(e_))]
    if unread_ and not wrong:
        c.unk("pairing:saved-flag-source", loc(bw, unread_[0]), "what is saved for an operand (`%s`) is neither stop_tracking's return value nor a read of its tracking flag" % show(unread_[0])[:60])
    elif wrong:
        c.bad("pairing:saved-flag-source", loc(bw, wrong[0]), "the flag saved for an operand is `%s`, not the value stop_tracking returned for it: the mask handed to the derivative and the "
              "restore afterwards no longer say whether THAT operand was tracked when the pass reached it" % show(wrong[0])[:70])
    elif elem_exprs:
        c.ok("pairing:saved-flag-source", loc(bw, inv), "each saved flag is the value stop_tracking returned for its operand", nontrivial=False)
    tup = strip(inv["args"][1]) if len(inv["args"]) > 1 else None
    second = tup["fields"][1] if tup and tup.get("k") == "Tuple" and len(tup["fields"]) == 3 else None
    c.check(second is not None and var_of(second) == saved, "pairing:flags-argument", loc(bw, inv),
            "the saved flags are what the derivative closure receives as its tracked-mask",
            "the derivative closure's mask argument is not the vector of saved flags")
    first = tup["fields"][0] if tup and tup.get("k") == "Tuple" and len(tup["fields"]) == 3 else None
    c.check(first is not None and is_children(first), "pairing:children-argument", loc(bw, inv),
            "the derivative closure receives self.%s (the recorded operands, in order)" % m.f_edges,
            "the derivative closure's operand argument is not self.%s" % m.f_edges)
    c.check(saved_sp is not None and 0 <= saved_sp <= m.pos(inv), "pairing:stop-before-call", loc(bw, inv),
            "tracking is stopped before the derivative call", "operands are un-tracked only after the derivative call")

    # restore: a start_tracking call after the invocation, guarded by the saved flag of the same position
    restore = None
    why = "no statement after the derivative call restores the saved flags"
    for n, ctx in walk_ctx(m.root):
        if n.get("k") == "Call" and resolved(n) == START and m.pos(n) > m.pos(inv):
            ok, why = _restore_guard(m, n, ctx, saved, is_children)
            restore = (n, ok)
            if ok:
                break
    if restore is None:
        # the call may sit inside a closure of an iterator chain
        for n, ctx in walk_ctx(m.root):
            if n.get("k") == "Call" and callee(n) == IT + "for_each" and m.pos(n) > m.pos(inv) and calls_in(n, START):
                ok, why = _restore_chain(m, n, saved, is_children)
                restore = (n, ok)
                if ok:
                    break
    c.check(restore is not None and restore[1], "pairing:restore", loc(bw, restore[0]) if restore else loc(bw, inv),
            "after the derivative call every operand whose saved flag was true is re-tracked (children paired position-wise with the saved flags)", why)
    # no early exit between stop and restore
    exits = []
    lo = saved_sp if saved_sp is not None else 0
    hi = m.pos(restore[0]) if restore else 10 ** 9
    for x, xctx in walk_ctx(m.root):
        pos = m.pos(x)
        if not (lo <= pos <= hi):
            continue
        if x.get("k") == "Return":
            exits.append(x)
        if x.get("k") == "Match" and str(x.get("source", "")).startswith("TryDesugar"):
            exits.append(x)
    c.check(not exits, "pairing:no-early-exit", loc(bw, inv), "no return / ? between stop and restore",
            "early exit between stopping and restoring tracking flags")
    return c


def _zip_sides_plain(m, e, saved, is_children):
    """e contains zip(children-iteration, saved-iteration) (either order) without filtering either side first.
    -> position of the flag in the tuple (0/1) or None"""
    # adaptors between the zip and its consumer that select by POSITION (take, skip, step_by, ..) break the pairing for the operands they drop
    for x in walk(e):
        if x.get("k") == "Call" and callee(x) in (IT + "take", IT + "skip", IT + "step_by", IT + "take_while", IT + "skip_while", IT + "nth", IT + "last") \
                and any(y.get("k") == "Call" and callee(y) == IT + "zip" for y in walk(x["args"][0])):
            return None
    for x in walk(e):
        if x.get("k") == "Call" and callee(x) == IT + "zip":
            a, b = x["args"][0], x["args"][1]
            is_saved = lambda y: var_of(y) == saved and peel(y).get("k") in ("VarRef", "UpvarRef")
            if _plain_iteration_of(a, is_children) and _plain_iteration_of(b, is_saved):
                return 1
            if _plain_iteration_of(a, is_saved) and _plain_iteration_of(b, is_children):
                return 0
    return None


def _restore_chain(m, fe, saved, is_children):
    """children.iter().zip(saved).filter(|(_, t)| *t).for_each(|(c, _)| c.start_tracking())"""
    src = strip(fe["args"][0])
    if not (src.get("k") == "Call" and callee(src) == IT + "filter"):
        return False, "restore is an unfiltered for_each (or filtered with something other than `filter`): operands would be re-tracked under the wrong condition"
    pos = _zip_sides_plain(m, src["args"][0], saved, is_children)
    if pos is None:
        return False, "the restore does not pair self.children position-wise with the saved flags (one side is filtered, shortened or missing)"
    fclo = strip(src["args"][1])
    if fclo.get("k") != "Closure":
        return False, "filter predicate is not a closure literal"
    fb = m.facts.body(fclo["closure"])
    _, tail = closure_tail(m.facts, fb)
    t = peel(tail)
    binds = param_vars(m.facts, fb)
    flagvars = [v for v, _, ty, path in binds if [p for p in path if p != "*"] == [str(pos)]]
    if t.get("k") in ("VarRef", "UpvarRef") and t["v"] in flagvars:
        return True, ""
    return False, "the restore filter does not test the saved flag itself (found `%s`)" % show(tail)[:80]


def _restore_guard(m, call, ctx, saved, is_children):
    """start_tracking inside a for loop over children zipped with saved (or indexed), under `if flag`"""
    # find the enclosing for loop
    loops = []
    for x in walk(m.root):
        fl = for_loop_parts(x)
        if fl and any(y is call for y in walk(fl[2])):
            loops.append(fl)
    if not loops:
        return False, "start_tracking after the derivative call is not inside an iteration over the operands"
    it, pat, body, _ = loops[-1]
    binds = F.pat_bindings(pat)
    facts_ = path_facts(ctx)
    pos = _zip_sides_plain(m, it, saved, is_children) if strip(it).get("k") == "Call" and any(
        x.get("k") == "Call" and callee(x) == IT + "zip" for x in walk(it)) else None
    if pos is not None:
        flagvars = [v for v, _, ty, path in binds if [p for p in path if p != "*"] == [str(pos)]]
        childvars = [v for v, _, ty, path in binds if [p for p in path if p != "*"] == [str(1 - pos)]]
        if var_of(call["args"][0]) not in childvars:
            return False, "start_tracking is applied to something other than the operand paired with the flag"
        for cond, truth in facts_:
            if truth and peel(cond).get("k") in ("VarRef", "UpvarRef") and var_of(cond) in flagvars:
                return True, ""
        return False, "start_tracking is not guarded by the saved flag of the same position"
    # indexed form: for (i, c) in children.iter().enumerate() { if saved[i] { c.start_tracking() } }
    if any(x.get("k") == "Call" and callee(x) == IT + "enumerate" for x in walk(it)) and _plain_iteration_of(
            next((x["args"][0] for x in walk(it) if x.get("k") == "Call" and callee(x) == IT + "enumerate"), it), is_children):
        idxvars = [v for v, _, ty, path in binds if [p for p in path if p != "*"] == ["0"]]
        childvars = [v for v, _, ty, path in binds if [p for p in path if p != "*"] == ["1"]]
        if var_of(call["args"][0]) not in childvars:
            return False, "start_tracking is applied to something other than the enumerated operand"
        for cond, truth in facts_:
            cnd = peel(cond)
            if truth and cnd.get("k") in ("Index",) and var_of(cnd["e"]) == saved and var_of(cnd["i"]) in idxvars:
                return True, ""
            if truth and cnd.get("k") == "Call" and callee(cnd) == "core::ops::index::Index::index" and var_of(cnd["args"][0]) == saved \
                    and var_of(cnd["args"][1]) in idxvars:
                return True, ""
        return False, "start_tracking is not guarded by saved[i] of the same position"
    return False, "the restore loop does not pair self.children position-wise with the saved flags"


# ------------------------------------------------------------------ R23

def r23_engine_state_layering(facts):
    """R23: only the engine touches counters, pending deltas and gradient slots."""
    c = Ctx("R23", facts, "only the engine touches counters, pending deltas and gradient slots")
    roles = field_roles(facts)
    for r in ("counter", "delta", "gradient"):
        c.floor("%s field (by type)" % r, len(roles.get(r, [])), 1)
    eng = engine_bodies(facts)
    c.floor("engine bodies", len(eng), 2)
    E = engine_set(facts)
    clone_def = debug_def = None
    clone_def = (F.clone_body(facts.base if hasattr(facts, "base") else facts) or {}).get("def")
    for x in facts.fns():
        if x.get("impl_self") == ARRAY and x.get("impl_trait_def") == "core::fmt::Debug":
            debug_def = x["def"]
    gfield = (roles.get("gradient") or [None])[0]
    ACCESSOR_CALLS = (REFCELL + "borrow", REFCELL + "borrow_mut", REFCELL + "replace", REFCELL + "take",
                      "core::option::Option::<T>::take", "core::option::Option::<T>::replace", "core::mem::take", "core::mem::replace",
                      "core::ops::deref::Deref::deref", "core::ops::deref::DerefMut::deref_mut")
    accessors = set()
    for b in facts.fns():
        if b.get("impl_self") == ARRAY and b.get("impl_trait_def") is None and b["def"] not in E and b.get("inputs") == ["&" + ARRAY]:
            root = facts.root(b)
            touches = any(x.get("k") == "Field" and x.get("adt") == ARRAY and x["name"] == gfield for x in walk(root))
            only = all(callee(x) in ACCESSOR_CALLS for x in walk(root) if x.get("k") == "Call")
            others = any(x.get("k") == "Field" and x.get("adt") == ARRAY and x["name"] != gfield for x in walk(root))
            if touches and only and not others:
                accessors.add(b["def"])
    c.floor("gradient accessor methods", len(accessors), 1)
    n = 0
    for b in facts.bodies:
        mir = b.get("mir")
        if not mir:
            continue
        rootdef = b.get("root", b["def"])
        touched = {}
        for p in mir["field_places"]:
            if p["ctx"] == "write:Drop" or p.get("cleanup"):
                continue
            for i, e in enumerate(p["proj"]):
                if isinstance(e, dict) and e.get("adt") == ARRAY:
                    for r in ("counter", "delta", "gradient"):
                        if e["field"] in roles.get(r, []):
                            # moving the whole slot (the handle's Rc) out of a by-value array into a new
                            # struct re-wraps the same handle: not an access of the slot's content
                            if p["ctx"] == "read:Move" and i == len(p["proj"]) - 1 and "*" not in [x for x in p["proj"][:i] if isinstance(x, str)]:
                                continue
                            touched.setdefault(r, p)
        for r, p in touched.items():
            n += 1
            where = "%s:%d" % (F.rel(b["file"]), p["sp"][0])
            inst = "touch:%s#%s" % (b["def"], r)
            if rootdef in E:
                c.ok(inst, where, "engine body" + ("" if rootdef in {x["def"] for x in eng.values()} else " (private helper called only from the engine)"))
            elif rootdef == clone_def:
                c.ok(inst, where, "Clone (shares the slot; provenance checked by R5)", nontrivial=False)
            elif rootdef == debug_def and r == "counter":
                ok = not _writes_cell(facts, b, roles[r])
                c.check(ok, inst, where, "Debug::fmt reads the counter for display only", "Debug::fmt writes the counter")
            elif r == "gradient" and rootdef in accessors:
                c.ok(inst, where, "public gradient accessor (only RefCell / Option access on the slot)")
            elif r in ("counter", "gradient") and _read_only_uses(facts, b, roles[r], r):
                c.ok(inst, where, "read-only use of the %s slot (%s): nothing is left behind" % (r, "Cell::get" if r == "counter" else "RefCell::borrow / try_borrow"))
            else:
                c.bad(inst, where, "%s touches the %s slot of an array: engine state is reserved to backward/propagate_consumers "
                      "(residue left here is only seen by a later overlapping pass)" % (b["def"], r))
    c.floor("engine-state touch sites", n, 6)
    return c


def _read_only_uses(facts, b, fields, role_):
    """every mention of the slot field in the body (and the closures nested in it) is the receiver of a read-only cell method"""
    allowed = (CELL + "get",) if role_ == "counter" else (REFCELL + "borrow", REFCELL + "try_borrow")
    mentions = 0
    reads = 0
    for nb in facts.nested(b):
        root = facts.root(nb)
        if root is None:
            continue
        for n in walk(root):
            if n.get("k") == "Field" and n.get("adt") == ARRAY and n.get("name") in fields:
                mentions += 1
            if n.get("k") == "Call" and callee(n) in allowed and n["args"]:
                r, ch = field_chain(n["args"][0])
                if ch and ch[-1] in fields:
                    reads += 1
    return mentions > 0 and mentions == reads


def _writes_cell(facts, b, fields):
    for n in walk(facts.root(b)):
        if n.get("k") == "Call" and (callee(n) or "").startswith(CELL) and callee(n).split("::")[-1] in CELL_WRITES and n["args"]:
            r, ch = field_chain(n["args"][0])
            if ch and ch[-1] in fields:
                return True
    return False


# ------------------------------------------------------------------ R24

def _loop_filter_on_flag(vf, broot, var, flag):
    """`var` is the pattern variable of a `for` loop whose iterator is filtered by `|c| c.<flag>.get()`: every iteration runs with the flag set"""
    for n in walk(broot):
        fl = F.for_loop_parts(n)
        if not fl:
            continue
        it_, pat_, _, _ = fl
        if var not in [v for v, _, _, _ in F.pat_bindings(pat_)]:
            continue
        for x in walk(it_):
            if x.get("k") == "Call" and callee(x) == IT + "filter" and len(x["args"]) == 2:
                clo = strip(x["args"][1])
                if clo.get("k") != "Closure":
                    continue
                cb = vf.body(clo["closure"])
                if cb is None:
                    continue
                _, t = closure_tail(vf, cb)
                t = peel(t) if t is not None else None
                pv = [v for v, _, _, _ in param_vars(vf, cb)]
                if isinstance(t, dict) and t.get("k") == "Call" and callee(t) == CELL + "get" and t["args"]:
                    r_, ch = field_chain(t["args"][0])
                    if ch == [flag] and var_of(r_) in pv:
                        # nothing between the filter and the loop may re-order or re-map elements to other nodes: only identity adaptors
                        return True
    return False


def r24_count_protocol(facts):
    """R24: counting / decrementing / recursion are guarded by the shared consumer counter; one invocation site."""
    c = Ctx("R24", facts, "consumer-count protocol guards and the single derivative invocation site")
    m = PassModel(facts)
    vf = m.facts
    eng = engine_bodies(vf)
    c.floor("engine bodies", len(eng), 2)
    counter = role(vf, "counter")
    if not counter:
        # a shared counter of a narrower integer type: it overflows as soon as one node has more consumers than the type can count
        for f_ in vf.adt_fields(ARRAY):
            mt = re.match(r"alloc::rc::Rc<core::cell::Cell<(u8|u16|u32|i8|i16|i32)>>$", f_["ty"])
            if mt:
                a_ = vf.adts.get(ARRAY) or {}
                c.bad("count:width", "%s:%d" % (F.rel(a_.get("file", "?")), f_["sp"][0]), "the shared consumer counter `%s` is a `%s`: a node consumed by more terms than a `%s` can count "
                      "(a weight used by a few hundred terms) overflows it - a panic in a debug build, a wrapped count and a wrong pass in a release build" % (f_["name"], mt.group(1), mt.group(1)))
    if not m.ok or not counter or len(eng) < 2:
        c.floor("counter field Rc<Cell<usize>> / pass model", 0, 1)
        return c
    E = engine_set(facts)
    bw, pc = eng["backward"], eng["propagate_consumers"]
    # ---- single invocation site
    all_sites = invocation_sites(vf.base if hasattr(vf, "base") else vf)
    c.floor("derivative invocation sites", len(all_sites), 1)
    for b, n, ctx in all_sites:
        in_engine = b.get("root", b["def"]) in E
        c.check(in_engine and len(all_sites) == 1, "invoke:%s" % b["def"], loc(b, n),
                "the derivative closure is invoked at one site in the crate, inside the engine",
                "derivative closure invoked %s" % ("outside the backward engine" if not in_engine else "at %d sites" % len(all_sites)))
    for b, n, ctx in m.sites:
        in_loop = any(fr[0] == "loop" for fr in ctx) or b["kind"] == "Closure"
        c.check(not in_loop, "invoke:once-per-node", loc(b, n), "the invocation is outside any loop: once per call of backward",
                "the derivative invocation sits inside a loop / closure")
        recv = peel(n["args"][0])
        v = var_of(recv)
        src = None
        bnd = m.binds.get(v) if v else None
        if bnd and bnd[0] == "pat":
            sc = peel(bnd[1])
            while isinstance(sc, dict) and sc.get("k") == "Call" and callee(sc) in OPT_VIEWS:
                sc = peel(sc["args"][0])
            r_, ch = field_chain(sc)
            if ch == [m.f_deriv] and var_of(r_) == m.selfv:
                src = "self.%s" % m.f_deriv
        elif bnd and bnd[0] == "let" and bnd[1] is not None:
            for x in walk(bnd[1]):
                if x.get("k") == "Field" and x.get("name") == m.f_deriv and var_of(x["e"]) == m.selfv:
                    src = "self.%s" % m.f_deriv
        c.check(src is not None, "invoke:callee", loc(b, n), "the invoked closure is %s" % src,
                "the invoked closure is not the node's own recorded derivative")

    # ---- every write of the counter in the crate
    writes = []
    for b in vf.nested(bw) + vf.nested(pc) + [x for x in (vf.base.bodies if hasattr(vf, "base") else vf.bodies)
                                               if x.get("root", x["def"]) not in (bw["def"], pc["def"]) and x["def"] not in (bw["def"], pc["def"])]:
        broot = vf.root(b)
        for n, ctx in walk_ctx(broot):
            if n.get("k") == "Call" and (callee(n) or "").startswith(CELL) and callee(n).split("::")[-1] in CELL_WRITES and n["args"]:
                r_, ch = field_chain(n["args"][0])
                if ch and ch[-1] == counter:
                    writes.append((b, broot, n, ctx, var_of(r_)))
    # helpers that were inlined are seen twice (in the view and in their own body): keep the inlined occurrence
    inlined_defs = set()
    for lst in getattr(vf, "inlined", {}).values():
        inlined_defs.update(lst)
    writes = [w for w in writes if w[0].get("root", w[0]["def"]) not in inlined_defs and w[0]["def"] not in inlined_defs]
    c.floor("writes of the consumer counter", len(writes), 2)
    seen_kinds = set()
    for b, broot, n, ctx, owner in writes:
        binds = F.bindings_of(broot)
        order = {id(x): i for i, x in enumerate(walk(broot))}
        inst_base = "count-write:%s" % b["def"]
        mth = callee(n).split("::")[-1]
        if mth not in ("set", "replace") or len(n["args"]) != 2:
            c.bad(inst_base + "#" + mth, loc(b, n), "consumer counter written with Cell::%s" % mth)
            continue
        val = strip(n["args"][1])

        def counter_read(e):
            e0 = peel(e)
            if isinstance(e0, dict) and e0.get("k") == "Call" and callee(e0) == CELL + "get":
                r2, ch2 = field_chain(e0["args"][0])
                return bool(ch2) and ch2[-1] == counter and var_of(r2) == owner
            return False

        def value_of(e, depth=0):
            """('prev'|'new', delta) : e equals (counter before this write) + delta, or None"""
            e0 = strip(e)
            if depth > 4 or not isinstance(e0, dict):
                return None
            if e0.get("k") in ("VarRef", "UpvarRef") and e0["v"] in binds and binds[e0["v"]][0] == "let" and binds[e0["v"]][1] is not None:
                init = binds[e0["v"]][1]
                r = value_of(init, depth + 1)
                if r is None:
                    return None
                # a read placed after the write sees the new value
                if counter_read(init) and order.get(id(strip(init)), order.get(id(init), -1)) > order.get(id(n), -1):
                    return ("after", 0)
                return r
            # `cell.replace(v)` stores v and hands back what the counter held before this very write
            if peel(e0) is n and mth == "replace":
                return ("before", 0)
            if counter_read(e0):
                if any(x is peel(e0) or x is e0 for x in walk(n)):
                    return ("before", 0)
                return ("before", 0) if order.get(id(e0), -1) <= order.get(id(n), -1) else ("after", 0)
            if e0.get("k") == "Binary" and e0["op"] in ("Add", "Sub") and isinstance(lit_value(e0["r"]), int):
                r = value_of(e0["l"], depth + 1)
                if r is None:
                    return None
                k_ = lit_value(e0["r"])
                return (r[0], r[1] + (k_ if e0["op"] == "Add" else -k_))
            if e0.get("k") == "Call" and callee(e0) in ("core::num::<impl usize>::saturating_sub", "core::num::<impl usize>::wrapping_sub",
                                                        "core::num::<impl usize>::saturating_add", "core::num::<impl usize>::wrapping_add"):
                return None     # saturating / wrapping arithmetic hides protocol errors: not the protocol's form
            return None
        wv = value_of(val)
        if wv is None or wv[0] != "before" or wv[1] not in (1, -1):
            c.bad(inst_base + "#form", loc(b, n), "counter write is not `set(<previous count> +/- 1)` on the same node: %s" % show(val)[:100])
            continue
        form = "inc" if wv[1] == 1 else "dec"
        seen_kinds.add(form)
        new_delta = wv[1]

        def guarded_by_count(ctx2, node2, want_prev):
            """some fact on the path states (previous count) == want_prev"""
            for cond, truth in path_facts(ctx2):
                cnd = strip(cond)
                # `let is_last = count == 1; .. if is_last { .. }`: a Boolean bound once to the comparison
                hops_ = 0
                while isinstance(cnd, dict) and cnd.get("k") == "VarRef" and cnd["v"] in binds and binds[cnd["v"]][0] == "let" and isinstance(binds[cnd["v"]][1], dict) and hops_ < 3:
                    cnd = strip(binds[cnd["v"]][1])
                    hops_ += 1
                if cnd.get("k") == "Binary" and cnd["op"] in ("Eq", "Ne") and (truth == (cnd["op"] == "Eq")):
                    for x, y in ((cnd["l"], cnd["r"]), (cnd["r"], cnd["l"])):
                        k_ = lit_value(y)
                        r = value_of(x)
                        if r is None or not isinstance(k_, int):
                            continue
                        base_, d_ = r
                        # express in terms of the previous count
                        prev_equiv = k_ - d_ if base_ == "before" else k_ - d_ - new_delta
                        if prev_equiv == want_prev:
                            return True
            return False

        facts_here = path_facts(ctx)
        if form == "inc":
            ok_body = b.get("root", b["def"]) in E and b["def"] != bw["def"]
            guard = False
            for cond, truth in facts_here:
                cnd = peel(cond)
                if cnd.get("k") == "VarRef" and cnd["v"] in binds and binds[cnd["v"]][0] == "let" and isinstance(binds[cnd["v"]][1], dict):
                    cnd = peel(binds[cnd["v"]][1])
                if truth and cnd.get("k") == "Call" and callee(cnd) == CELL + "get":
                    r3, ch3 = field_chain(cnd["args"][0])
                    if ch3 == ["is_tracked"] and var_of(r3) == owner:
                        guard = True
            loop_guard = _loop_filter_on_flag(vf, broot, owner, "is_tracked")
            guard = guard or loop_guard
            c.check(ok_body and guard, "count:increment", loc(b, n),
                    "a child's counter is incremented only while counting consumers and only if that child is tracked",
                    "counter increment %s" % ("is not guarded by exactly the child's is_tracked flag (children that are never delivered to keep a residue; "
                                              "children that are delivered to but not counted underflow)" if ok_body else "outside the counting function"))
            # ... and by nothing else that the delivery side does not mirror: backward delivers to every tracked child of the node it runs on,
            # whatever that node's own flags are (the node a pass is started on need not be tracked)
            selfv_pc = self_var(vf, b) if b["kind"] in ("Fn", "AssocFn") else None
            for cond, truth in facts_here:
                flagged = None
                for x in walk(cond):
                    if x.get("k") == "Field" and x.get("adt") == ARRAY and x.get("name") in ("is_tracked", "keep_gradient") and selfv_pc is not None \
                            and var_of(peel(x["e"])) == selfv_pc and peel(x["e"]).get("k") in ("VarRef", "UpvarRef"):
                        flagged = x["name"]
                    elif x.get("k") == "VarRef" and x["v"] in binds and binds[x["v"]][0] == "let" and isinstance(binds[x["v"]][1], dict):
                        for y in walk(binds[x["v"]][1]):
                            if y.get("k") == "Field" and y.get("adt") == ARRAY and y.get("name") in ("is_tracked", "keep_gradient") and selfv_pc is not None \
                                    and var_of(peel(y["e"])) == selfv_pc and peel(y["e"]).get("k") in ("VarRef", "UpvarRef"):
                                flagged = y["name"]
                if flagged:
                    c.bad("count:increment#own-flag", loc(b, cond), "the counting of a node's consumers depends on the node's own `%s` flag: backward delivers to the tracked children "
                          "of every node it runs on (the array a pass is started on need not be tracked), so an uncounted delivery underflows the counter" % flagged)
            rec_ok = None
            for n2, ctx2 in walk_ctx(broot):
                is_rec = n2.get("k") == "Call" and resolved(n2) == pc["def"] and var_of(n2["args"][0]) == owner
                is_push = n2.get("k") == "Call" and callee(n2) in ("alloc::vec::Vec::<T, A>::push", "alloc::collections::vec_deque::VecDeque::<T, A>::push_back") \
                    and any(x.get("k") in ("VarRef", "UpvarRef") and x["v"] == owner for x in walk(n2["args"][1]))
                # a work-list that receives the child's own operands: `pending.extend(child.children.iter())`
                is_push = is_push or (n2.get("k") == "Call" and callee(n2) in ("core::iter::traits::collect::Extend::extend", "alloc::vec::Vec::<T, A>::extend_from_slice",
                                                                                "alloc::vec::Vec::<T, A>::append", "alloc::collections::vec_deque::VecDeque::<T, A>::extend")
                                      and len(n2["args"]) == 2
                                      and any(x.get("k") == "Field" and x.get("adt") == ARRAY and x.get("name") == "children" and var_of(peel(x["e"])) == owner for x in walk(n2["args"][1])))
                if is_rec or is_push:
                    rec_ok = guarded_by_count(ctx2, n2, 0)
                    c.check(rec_ok, "count:descend-once", loc(b, n2),
                            "descent into a child only when its previous count was 0 (no double counting below shared nodes)",
                            "descent below a child is not guarded by `previous count == 0`: nodes below a shared child are counted once per path")
                    # the descent is under the same tracked guard as the increment: nothing flows through an untracked child,
                    # so the nodes below it must not be told to expect a delivery
                    tguard = False
                    for cond2, truth2 in path_facts(ctx2):
                        cnd2 = peel(cond2)
                        if cnd2.get("k") == "VarRef" and cnd2["v"] in binds and binds[cnd2["v"]][0] == "let" and isinstance(binds[cnd2["v"]][1], dict):
                            cnd2 = peel(binds[cnd2["v"]][1])
                        if truth2 and cnd2.get("k") == "Call" and callee(cnd2) == CELL + "get":
                            r4, ch4 = field_chain(cnd2["args"][0])
                            if ch4 == ["is_tracked"] and var_of(r4) == owner:
                                tguard = True
                    tguard = tguard or loop_guard
                    c.check(tguard, "count:descend-tracked", loc(b, n2),
                            "descent only through children that are tracked (the guard of the increment)",
                            "the counting descends through a child whether or not it is tracked: nodes below an untracked child are told to wait for a delivery "
                            "that never comes (their derivative never runs, the counts stay behind)")
            if rec_ok is None:
                c.bad("count:descend-once", loc(b, n), "no descent into tracked children found")
        else:
            ok_body = b["def"] == bw["def"] or (b.get("root", b["def"]) in E)
            guard = False
            for scrut, pat in some_bindings_on_path(ctx):
                guard = True
            c.check(ok_body and guard, "count:decrement", loc(b, n),
                    "a child's counter is decremented only in backward and only when a delta was delivered to it",
                    "counter decrement %s" % ("is not conditional on a delivered delta" if ok_body else "outside backward"))
            rec = None
            for n2, ctx2 in walk_ctx(broot):
                if n2.get("k") == "Call" and resolved(n2) == bw["def"] and var_of(n2["args"][0]) == owner:
                    rec = guarded_by_count(ctx2, n2, 1)
                    c.check(rec, "count:recurse-at-zero", loc(b, n2),
                            "recursion into a child only when the delivered delta was its last outstanding one (previous count == 1 / new count == 0)",
                            "recursive backward on a child is not guarded by its consumer count reaching zero: its derivative runs once per consumer (exponential on self-products) with a partial adjoint")
                    seed = strip(n2["args"][1])
                    c.check(_is_none(seed), "count:recurse-seed", loc(b, n2), "the child continues from its pending delta (seed None)",
                            "recursive call passes an explicit seed instead of using the child's pending delta")
            if rec is None:
                c.bad("count:recurse-at-zero", loc(b, n), "no recursive backward into children found")
    for kind in ("inc", "dec"):
        if kind not in seen_kinds:
            c.bad("count:%s-missing" % kind, "-", "no %s of the consumer counter in the protocol's form was found" % ("increment" if kind == "inc" else "decrement"))

    # ---- counting happens exactly when a pass starts at a node without a pending delta
    n_recount = 0
    for n2, ctx2 in walk_ctx(m.root):
        if n2.get("k") == "Call" and resolved(n2) == pc["def"]:
            n_recount += 1
            on_self = var_of(n2["args"][0]) == m.selfv
            absent = False
            for scrut in none_on_path(ctx2):
                o_, f_ = m.slot_owner(scrut)
                if o_ == m.selfv and f_ == m.f_delta:
                    absent = True
            # `unwrap_or_else(|| { count; seed })` on the taken pending delta
            if not absent:
                for x in walk(m.root):
                    if x.get("k") == "Call" and callee(x) in ("core::option::Option::<T>::unwrap_or_else", "core::option::Option::<T>::map_or_else"):
                        o_, f_ = m.slot_owner(x["args"][0])
                        clo = strip(x["args"][1])
                        if o_ == m.selfv and f_ == m.f_delta and clo.get("k") == "Closure":
                            cb = vf.body(clo["closure"])
                            if cb and any(y is n2 for y in walk(vf.root(cb))):
                                absent = True
            c.check(on_self and absent, "count:recount-only-at-root", loc(bw, n2),
                    "consumers are (re)counted only when the pass starts at a node that has no pending delta (i.e. at the root of a pass)",
                    "propagate_consumers is called from backward outside the 'no pending delta' branch: nodes reached by the recursion are "
                    "counted again in the middle of a pass")
    if n_recount == 0:
        # inside an unwrap_or_else closure the call is in a closure body
        for b2 in vf.nested(bw):
            if b2 is bw or b2["def"] == bw["def"]:
                continue
            for n2 in walk(vf.root(b2)):
                if n2.get("k") == "Call" and resolved(n2) == pc["def"]:
                    n_recount += 1
                    ok = False
                    for x in walk(m.root):
                        if x.get("k") == "Call" and callee(x) in ("core::option::Option::<T>::unwrap_or_else", "core::option::Option::<T>::map_or_else"):
                            o_, f_ = m.slot_owner(x["args"][0])
                            clo = strip(x["args"][1])
                            if o_ == m.selfv and f_ == m.f_delta and clo.get("k") == "Closure" and clo["closure"] == b2["def"]:
                                ok = True
                    c.check(ok, "count:recount-only-at-root", loc(b2, n2),
                            "consumers are (re)counted only when no pending delta exists (fallback closure of the taken pending delta)",
                            "propagate_consumers is called from a closure in backward that is not the 'no pending delta' fallback")
    c.check(n_recount >= 1, "count:recount-present", "%s:%d" % (F.rel(bw["file"]), bw["sp"][0]),
            "backward counts consumers when it starts a pass", "backward never counts consumers: decrements would underflow")

    # ---- slot i of the derivative's result is delivered to child i
    n_child = 0
    for n2, ctx2 in walk_ctx(m.root):
        idx_call = n2.get("k") == "Call" and callee(n2) == "core::ops::index::Index::index" and len(n2["args"]) == 2
        if idx_call:
            r_, ch = field_chain(n2["args"][0])
            if ch == [m.f_edges] and var_of(r_) == m.selfv:
                n_child += 1
                iv = var_of(n2["args"][1]) if peel(n2["args"][1]).get("k") in ("VarRef", "UpvarRef") else None
                ok = False
                why = "children are indexed with an expression that is not the position of the slot"
                if iv:
                    bnd = m.binds.get(iv)
                    if bnd and bnd[0] == "pat" and [p for p in bnd[2] if p != "*"][-1:] == ["0"]:
                        has_enum = False
                        seen = set()
                        todo = [bnd[1]]
                        while todo:
                            e_ = todo.pop()
                            for x in walk(e_):
                                if x.get("k") == "Call" and callee(x) == IT + "enumerate":
                                    has_enum = True
                                if x.get("k") in ("VarRef", "UpvarRef") and x["v"] not in seen:
                                    seen.add(x["v"])
                                    b2 = m.binds.get(x["v"])
                                    if b2 and b2[1] is not None:
                                        todo.append(b2[1])
                        from_inv = m.inv is not None and any(any(y is m.inv for y in walk(m.binds[v][1])) for v in seen if v in m.binds and m.binds[v][1] is not None)
                        if has_enum and from_inv:
                            ok = True
                        else:
                            why = "the child index is not the enumerate() position over the derivative's result vector"
                c.check(ok, "engine:slot-child-alignment", loc(bw, n2),
                        "slot i of the derivative's result is delivered to self.children[i] (index = enumerate position)", why)
    if n_child == 0:
        zipped = False
        for n2 in walk(m.root):
            if n2.get("k") == "Call" and callee(n2) == IT + "zip":
                for a, b_ in ((n2["args"][0], n2["args"][1]), (n2["args"][1], n2["args"][0])):
                    if _plain_iteration_of(a, lambda y: field_chain(y)[1] == [m.f_edges] and var_of(field_chain(y)[0]) == m.selfv):
                        vs = {x["v"] for x in walk(b_) if x.get("k") in ("VarRef", "UpvarRef")}
                        if m.inv is not None and any(v in m.binds and m.binds[v][1] is not None and any(y is m.inv for y in walk(m.binds[v][1])) for v in vs) \
                                and _plain_iteration_of(b_, lambda y: True):
                            zipped = True
        c.check(zipped, "engine:slot-child-alignment", "%s:%d" % (F.rel(bw["file"]), bw["sp"][0]),
                "children are zipped position-wise with the derivative's result vector", "cannot find how result slots are matched with children")
    return c
