"""R57 DEPENDENCY-CONTRACT: which elements of its operands each element of an operation's result depends on - and, for the operation's
derivative, which elements of the adjoint each element of an operand's gradient depends on - computed by a dataflow analysis over the
source of the current tree and compared with what the properties document.

The analysis is the shape-slice interpreter of rules/shapeval.py with one more abstract domain: an element of a value buffer is the SET OF
INPUT ELEMENTS it was computed from (a provenance set); every arithmetic operation and every float function joins the sets of its
arguments, a literal has the empty set, an assignment replaces, `+=` joins with the old content.  How the numbers are combined is
abstracted away entirely (a sum, a product and a maximum of the same elements are the same set); a comparison of floats has no value, so
a kernel that branches on element values is not followed.  Shapes come from a finite grid, as in R55.

What this decides that the index-polynomial rules (R36, R37, R39) cannot: the placement of values by ANY code form - `chunks_exact`,
`windows`, `copy_from_slice`, running offsets, interchanged loops, a special-case route for one geometry - because the sets are computed
from whatever the source does, not matched against a loop-nest template.  Two kinds of obligation:

* forward: result element q depends on exactly the documented operand elements (the row of A and the column of B for a matrix product, the
  window for a convolution, the broadcast partners for an element-wise operator, ...) - one element too many is a value that landed in
  the wrong place, one too few is a value that was overwritten or never written;
* adjoint: the gradient element of operand p at position i depends on adjoint element q if and only if result element q depends on
  operand element i (the dependency relation of the derivative is the transpose of the forward one - a necessary condition of C02 that
  needs no formula), after the library's own reduction (`flatten_to`) to the operand's dimensions."""

import itertools

from . import facts as F
from .core import Ctx
from .facts import ARRAY
from . import shapeval as SV
from .contract_rules import _shapes, _bcast, _prod, ARITH, REF_ARR, POINTWISE

SKIP = False


def _unravel(i, dims):
    out = []
    for d in reversed(dims):
        out.append(i % d)
        i //= d
    return list(reversed(out))


def _ravel(idx, dims):
    i = 0
    for x, d in zip(idx, dims):
        i = i * d + x
    return i


def _operand(uid, dims, tracked=True):
    a = SV.Arr(dims, tracked)
    a.uid = uid
    a.vals = [SV.PF(frozenset({(uid, i)})) for i in range(_prod(dims))]
    return a


def _deps(arr):
    """list (one per element) of the provenance sets of a result array, or None when some element is unknown"""
    vals = getattr(arr, "vals", None)
    if not isinstance(vals, list) or len(vals) != _prod(arr.dims):
        return None
    out = []
    for v in vals:
        v = SV.deref(v)
        if not isinstance(v, SV.PF):
            return None
        out.append(v.s)
    return out


def _bcast_index(idx, dims, out_dims):
    """the element of an operand of dimensions `dims` that takes part in result position `idx` (dimensions aligned at the end)"""
    off = len(out_dims) - len(dims)
    return [0 if d == 1 else idx[off + k] for k, d in enumerate(dims)]


def d6_class(x, y):
    """operand shapes for which the pinned library is already wrong (known finding D6 and its consequence in flatten_to): a lower-rank operand
    of rank >= 2 under a higher-rank one (forward), or - at equal rank >= 2 - exactly one operand with a leading unit dimension (its
    gradient is reduced to a target with a leading unit dimension)"""
    if min(len(x), len(y)) >= 2 and len(x) != len(y):
        return True
    if len(x) == len(y) >= 2 and (x[0] == 1) != (y[0] == 1):
        return True
    return False


class _Judge:
    def __init__(self, c, inst, where, what):
        self.c, self.inst, self.where, self.what = c, inst, where, what
        self.decided = self.undecided = 0
        self.bad = None
        self.why = None
        self.extra_only = None
        self.no_adjoint = set()
        self.side = None        # a second judge for the grid points of the known-defect class (reported under its own key)

    def for_class(self, d6):
        if not d6:
            return self
        if self.side is None:
            self.side = _Judge(self.c, self.inst + "#lower-rank-or-leading-unit", self.where, self.what + " (operands of different rank >= 2, or one leading unit dimension)")
        return self.side

    def forward(self, facts, b, args, operands, spec, label):
        """spec(q index list, out dims) -> set of (uid, flat index) the result element must depend on"""
        out = SV.run(facts, b, args, prov=True)
        if out[0] == "panic":
            self.decided += 1
            if not self.bad:
                sp = out[1].get("sp") if isinstance(out[1], dict) else None
                self.bad = "%s: the operation panics (line %s) although the shapes are admissible" % (label, sp[0] if sp else "?")
            return None
        if out[0] != "value" or not isinstance(out[1], SV.Arr):
            self.undecided += 1
            self.why = self.why or (out[1] if out[0] == "unknown" else out[0])
            return None
        r = out[1]
        deps = _deps(r)
        if deps is None:
            self.undecided += 1
            self.why = self.why or "some element of the result has no provenance (computed through something the analysis does not follow)"
            return None
        self.decided += 1
        if self.bad:
            return r
        for q, got in enumerate(deps):
            want = spec(_unravel(q, r.dims), r.dims)
            if want is None:
                continue
            if got != want:
                extra = sorted(got - want)[:3]
                missing = sorted(want - got)[:3]
                names = {o.uid: "operand %d %s" % (k + 1, o.dims) for k, o in enumerate(operands)}
                if not missing:
                    # more inputs than documented and none missing: the additional dependence may cancel in the arithmetic (a shift added and
                    # subtracted again), which a set of inputs cannot show - not decided
                    self.no_adjoint.add(id(r))      # the transpose test is meaningless against a forward dependence that may cancel
                    self.extra_only = self.extra_only or "%s: result element %s is also computed from %d element(s) that do not belong to it (e.g. operand %d%s); whether that dependence cancels is not decided" % (
                        label, _unravel(q, r.dims), len(got - want), [o.uid for o in operands].index(extra[0][0]) + 1 if extra[0][0] in [o.uid for o in operands] else 0,
                        _unravel(extra[0][1], next(o.dims for o in operands if o.uid == extra[0][0])) if extra[0][0] in [o.uid for o in operands] else "")
                    continue

                def show(t):
                    u, i = t
                    o = next((x for x in operands if x.uid == u), None)
                    return "%s%s" % (names.get(u, "?").split(" ")[0] + " " + names.get(u, "?").split(" ")[1], _unravel(i, o.dims) if o is not None else i)
                self.bad = "%s: result element %s %s" % (label, _unravel(q, r.dims),
                                                       ("is computed from %s, which does not belong to it" % ", ".join(show(t) for t in extra)) if extra else
                                                       ("does not depend on %s (overwritten, skipped, or read from another place)" % ", ".join(show(t) for t in missing)))
                break
        return r

    def adjoint(self, facts, r, operands, label):
        """the derivative recorded on result r, pushed through the recorded graph, gives each tracked operand a gradient whose dependency on
        the adjoint is the transpose of the forward dependency of r on that operand"""
        fdeps = _deps(r)
        if fdeps is None or id(r) in self.no_adjoint:
            return
        try:
            grads = SV.backward_provenance(facts, r)
        except SV.Abort as ex:
            self.undecided += 1
            self.why = self.why or "derivative: %s" % ex
            return
        except SV.Panic as p_:
            self.decided += 1
            if not self.bad:
                sp = p_.node.get("sp") if isinstance(p_.node, dict) else None
                self.bad = "%s: the derivative panics (line %s) for tracked operands of these dimensions" % (label, sp[0] if sp else "?")
            return
        self.decided += 1
        if self.bad:
            return
        for o in operands:
            if not o.tracked:
                continue
            g = grads.get(o.uid)
            if g is None:
                self.bad = "%s: the tracked operand %s receives no gradient" % (label, o.dims)
                return
            if g == "unknown":
                self.undecided += 1
                self.decided -= 1
                self.why = self.why or "a gradient element has no provenance"
                return
            gd, gdims = g
            if gdims != o.dims or len(gd) != _prod(o.dims):
                self.bad = "%s: the gradient of the operand %s has dimensions %s" % (label, o.dims, gdims)
                return
            for i in range(_prod(o.dims)):
                want = {q for q, s in enumerate(fdeps) if (o.uid, i) in s}
                got = {t[1] for t in gd[i] if t[0] == "D"}
                if got != want and not (want - got):
                    self.extra_only = self.extra_only or "%s: the gradient of operand %s at %s also collects the adjoint of %d result element(s) that do not depend on it; whether that cancels is not decided" % (
                        label, o.dims, _unravel(i, o.dims), len(got - want))
                    continue
                if got != want:
                    extra, missing = sorted(got - want)[:3], sorted(want - got)[:3]
                    self.bad = "%s: the gradient of operand %s at %s %s" % (
                        label, o.dims, _unravel(i, o.dims),
                        ("collects the adjoint of result element(s) %s, which do not depend on it" % [_unravel(q, r.dims) for q in extra]) if extra else
                        ("misses the adjoint of result element(s) %s, which depend on it" % [_unravel(q, r.dims) for q in missing]))
                    return

    def close(self):
        if self.side is not None:
            self.side.close()
        if self.bad:
            self.c.bad(self.inst, self.where, "%s - %s" % (self.what, self.bad))
        elif self.extra_only:
            self.c.unk(self.inst, self.where, "%s - %s" % (self.what, self.extra_only))
        elif self.decided == 0:
            self.c.unk(self.inst, self.where, "the dependency analysis of %s could not be completed on any grid point (%s)" % (self.what, self.why))
        else:
            self.c.ok(self.inst, self.where, "%s: on %d grid evaluations every result element depends on exactly the documented operand elements, and every gradient "
                                              "element on exactly the adjoint elements that depend on it%s" % (self.what, self.decided, (" (%d undecided)" % self.undecided) if self.undecided else ""),
                      {"decided": self.decided, "undecided": self.undecided})


def _where(b):
    return "%s:%d" % (F.rel(b["file"]), b["sp"][0])


def r57_dependency_contract(facts, families=("ewise", "matmul", "conv", "reduce", "flatten")):
    """DEPENDENCY-CONTRACT: on a finite grid of shapes, a provenance analysis of the source gives for every result element the set of operand elements it is computed from, and for every gradient element the set of adjoint elements it collects; the first must be the documented set, the second its transpose"""
    c = Ctx("R57", facts, "result elements depend on exactly the documented operand elements; gradients collect exactly the transposed set (finite grid, provenance analysis)")
    if SKIP:
        return c
    fl = facts.float or "f64"
    n = 0
    for b in facts.fns():
        if not b.get("thir"):
            continue
        ins = b.get("inputs") or []
        tr = b.get("impl_trait_def")
        nm = b.get("name")
        if "ewise" in families and tr in ARITH and ins == [REF_ARR, REF_ARR]:
            n += 1
            j = _Judge(c, "deps:%s" % b["def"], _where(b), "%s of two arrays" % tr.rsplit("::", 1)[-1])
            pairs = [([3], [3]), ([2, 3], [2, 3]), ([2, 3], [3]), ([3], [2, 3]), ([2, 3], [2, 1]), ([3, 1], [3, 2]), ([2, 3], [1]), ([1], [2, 2]), ([1, 3], [1, 1]), ([2, 2, 2], [2, 1, 2]),
                     ([2, 2, 2], [2]), ([1], [2, 1, 2]), ([3], [1]), ([2, 1, 2], [2, 2, 1]),
                     ([2, 1], [1, 3]), ([1, 3], [2, 3]), ([2, 1, 2], [2, 2]), ([2, 2], [2, 2, 2])]
            for x, y in pairs:
                a_, b_ = _operand(1, x), _operand(2, y)
                jj = j.for_class(d6_class(x, y))

                def spec(q, od, a_=a_, b_=b_):
                    return {(1, _ravel(_bcast_index(q, a_.dims, od), a_.dims)), (2, _ravel(_bcast_index(q, b_.dims, od), b_.dims))}
                lab = "%s and %s" % (x, y)
                r = jj.forward(facts, b, [a_, b_], [a_, b_], spec, lab)
                if r is not None:
                    jj.adjoint(facts, r, [a_, b_], lab)
            j.close()
        elif "ewise" in families and tr in ARITH and (sorted(ins) == sorted([REF_ARR, fl])):
            n += 1
            j = _Judge(c, "deps:%s" % b["def"], _where(b), "%s by a number" % tr.rsplit("::", 1)[-1])
            for x in ([3], [2, 3]):
                a_ = _operand(1, x)
                args = [a_ if ARRAY in i_ else SV.PF(frozenset()) for i_ in ins]
                r = j.forward(facts, b, args, [a_], lambda q, od, a_=a_: {(1, _ravel(q, a_.dims))}, "%s" % x)
                if r is not None:
                    j.adjoint(facts, r, [a_], "%s" % x)
            j.close()
        elif "reduce" in families and b.get("impl_self") == ARRAY and tr is None and nm in ("reciprocal", "powf", "ln", "exp") and ins and ins[0] == REF_ARR and all(i_ == fl for i_ in ins[1:]):
            n += 1
            j = _Judge(c, "deps:%s" % b["def"], _where(b), nm)
            for x in ([3], [2, 2]):
                a_ = _operand(1, x)
                r = j.forward(facts, b, [a_] + [SV.PF(frozenset())] * (len(ins) - 1), [a_], lambda q, od, a_=a_: {(1, _ravel(q, a_.dims))}, "%s" % x)
                if r is not None:
                    j.adjoint(facts, r, [a_], "%s" % x)
            j.close()
        elif "reduce" in families and b.get("impl_self") == ARRAY and tr is None and nm in ("sigmoid", "relu") and ins == [REF_ARR]:
            n += 1
            j = _Judge(c, "deps:%s" % b["def"], _where(b), nm)
            for x in ([3], [2, 2]):
                a_ = _operand(1, x)
                r = j.forward(facts, b, [a_], [a_], lambda q, od, a_=a_: {(1, _ravel(q, a_.dims))}, "%s" % x)
                if r is not None:
                    j.adjoint(facts, r, [a_], "%s" % x)
            if j.decided == 0 and not j.bad:
                c.ok("deps:%s" % b["def"], _where(b), "%s branches on element values: not followed by the provenance analysis (the formula rules read it)" % nm, nontrivial=False)
            else:
                j.close()
        elif "reduce" in families and b.get("impl_self") == ARRAY and tr is None and nm == "softmax" and ins == [REF_ARR]:
            n += 1
            j = _Judge(c, "deps:%s" % b["def"], _where(b), "softmax")
            for x in ([3], [2, 3], [2, 1], [2, 2, 2]):
                a_ = _operand(1, x)

                def spec(q, od, x=x):
                    return {(1, _ravel(list(q[:-1]) + [t], x)) for t in range(x[-1])}
                r = j.forward(facts, b, [a_], [a_], spec, "%s" % x)
                if r is not None:
                    j.adjoint(facts, r, [a_], "%s" % x)
            j.close()
        elif "reduce" in families and b.get("impl_self") == ARRAY and tr is None and nm == "sum" and ins == [REF_ARR, "usize"]:
            n += 1
            j = _Judge(c, "deps:%s" % b["def"], _where(b), "sum")
            for x in ([3], [2, 3], [2, 2, 3], [2, 1, 2]):
                for k in range(1, len(x) + 1):
                    a_ = _operand(1, x)
                    lead = x[:len(x) - k]

                    def spec(q, od, a_=a_, lead=lead, k=k, x=x):
                        li = q[:len(lead)]
                        return {(1, _ravel(li + list(t), x)) for t in itertools.product(*[range(d) for d in x[len(lead):]])}
                    lab = "%s over the last %d" % (x, k)
                    r = j.forward(facts, b, [a_, k], [a_], spec, lab)
                    if r is not None:
                        j.adjoint(facts, r, [a_], lab)
            j.close()
        elif "reduce" in families and b.get("impl_self") == ARRAY and tr is None and nm == "reshape" and ins == [REF_ARR, "alloc::vec::Vec<usize>"]:
            n += 1
            j = _Judge(c, "deps:%s" % b["def"], _where(b), "reshape")
            for x, d in (([6], [2, 3]), ([2, 3], [3, 2]), ([2, 2], [4])):
                a_ = _operand(1, x)
                r = j.forward(facts, b, [a_, list(d)], [a_], lambda q, od: {(1, _ravel(q, od))}, "%s to %s" % (x, d))
                if r is not None:
                    j.adjoint(facts, r, [a_], "%s to %s" % (x, d))
            j.close()
        elif "flatten" in families and b.get("impl_self") == ARRAY and tr is None and nm == "flatten_to" and len(ins) == 2:
            n += 1
            j = _Judge(c, "deps:%s" % b["def"], _where(b), "flatten_to")
            shapes = [[3], [2], [1], [2, 3], [1, 3], [2, 1], [2, 2], [2, 2, 2], [2, 1, 2], [1, 2], [3, 2]]
            for tgt in shapes:
                for o in shapes:
                    x = _bcast(tgt, o)
                    if x is None or x == tgt and len(tgt) > 2:
                        continue
                    a_ = _operand(1, x, tracked=False)
                    jj = j.for_class((len(tgt) == len(x) >= 2 and tgt[0] == 1 and x[0] > 1) or (2 <= len(tgt) < len(x)))

                    def spec(q, od, tgt=tgt, x=x):
                        out = set()
                        for i in range(_prod(x)):
                            if _bcast_index(_unravel(i, x), tgt, x) == q:
                                out.add((1, i))
                        return out
                    jj.forward(facts, b, [a_, list(tgt)], [a_], spec, "an adjoint of dimensions %s reduced to %s" % (x, tgt))
            j.close()
        elif "matmul" in families and b.get("impl_self") == ARRAY and tr is None and nm == "matmul" and len(ins) == 3:
            n += 1
            j = _Judge(c, "deps:%s" % b["def"], _where(b), "matmul")
            cases = []
            for (m_, k_, n_) in ((2, 3, 2), (1, 2, 3), (3, 2, 4), (2, 2, 2), (2, 1, 2), (3, 1, 2), (1, 3, 1), (2, 2, 1)):
                cases.append(([], [m_, k_], [], [k_, n_]))
            cases.append(([2], [2, 3], [2], [3, 2]))
            cases.append(([2], [2, 2], [1], [2, 3]))
            cases.append(([2], [2, 3], [], [3, 2]))
            for pa, x, pb, y in cases:
                for at in (False, True):
                    for bt in (False, True):
                        for with_c in (None, "row", "full"):
                            xa = pa + ([x[1], x[0]] if at else x)
                            yb = pb + ([y[1], y[0]] if bt else y)
                            m_, k_, n_ = x[0], x[1], y[1]
                            if with_c and (pa or pb):
                                continue
                            a_, b_ = _operand(1, xa), _operand(2, yb)
                            c_ = _operand(3, [n_] if with_c == "row" else [m_, n_]) if with_c else None

                            def spec(q, od, a_=a_, b_=b_, c_=c_, at=at, bt=bt, pa=pa, pb=pb, m_=m_, k_=k_, n_=n_):
                                lead, (r_, j_) = q[:-2], q[-2:]
                                out = set()
                                la = [0 if d == 1 else lead[len(lead) - len(pa) + i] for i, d in enumerate(pa)]
                                lb = [0 if d == 1 else lead[len(lead) - len(pb) + i] for i, d in enumerate(pb)]
                                for k in range(k_):
                                    out.add((1, _ravel(la + ([k, r_] if at else [r_, k]), a_.dims)))
                                    out.add((2, _ravel(lb + ([j_, k] if bt else [k, j_]), b_.dims)))
                                if c_ is not None:
                                    out.add((3, _ravel([j_] if len(c_.dims) == 1 else [r_, j_], c_.dims)))
                                return out
                            lab = "%s%s x %s%s%s" % (xa, "^T" if at else "", yb, "^T" if bt else "", (" + %s" % c_.dims) if c_ else "")
                            jj = j.for_class(bool(pa) and bool(pb) and pa != pb or (bool(pa) != bool(pb)))
                            r = jj.forward(facts, b, [(a_, at), (b_, bt), SV.Some(c_) if c_ else SV.NONE], [a_, b_] + ([c_] if c_ else []), spec, lab)
                            if r is not None:
                                jj.adjoint(facts, r, [a_, b_] + ([c_] if c_ else []), lab)
            j.close()
        elif "conv" in families and b.get("impl_self") == ARRAY and tr is None and nm == "conv" and ins == [REF_ARR, REF_ARR, "(usize, usize)"]:
            n += 1
            j = _Judge(c, "deps:%s" % b["def"], _where(b), "conv")
            for (d, r_, c_), (fn_, fr, fc), (sr, sc) in ((([1, 3, 3]), (1, 2, 2), (1, 1)), ([2, 2, 3], (1, 2, 2), (1, 1)), ([1, 3, 5], (1, 2, 2), (1, 2)), ([1, 4, 4], (2, 2, 2), (2, 2)),
                                                        ([2, 3, 3], (2, 1, 1), (1, 1)), ([1, 3, 4], (1, 2, 3), (1, 1)), ([1, 5, 3], (1, 2, 2), (2, 1)), ([2, 4, 5], (2, 3, 2), (1, 3)),
                                                        ([1, 4, 5], (1, 2, 2), (2, 2)), ([2, 5, 5], (1, 2, 2), (2, 2)), ([2, 3, 5], (1, 1, 2), (1, 2)), ([1, 2, 2], (2, 2, 2), (1, 1)),
                                                        ([2, 3, 2], (2, 2, 2), (1, 1)), ([1, 4, 3], (1, 2, 2), (1, 1)), ([1, 4, 4], (1, 3, 3), (1, 1)), ([1, 5, 5], (1, 2, 2), (3, 3))):
                im, fi = _operand(1, [d, r_, c_]), _operand(2, [fn_, d, fr, fc])

                def spec(q, od, im=im, fi=fi, d=d, fr=fr, fc=fc, sr=sr, sc=sc):
                    f_, orow, ocol = q
                    out = set()
                    for k in range(d):
                        for m in range(fr):
                            for n2 in range(fc):
                                out.add((1, _ravel([k, orow * sr + m, ocol * sc + n2], im.dims)))
                                out.add((2, _ravel([f_, k, m, n2], fi.dims)))
                    return out
                lab = "image %s, filters %s, stride %s" % (im.dims, fi.dims, (sr, sc))
                r = j.forward(facts, b, [im, fi, (sr, sc)], [im, fi], spec, lab)
                if r is not None:
                    j.adjoint(facts, r, [im, fi], lab)
            j.close()
        elif "index" in families and tr == "core::ops::index::Index" and b.get("impl_self") == ARRAY and len(ins) == 2:
            n += 1
            flat = ins[1] == "usize"
            inst, where = "deps:%s" % b["def"], _where(b)
            decided, bad = 0, None
            for x in ([3], [2, 3], [2, 1, 2], [1, 4]):
                a_ = _operand(1, x, False)
                total = _prod(x)
                probes = [(i, i) for i in range(total)] + [(total, None), (total + 1, None), (2 * total, None)] if flat else \
                         [(list(_unravel(i, x)), i) for i in range(total)] + ([([x[0]] + [0] * (len(x) - 1), None), ([x[0] + 1] + [0] * (len(x) - 1), None)] if x[0] > 1 else [])
                for idx, want in probes:
                    out = SV.run(facts, b, [a_, idx if flat else list(idx)], prov=True)
                    if out[0] == "unknown":
                        continue
                    decided += 1
                    if bad:
                        continue
                    if want is None and out[0] != "panic":
                        bad = "the %s %s of an array of dimensions %s (%d elements) is accepted instead of refused" % ("flat index" if flat else "multi-index (first dimension exceeded: the row-major position is past the end)", idx, x, total)
                    elif want is not None and out[0] == "panic":
                        bad = "the index %s of an array of dimensions %s is refused" % (idx, x)
                    elif want is not None and not (isinstance(out[1], SV.PF) and out[1].s == frozenset({(1, want)})):
                        got = sorted(out[1].s) if isinstance(out[1], SV.PF) else out[1]
                        bad = "the index %s of an array of dimensions %s returns element %s instead of the row-major element %d" % (idx, x, [t[1] for t in got] if isinstance(got, list) else got, want)
            if bad:
                c.bad(inst, where, "%s: %s" % ("flat indexing" if flat else "indexing with a full multi-index", bad))
            elif decided == 0:
                c.unk(inst, where, "the indexing operation could not be evaluated")
            else:
                c.ok(inst, where, "%s returns the row-major element for every in-range index%s (%d evaluations)" % ("flat indexing" if flat else "a full multi-index", " and refuses an index at or past the element count" if flat else "", decided))
    c.count("operations analysed", n)
    return c


def r57_index(facts):
    """DEPENDENCY-CONTRACT (indexing): a flat index i returns element i and an index at or past the element count is refused; a full multi-index returns the row-major element"""
    return r57_dependency_contract(facts, ("index",))


def r57_ewise(facts):
    """DEPENDENCY-CONTRACT (element-wise operators): each result element is computed from its two broadcast partners and from nothing else; each gradient element collects the adjoints of exactly the result elements its operand element took part in"""
    return r57_dependency_contract(facts, ("ewise",))


def r57_matmul(facts):
    """DEPENDENCY-CONTRACT (matmul): result [.., r, j] is computed from row r of op(A), column j of op(B) and its element of the additive term, under all flags; gradients collect the transposed sets"""
    return r57_dependency_contract(facts, ("matmul",))


def r57_conv(facts):
    """DEPENDENCY-CONTRACT (conv): result [f, r, c] is computed from the window of the image at (r, c) and from filter f; gradients collect the transposed sets (overlapping windows included)"""
    return r57_dependency_contract(facts, ("conv",))


def r57_reduce(facts):
    """DEPENDENCY-CONTRACT (point-wise functions, sum, reshape): element i from element i; a sum from exactly the elements it collapses; gradients collect the transposed sets"""
    return r57_dependency_contract(facts, ("reduce",))


def r57_flatten(facts):
    """DEPENDENCY-CONTRACT (flatten_to): each element of a reduced adjoint is computed from exactly the broadcast copies of its target element"""
    return r57_dependency_contract(facts, ("flatten",))
