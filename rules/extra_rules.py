"""Rules added after the seeded-change rounds:
R22 UPDATE-ALIGNMENT       sibling traversals of the parameter list in Optimizer::update agree on order and subset
R26 ENGINE-CONTROL         the engine's control flow never depends on adjoint *values*
R27 SLOT-IDENTITY          nobody re-seats a shared slot (Rc field) of an existing handle"""

from . import facts as F
from .core import Ctx
from .facts import ARRAY, callee, resolved, strip, peel, walk, walk_ctx, loc, field_chain, var_of, lit_value
from .repr_rules import MUTATING, self_var, param_vars
from .pass_rules import engine_bodies, closure_tail
from .inline import engine_view
from .show import show

IT = "core::iter::traits::iterator::Iterator::"
ORDER_NEUTRAL = {IT + "filter", IT + "zip", IT + "map", IT + "enumerate", IT + "for_each", IT + "filter_map", IT + "inspect",
                 IT + "by_ref", IT + "copied", IT + "cloned", IT + "peekable", IT + "fuse",
                 "core::slice::<impl [T]>::iter", "core::slice::<impl [T]>::iter_mut",
                 "core::iter::traits::collect::IntoIterator::into_iter", "alloc::vec::Vec::<T, A>::iter", "alloc::vec::Vec::<T, A>::drain"}
ORDER_REVERSING = {IT + "rev"}


# ------------------------------------------------------------------ R27

def r27_slot_identity(facts):
    """R27: the shared slots of a handle are seated at construction only."""
    c = Ctx("R27", facts, "shared slots (Rc fields) of a handle are never re-seated")
    shared = [f["name"] for f in facts.adt_fields(ARRAY)
              if f["ty"].startswith("alloc::rc::Rc<") or f["ty"].startswith("core::option::Option<alloc::rc::Rc<")]
    c.floor("shared (Rc) fields of Array", len(shared), 6)
    allowed = {("with_children", "children"), ("with_backward_op", "backward_op")}
    n = 0
    for b in facts.bodies:
        mir = b.get("mir")
        if not mir:
            continue
        for p in mir["field_places"]:
            if p["ctx"] not in MUTATING:
                continue
            hit = None
            for i, e in enumerate(p["proj"]):
                if isinstance(e, dict) and e.get("adt") == ARRAY and e["field"] in shared:
                    hit = (i, e["field"])
                    break
            if not hit:
                continue
            # only the slot itself (not something behind it, which would need unsafe/RefCell and is judged elsewhere)
            if hit[0] != len(p["proj"]) - 1:
                continue
            n += 1
            owned = "*" not in [e for e in p["proj"][:hit[0]] if isinstance(e, str)]
            ok = owned and (b.get("name"), hit[1]) in allowed and b.get("impl_self") == ARRAY and not b.get("reachable") \
                and p["ctx"] == "write:Store"
            c.check(ok, "reseat:%s#%s" % (b["def"], hit[1]), "%s:%d" % (F.rel(b["file"]), p["sp"][0]),
                    "%s seats `%s` on the by-value array under construction (private builder)" % (b.get("name"), hit[1]),
                    "%s of the shared slot `%s` in %s: this handle stops sharing the slot with its clones "
                    "(a gradient / count / delta deposited through one clone is no longer visible through the others)" % (p["ctx"], hit[1], b["def"]))
    c.floor("slot seatings outside literals", n, 2)
    return c


# ------------------------------------------------------------------ R26

ALLOWED_ENGINE_FIELDS = {"is_tracked", "keep_gradient", "consumer_count", "children", "backward_op", "dimensions", "delta", "gradient"}
PREDICATE_ADAPTORS = {IT + "filter", IT + "take_while", IT + "skip_while", IT + "any", IT + "all", IT + "position", IT + "find",
                      IT + "filter_map", IT + "map_while"}


def _value_reads(facts, e, seen=None):
    """sub-expressions of e (and of closures called inside it) that read the *content* of an array"""
    out = []
    seen = seen if seen is not None else set()
    for n in walk(e):
        k = n.get("k")
        if k == "Field" and n.get("adt") == ARRAY and n["name"] not in ALLOWED_ENGINE_FIELDS:
            out.append(n)
        elif k == "Call":
            r = resolved(n) or ""
            cal = callee(n) or ""
            if r in ("corgi::array::Array::values", "corgi::array::arithmetic::<impl corgi::array::Array>::sum_all") \
                    or cal in ("core::cmp::PartialEq::eq", "core::cmp::PartialEq::ne", "core::ops::index::Index::index") and \
                    any(isinstance(a, dict) and (a.get("ty") or "").lstrip("&") == ARRAY for a in n["args"]):
                out.append(n)
            elif (r.startswith("<corgi::array::Array as approx::") or r.startswith("<corgi::array::Array as core::cmp::PartialEq")):
                out.append(n)
        elif k == "Closure" and n["closure"] not in seen:
            seen.add(n["closure"])
            cb = facts.body(n["closure"])
            if cb:
                out.extend(_value_reads(facts, facts.root(cb), seen))
    return out


def r26_engine_control(facts):
    """R26: branch conditions of the engine read flags, counters, presence and shapes — never array values."""
    c = Ctx("R26", facts, "the engine's control flow does not depend on adjoint values")
    facts = engine_view(facts)
    eng = engine_bodies(facts)
    c.floor("engine bodies", len(eng), 2)
    n_cond = 0
    for name, root_body in eng.items():
        for b in facts.nested(root_body):
            for n, ctx in walk_ctx(facts.root(b)):
                conds = []
                k = n.get("k")
                if k == "If":
                    cond = strip(n["cond"])
                    conds.append(("if", cond["e"] if cond.get("k") == "Let" else cond))
                elif k == "Match" and not str(n.get("source", "")).startswith("ForLoopDesugar"):
                    conds.append(("match", n["scrutinee"]))
                    for a in n["arms"]:
                        if a.get("guard") is not None:
                            conds.append(("guard", a["guard"]))
                elif k == "Call" and callee(n) in PREDICATE_ADAPTORS and len(n["args"]) > 1:
                    conds.append(("predicate", n["args"][1]))
                for kind, e in conds:
                    n_cond += 1
                    reads = _value_reads(facts, e)
                    inst = "cond:%s#%s" % (b["def"], kind)
                    if reads:
                        c.bad(inst, loc(b, e), "a %s condition in the backward engine reads array values (%s): which nodes are processed / which "
                              "contributions are delivered would depend on the numbers flowing through the pass; the counting protocol, "
                              "once-only evaluation and linearity in the seed cannot be decided for such an engine"
                              % (kind, show(reads[0])[:80]))
                    else:
                        c.ok(inst, loc(b, e), "%s condition over flags / counters / presence / shapes only" % kind, nontrivial=(kind != "match"))
    c.floor("engine branch conditions examined", n_cond, 8)
    return c


# ------------------------------------------------------------------ R22

def _chain(e):
    """iterator chain from terminal call down to its source: list of (callee, call node) outermost first, and the source expr"""
    out = []
    e = strip(e)
    while isinstance(e, dict) and e.get("k") == "Call" and e["args"]:
        cal = callee(e)
        if cal is None:
            break
        out.append((cal, e))
        if cal in ORDER_NEUTRAL or cal in ORDER_REVERSING or cal.startswith(IT) or cal in ("core::ops::deref::Deref::deref", "core::ops::deref::DerefMut::deref_mut"):
            e = peel(e["args"][0])
        else:
            break
    return out, e


def _orientation(chain):
    """'fwd' | 'rev' | None(unknown) for a chain as returned by _chain (only the receiver spine)"""
    rev = 0
    for cal, _ in chain:
        if cal in ORDER_REVERSING:
            rev += 1
        elif cal in ORDER_NEUTRAL or cal in ("core::ops::deref::Deref::deref", "core::ops::deref::DerefMut::deref_mut"):
            continue
        elif cal.startswith(IT):
            return None
    return "rev" if rev % 2 else "fwd"


def r22_update_alignment(facts):
    """R22: the traversal that fills the mask / flat buffers and the one that consumes them visit the same parameters in a consistent order."""
    c = Ctx("R22", facts, "Optimizer::update: producer and consumer traversals of the parameter list are aligned")
    impls = [b for b in facts.fns() if b.get("impl_trait_def") == "corgi::optimizer::Optimizer" and b.get("name") == "update"]
    c.floor("Optimizer::update implementations", len(impls), 1)
    for u in impls:
        root = strip(facts.root(u))
        pv = [v for v, _, ty, _ in param_vars(facts, u) if "alloc::vec::Vec<&mut corgi::array::Array>" in ty]
        if not pv:
            c.unk("update:%s" % u["def"], loc(u, root), "parameter list not recognised")
            continue
        if root.get("k") != "Block":
            # the body is a single expression (e.g. one loop over the parameters): buffers that live
            # across traversals would have to be declared at the top level, and there is none
            c.ok("update:%s" % u["def"], loc(u, root), "no cross-traversal buffers: nothing to align", nontrivial=False)
            continue
        params = pv[0]
        # local vectors
        vecs = {}
        for s in root["stmts"]:
            if s["s"] == "let" and s["pat"].get("k") == "Binding" and s["pat"]["ty"].startswith("alloc::vec::Vec<"):
                vecs[s["pat"]["v"]] = {"ty": s["pat"]["ty"], "prod": [], "cons": []}
        # traversals of the parameter list = statements whose receiver spine starts at `params`
        travs = []
        for si, s in enumerate(root["stmts"] + ([{"s": "expr", "e": root["e"]}] if root.get("e") is not None else [])):
            e = s.get("e") if s["s"] == "expr" else s.get("init")
            if e is None:
                continue
            chain, src = _chain(e)
            if var_of(src) == params and chain:
                travs.append({"i": si, "chain": chain, "orient": _orientation(chain), "node": e})
        c.count("traversals of the parameter list", len(travs))
        if not vecs:
            c.ok("update:%s" % u["def"], loc(u, root), "no cross-traversal buffers: nothing to align", nontrivial=False)
            continue
        # producers / consumers per vector
        for t in travs:
            stage = 0   # number of filters passed so far when walking from the source outwards
            for cal, node in reversed(t["chain"]):
                if cal == IT + "zip":
                    other = node["args"][1]
                    och, osrc = _chain(other)
                    v = var_of(osrc)
                    if v in vecs:
                        vecs[v]["cons"].append({"trav": t, "how": "zip", "orient": _orientation(och) if och else "fwd", "stage": stage, "node": node,
                                                "filtered": any(x[0] in (IT + "filter", IT + "take_while", IT + "skip_while", IT + "skip", IT + "take", IT + "step_by") for x in och)})
                if cal in (IT + "filter", IT + "for_each", IT + "map", IT + "filter_map", IT + "inspect") and len(node["args"]) > 1:
                    clo = strip(node["args"][1])
                    if clo.get("k") == "Closure":
                        cb = facts.body(clo["closure"])
                        for x in walk(facts.root(cb)):
                            if x.get("k") != "Call" or not x["args"]:
                                continue
                            tv = var_of(x["args"][0])
                            if tv not in vecs:
                                continue
                            xc = callee(x)
                            if xc in ("alloc::vec::Vec::<T, A>::push", "core::iter::traits::collect::Extend::extend", "alloc::vec::Vec::<T, A>::extend_from_slice"):
                                vecs[tv]["prod"].append({"trav": t, "stage": stage, "in": cal.split("::")[-1], "node": x, "closure": cb})
                            elif xc == "alloc::vec::Vec::<T, A>::drain":
                                rng = strip(x["args"][1])
                                start = None
                                if rng.get("k") == "Adt" and rng["adt"].startswith("core::ops::range::Range"):
                                    fl = {f["name"]: f["e"] for f in rng["fields"]}
                                    start = lit_value(fl["start"]) if "start" in fl else 0
                                vecs[tv]["cons"].append({"trav": t, "how": "drain-front" if start == 0 else "drain-other", "stage": stage, "node": x, "closure": cb})
                            elif xc in ("alloc::vec::Vec::<T, A>::split_off", "alloc::vec::Vec::<T, A>::pop", "alloc::vec::Vec::<T, A>::truncate"):
                                vecs[tv]["cons"].append({"trav": t, "how": "take-back", "stage": stage, "node": x, "closure": cb})
                            elif xc in ("alloc::vec::Vec::<T, A>::remove", "alloc::vec::Vec::<T, A>::swap_remove", "alloc::vec::Vec::<T, A>::insert"):
                                vecs[tv]["cons"].append({"trav": t, "how": "other:" + xc.split("::")[-1], "stage": stage, "node": x, "closure": cb})
                    if cal == IT + "filter":
                        stage += 1
        n_pairs = 0
        for v, info in vecs.items():
            name = v.split("#")[0]
            for pr in info["prod"]:
                for co in info["cons"]:
                    if co["trav"] is pr["trav"]:
                        continue
                    n_pairs += 1
                    inst = "align:%s#%s" % (u["def"], name)
                    where = loc(u, co["node"])
                    oa, ob = pr["trav"]["orient"], co["trav"]["orient"]
                    if oa is None or ob is None:
                        c.unk(inst, where, "a traversal of the parameter list uses an order-changing adaptor that is not understood")
                        continue
                    if co["how"] == "zip":
                        if co.get("filtered"):
                            c.bad(inst, where, "`%s` is filtered/shortened before being zipped with the parameters: element i no longer belongs to parameter i" % name)
                            continue
                        om = co["orient"]
                        if om is None:
                            c.unk(inst, where, "the order in which `%s` is zipped is not understood" % name)
                            continue
                        if pr["stage"] != co["stage"]:
                            c.bad(inst, where, "`%s` holds one entry per parameter that passed %d filter(s) but is zipped with the parameters after %d filter(s)"
                                  % (name, pr["stage"], co["stage"]))
                            continue
                        aligned = (oa == ob) == (om == "fwd")
                        c.check(aligned, inst, where,
                                "`%s` is filled and consumed in the same parameter order (producer %s, consumer %s, mask %s)" % (name, oa, ob, om),
                                "`%s` is filled while visiting the parameters %s but zipped %s with the parameters visited %s: entry i is "
                                "applied to parameter n-1-i (only palindromic masks behave)" % (name, "forwards" if oa == "fwd" else "backwards",
                                                                                              "forwards" if om == "fwd" else "backwards",
                                                                                              "forwards" if ob == "fwd" else "backwards"))
                    elif co["how"] == "drain-front":
                        c.check(oa == ob, inst, where, "`%s` is a FIFO: filled and drained from the front in the same parameter order" % name,
                                "`%s` is filled in one parameter order and drained from the front in the opposite order: parameters receive each other's values" % name)
                    elif co["how"] == "take-back":
                        c.check(oa != ob, inst, where, "`%s` is used as a stack: filled forwards, taken from the back in reverse parameter order" % name,
                                "`%s` is filled and taken from the back in the same parameter order: parameters receive each other's values" % name)
                    else:
                        c.unk(inst, where, "`%s` is consumed with %s: alignment with its producer not understood" % (name, co["how"]))
        # subset consistency: the filter that selects who contributes to the flat buffers and the
        # filter on the mask that selects who is written back must select the same parameters
        sub = _subset_consistency(facts, u, travs, vecs)
        if sub is not None:
            ok, why, node = sub
            if ok is None:
                c.ok("align:%s#subset" % u["def"], loc(u, node) if node else "-", "selection predicates not compared (%s)" % why, nontrivial=False)
            else:
                c.check(ok, "align:%s#subset" % u["def"], loc(u, node) if node else "-", why, why)
        c.count("producer/consumer pairs checked", n_pairs)
    return c


def _subset_consistency(facts, u, travs, vecs):
    """mask m_i is pushed for every parameter in the producer's filter closure, which returns keep_i;
    the consumer filters on the zipped mask with pred(m).  Require keep_i == pred(m_i)."""
    mask = None
    for v, info in vecs.items():
        if info["ty"] == "alloc::vec::Vec<bool>" and info["prod"] and any(co["how"] == "zip" for co in info["cons"]):
            mask = (v, info)
    if mask is None:
        return None
    v, info = mask
    pr = info["prod"][0]
    if pr["in"] != "filter":
        return None, "the mask `%s` is not filled inside the selecting filter" % v.split("#")[0], pr["node"]
    cb = pr["closure"]
    pushed = strip(pr["node"]["args"][1])
    _, ret = closure_tail(facts, cb)
    cenv = {}
    for x in walk(facts.root(cb)):
        if x.get("k") == "Block":
            for st in x["stmts"]:
                if st["s"] == "let" and st["pat"].get("k") == "Binding" and st.get("init") is not None:
                    cenv[st["pat"]["v"]] = st["init"]

    def unlet(e):
        e = strip(e)
        n = 0
        while isinstance(e, dict) and e.get("k") == "VarRef" and e["v"] in cenv and n < 4 and cenv[e["v"]].get("ty") == "bool":
            e = strip(cenv[e["v"]])
            n += 1
        return e
    pushed = unlet(pushed)
    ret = unlet(ret) if ret is not None else ret

    def pol(e):
        """(polarity, receiver rendering) of an is_some / is_none test, looking through !"""
        e = strip(e)
        neg = False
        while e.get("k") == "Unary" and e["op"] == "Not" or (e.get("k") == "Call" and callee(e) == "core::ops::bit::Not::not"):
            e = strip(e["e"] if e.get("k") == "Unary" else e["args"][0])
            neg = not neg
        if e.get("k") == "Call" and callee(e) in ("core::option::Option::<T>::is_some", "core::option::Option::<T>::is_none"):
            p = callee(e).endswith("is_some")
            return (p != neg), show(peel(e["args"][0]))
        return None, None
    pp, precv = pol(pushed)
    rp, rrecv = pol(ret)
    if pp is None or rp is None or precv != rrecv:
        return None, "mask entry / keep predicate not recognised as is_some/is_none of one value", pr["node"]
    # consumer predicate on the mask element
    co = [x for x in info["cons"] if x["how"] == "zip"][0]
    pred = None
    seen_zip = False
    for cal, node in reversed(co["trav"]["chain"]):
        if node is co["node"]:
            seen_zip = True
            continue
        if seen_zip and cal == IT + "filter":
            clo = strip(node["args"][1])
            if clo.get("k") == "Closure":
                fb = facts.body(clo["closure"])
                _, t = closure_tail(facts, fb)
                t = strip(t)
                neg = False
                while t.get("k") == "Unary" and t["op"] == "Not" or (t.get("k") == "Call" and callee(t) == "core::ops::bit::Not::not"):
                    t = strip(t["e"] if t.get("k") == "Unary" else t["args"][0])
                    neg = not neg
                tv = var_of(t)
                binds = param_vars(facts, fb)
                # the mask is the second component of the zip
                mv = [x for x, _, ty, path in binds if [p for p in path if p != "*"] == ["1"]]
                if tv in mv:
                    pred = ("neg" if neg else "pos")
            break
    if pred is None:
        return None, "the write-back traversal does not filter on the mask in a recognised form", co["node"]
    # keep_i is (rp); mask_i is (pp) [both as 'is_some' polarity]; pred keeps when mask (pos) or !mask (neg)
    mask_is_some = pp
    keep_is_some = rp
    consumer_keeps_is_some = mask_is_some if pred == "pos" else (not mask_is_some)
    ok = keep_is_some == consumer_keeps_is_some
    return ok, ("the parameters that contribute to the flat buffers are exactly the ones written back (same predicate on the gradient's presence)" if ok else
                "the parameters that contribute to the flat buffers (gradient %s) are not the ones written back (mask selects gradient %s): "
                "values drained for one parameter belong to another" % ("present" if keep_is_some else "absent", "present" if consumer_keeps_is_some else "absent")), co["node"]


# ------------------------------------------------------------------ R28

GD_MODULE = "corgi::optimizer::gd::"


def r28_stateless_gradient_descent(facts):
    """R28: the plain gradient-descent optimizer carries no state from one update to the next."""
    c = Ctx("R28", facts, "the gradient-descent optimizer is memoryless")
    impls = [b for b in facts.fns() if b.get("impl_trait_def") == "corgi::optimizer::Optimizer" and b.get("name") == "update"]
    c.floor("Optimizer::update implementations", len(impls), 1)
    n = 0
    for u in impls:
        ty = u.get("impl_self") or ""
        if not ty.startswith(GD_MODULE):
            c.ok("optimizer:%s" % ty, "%s:%d" % (F.rel(u["file"]), u["sp"][0]),
                 "not the plain gradient-descent optimizer of C13 (state such as momentum is its own business)", nontrivial=False)
            continue
        n += 1
        adt = facts.adts.get(ty.split("<")[0])
        takes_shared_self = (u.get("inputs") or [""])[0].startswith("&") and not (u.get("inputs") or [""])[0].startswith("&mut")
        where = "%s:%d" % (F.rel(u["file"]), u["sp"][0])
        c.check(takes_shared_self, "optimizer:%s#self" % ty, where, "update takes &self: it can only change the optimizer through interior mutability",
                "update takes &mut self: the optimizer can carry state from one update to the next")
        if adt is None:
            c.unk("optimizer:%s#fields" % ty, where, "type definition not found")
            continue
        for f in facts.adt_fields(adt["def"]):
            w = f["walk_full"]
            fw = "%s:%d" % (F.rel(adt["file"]), f["sp"][0])
            bad = w["cells"] or w["raw_ptrs"] or w["mut_refs"]
            c.check(not bad, "optimizer:%s.%s" % (ty, f["name"]), fw,
                    "field %s: %s has no interior mutability" % (f["name"], f["ty"]),
                    "field %s: %s has interior mutability: with `update(&self, ..)` this is the only way the result of an update can depend on "
                    "earlier updates (each step must be old - learning_rate * g of the *current* gradients)" % (f["name"], f["ty"]))
    c.count("gradient-descent optimizers examined", n)
    return c
