"""Rules added after the seeded-change rounds:
R22 UPDATE-ALIGNMENT       sibling traversals of the parameter list in Optimizer::update agree on order and subset
R26 ENGINE-CONTROL         the engine's control flow never depends on adjoint *values*
R27 SLOT-IDENTITY          nobody re-seats a shared slot (Rc field) of an existing handle"""

from . import facts as F
from .core import Ctx
from .facts import ARRAY, callee, resolved, strip, peel, walk, walk_ctx, loc, field_chain, var_of, lit_value, rel, pat_bindings
from .repr_rules import MUTATING, self_var, param_vars
from .pass_rules import engine_bodies, closure_tail
from .inline import engine_view
from .show import show

IT = "core::iter::traits::iterator::Iterator::"
ORDER_NEUTRAL = {IT + "filter", IT + "zip", IT + "map", IT + "enumerate", IT + "for_each", IT + "filter_map", IT + "inspect",
                 IT + "by_ref", IT + "copied", IT + "cloned", IT + "peekable", IT + "fuse",
                 "core::slice::<impl [T]>::iter", "core::slice::<impl [T]>::iter_mut",
                 "core::iter::traits::collect::IntoIterator::into_iter", "alloc::vec::Vec::<T, A>::iter", "alloc::vec::Vec::<T, A>::drain"}
ORDER_REVERSING = {IT + "rev"}


# ------------------------------------------------------------------ R27

def r27_slot_identity(facts):
    """R27: the shared slots of a handle are seated at construction only."""
    c = Ctx("R27", facts, "shared slots (Rc fields) of a handle are never re-seated")
    shared = [f["name"] for f in facts.adt_fields(ARRAY)
              if f["ty"].startswith("alloc::rc::Rc<") or f["ty"].startswith("core::option::Option<alloc::rc::Rc<")]
    c.floor("shared (Rc) fields of Array", len(shared), 6)
    allowed = {("with_children", "children"), ("with_backward_op", "backward_op")}
    n = 0
    for b in facts.bodies:
        mir = b.get("mir")
        if not mir:
            continue
        for p in mir["field_places"]:
            if p["ctx"] not in MUTATING:
                continue
            hit = None
            for i, e in enumerate(p["proj"]):
                if isinstance(e, dict) and e.get("adt") == ARRAY and e["field"] in shared:
                    hit = (i, e["field"])
                    break
            if not hit:
                continue
            # only the slot itself (not something behind it, which would need unsafe/RefCell and is judged elsewhere)
            if hit[0] != len(p["proj"]) - 1:
                continue
            n += 1
            owned = "*" not in [e for e in p["proj"][:hit[0]] if isinstance(e, str)]
            ok = owned and (b.get("name"), hit[1]) in allowed and b.get("impl_self") == ARRAY and not b.get("reachable") \
                and p["ctx"] == "write:Store"
            c.check(ok, "reseat:%s#%s" % (b["def"], hit[1]), "%s:%d" % (F.rel(b["file"]), p["sp"][0]),
                    "%s seats `%s` on the by-value array under construction (private builder)" % (b.get("name"), hit[1]),
                    "%s of the shared slot `%s` in %s: this handle stops sharing the slot with its clones "
                    "(a gradient / count / delta deposited through one clone is no longer visible through the others)" % (p["ctx"], hit[1], b["def"]))
    c.floor("slot seatings outside literals", n, 2)
    return c


# ------------------------------------------------------------------ R26

ALLOWED_ENGINE_FIELDS = {"is_tracked", "keep_gradient", "consumer_count", "children", "backward_op", "dimensions", "delta", "gradient"}
PREDICATE_ADAPTORS = {IT + "filter", IT + "take_while", IT + "skip_while", IT + "any", IT + "all", IT + "position", IT + "find",
                      IT + "filter_map", IT + "map_while"}


def _value_reads(facts, e, seen=None):
    """sub-expressions of e (and of closures called inside it) that read the *content* of an array"""
    out = []
    seen = seen if seen is not None else set()
    for n in walk(e):
        k = n.get("k")
        if k == "Field" and n.get("adt") == ARRAY and n["name"] not in ALLOWED_ENGINE_FIELDS:
            out.append(n)
        elif k == "Call":
            r = resolved(n) or ""
            cal = callee(n) or ""
            if r in ("corgi::array::Array::values", "corgi::array::arithmetic::<impl corgi::array::Array>::sum_all") \
                    or cal in ("core::cmp::PartialEq::eq", "core::cmp::PartialEq::ne", "core::ops::index::Index::index") and \
                    any(isinstance(a, dict) and (a.get("ty") or "").lstrip("&") == ARRAY for a in n["args"]):
                out.append(n)
            elif (r.startswith("<corgi::array::Array as approx::") or r.startswith("<corgi::array::Array as core::cmp::PartialEq")):
                out.append(n)
        elif k == "Closure" and n["closure"] not in seen:
            seen.add(n["closure"])
            cb = facts.body(n["closure"])
            if cb:
                out.extend(_value_reads(facts, facts.root(cb), seen))
    return out


def r26_engine_control(facts):
    """R26: branch conditions of the engine read flags, counters, presence and shapes — never array values."""
    c = Ctx("R26", facts, "the engine's control flow does not depend on adjoint values")
    facts = engine_view(facts)
    eng = engine_bodies(facts)
    c.floor("engine bodies", len(eng), 2)
    n_cond = 0
    for name, root_body in eng.items():
        # plain (non-array) locals computed from array values: `let is_live = delta.values.iter().any(..)`
        derived = {}
        for _ in range(3):
            for b in facts.nested(root_body):
                for n in walk(facts.root(b)):
                    if n.get("k") != "Block":
                        continue
                    for s_ in n["stmts"]:
                        if s_["s"] != "let" or s_.get("init") is None or s_["pat"].get("k") != "Binding":
                            continue
                        ty = s_["pat"].get("ty") or ""
                        if ARRAY in ty:
                            continue
                        v = s_["pat"]["v"]
                        if v in derived:
                            continue
                        rd = _value_reads(facts, s_["init"])
                        via = [x for x in walk(s_["init"]) if x.get("k") in ("VarRef", "UpvarRef") and x["v"] in derived]
                        if rd:
                            derived[v] = rd[0]
                        elif via:
                            derived[v] = derived[via[0]["v"]]
        for b in facts.nested(root_body):
            for n, ctx in walk_ctx(facts.root(b)):
                conds = []
                k = n.get("k")
                if k == "If":
                    cond = strip(n["cond"])
                    conds.append(("if", cond["e"] if cond.get("k") == "Let" else cond))
                elif k == "Match" and not str(n.get("source", "")).startswith("ForLoopDesugar"):
                    conds.append(("match", n["scrutinee"]))
                    for a in n["arms"]:
                        if a.get("guard") is not None:
                            conds.append(("guard", a["guard"]))
                elif k == "Call" and callee(n) in PREDICATE_ADAPTORS and len(n["args"]) > 1:
                    conds.append(("predicate", n["args"][1]))
                for kind, e in conds:
                    n_cond += 1
                    reads = _value_reads(facts, e)
                    if not reads:
                        reads = [derived[x["v"]] for x in walk(e) if x.get("k") in ("VarRef", "UpvarRef") and x["v"] in derived]
                    inst = "cond:%s#%s" % (b["def"], kind)
                    if reads:
                        c.bad(inst, loc(b, e), "a %s condition in the backward engine reads array values (%s): which nodes are processed / which "
                              "contributions are delivered would depend on the numbers flowing through the pass; the counting protocol, "
                              "once-only evaluation and linearity in the seed cannot be decided for such an engine"
                              % (kind, show(reads[0])[:80]))
                    else:
                        c.ok(inst, loc(b, e), "%s condition over flags / counters / presence / shapes only" % kind, nontrivial=(kind != "match"))
    c.floor("engine branch conditions examined", n_cond, 8)
    return c


# ------------------------------------------------------------------ R22

def _chain(e):
    """iterator chain from terminal call down to its source: list of (callee, call node) outermost first, and the source expr"""
    out = []
    e = strip(e)
    while isinstance(e, dict) and e.get("k") == "Call" and e["args"]:
        cal = callee(e)
        if cal is None:
            break
        out.append((cal, e))
        if cal in ORDER_NEUTRAL or cal in ORDER_REVERSING or cal.startswith(IT) or cal in ("core::ops::deref::Deref::deref", "core::ops::deref::DerefMut::deref_mut"):
            e = peel(e["args"][0])
        else:
            break
    return out, e


def _orientation(chain):
    """'fwd' | 'rev' | None(unknown) for a chain as returned by _chain (only the receiver spine)"""
    rev = 0
    for cal, _ in chain:
        if cal in ORDER_REVERSING:
            rev += 1
        elif cal in ORDER_NEUTRAL or cal in ("core::ops::deref::Deref::deref", "core::ops::deref::DerefMut::deref_mut"):
            continue
        elif cal.startswith(IT):
            return None
    return "rev" if rev % 2 else "fwd"


def r22_update_alignment(facts):
    """R22: the traversal that fills the mask / flat buffers and the one that consumes them visit the same parameters in a consistent order."""
    c = Ctx("R22", facts, "Optimizer::update: producer and consumer traversals of the parameter list are aligned")
    impls = [b for b in facts.fns() if b.get("impl_trait_def") == "corgi::optimizer::Optimizer" and b.get("name") == "update"]
    c.floor("Optimizer::update implementations", len(impls), 1)
    for u in impls:
        root = strip(facts.root(u))
        pv = [v for v, _, ty, _ in param_vars(facts, u) if "alloc::vec::Vec<&mut corgi::array::Array>" in ty]
        if not pv:
            c.unk("update:%s" % u["def"], loc(u, root), "parameter list not recognised")
            continue
        if root.get("k") != "Block":
            # the body is a single expression (e.g. one loop over the parameters): buffers that live
            # across traversals would have to be declared at the top level, and there is none
            c.ok("update:%s" % u["def"], loc(u, root), "no cross-traversal buffers: nothing to align", nontrivial=False)
            continue
        params = pv[0]
        # local vectors
        vecs = {}
        for s in root["stmts"]:
            if s["s"] == "let" and s["pat"].get("k") == "Binding" and s["pat"]["ty"].startswith("alloc::vec::Vec<"):
                vecs[s["pat"]["v"]] = {"ty": s["pat"]["ty"], "prod": [], "cons": []}
        # traversals of the parameter list = statements whose receiver spine starts at `params`
        travs = []
        for si, s in enumerate(root["stmts"] + ([{"s": "expr", "e": root["e"]}] if root.get("e") is not None else [])):
            e = s.get("e") if s["s"] == "expr" else s.get("init")
            if e is None:
                continue
            chain, src = _chain(e)
            if var_of(src) == params and chain:
                travs.append({"i": si, "chain": chain, "orient": _orientation(chain), "node": e})
        c.count("traversals of the parameter list", len(travs))
        # a traversal of the parameters selects element by element (filter); an adaptor that selects by POSITION stops at, or skips
        # up to, the first parameter that fails its test: the parameters after it are treated differently although nothing about them differs
        POSITIONAL = (IT + "take_while", IT + "skip_while", IT + "take", IT + "skip", IT + "step_by", IT + "map_while")
        for t in travs:
            posn = [cal for cal, _ in t["chain"] if cal in POSITIONAL]
            if posn:
                c.bad("positional:%s#%d" % (u["def"], t["i"]), loc(u, t["node"]), "a traversal of the parameter list uses `%s`: it selects by position, so a parameter after the first one that fails the test "
                      "(a frozen parameter in the middle of the list) is not updated although it holds a gradient" % posn[0].rsplit("::", 1)[-1])
        if not vecs:
            c.ok("update:%s" % u["def"], loc(u, root), "no cross-traversal buffers: nothing to align", nontrivial=False)
            continue
        # producers / consumers per vector
        for t in travs:
            stage = 0   # number of filters passed so far when walking from the source outwards
            for cal, node in reversed(t["chain"]):
                if cal == IT + "zip":
                    other = node["args"][1]
                    och, osrc = _chain(other)
                    v = var_of(osrc)
                    if v in vecs:
                        vecs[v]["cons"].append({"trav": t, "how": "zip", "orient": _orientation(och) if och else "fwd", "stage": stage, "node": node,
                                                "filtered": any(x[0] in (IT + "filter", IT + "take_while", IT + "skip_while", IT + "skip", IT + "take", IT + "step_by") for x in och)})
                if cal in (IT + "filter", IT + "for_each", IT + "map", IT + "filter_map", IT + "inspect") and len(node["args"]) > 1:
                    clo = strip(node["args"][1])
                    if clo.get("k") == "Closure":
                        cb = facts.body(clo["closure"])
                        for x in walk(facts.root(cb)):
                            if x.get("k") != "Call" or not x["args"]:
                                continue
                            tv = var_of(x["args"][0])
                            if tv not in vecs:
                                continue
                            xc = callee(x)
                            if xc in ("alloc::vec::Vec::<T, A>::push", "core::iter::traits::collect::Extend::extend", "alloc::vec::Vec::<T, A>::extend_from_slice"):
                                vecs[tv]["prod"].append({"trav": t, "stage": stage, "in": cal.split("::")[-1], "node": x, "closure": cb})
                            elif xc == "alloc::vec::Vec::<T, A>::drain":
                                rng = strip(x["args"][1])
                                start = None
                                if rng.get("k") == "Adt" and rng["adt"].startswith("core::ops::range::Range"):
                                    fl = {f["name"]: f["e"] for f in rng["fields"]}
                                    start = lit_value(fl["start"]) if "start" in fl else 0
                                how_ = "drain-front" if start == 0 else "drain-other"
                                if rng.get("k") == "Adt" and rng["adt"].startswith("core::ops::range::RangeFrom") and start is None:
                                    # `v.drain(v.len() - k ..)`: the last k entries
                                    st_ = strip({f["name"]: f["e"] for f in rng["fields"]}.get("start") or {})
                                    if st_.get("k") == "Binary" and st_.get("op") == "Sub":
                                        l_ = peel(st_["l"])
                                        if isinstance(l_, dict) and l_.get("k") == "Call" and (callee(l_) or "").endswith("::len") and l_["args"] and var_of(l_["args"][0]) == tv:
                                            how_ = "take-back"
                                vecs[tv]["cons"].append({"trav": t, "how": how_, "stage": stage, "node": x, "closure": cb})
                            elif xc in ("alloc::vec::Vec::<T, A>::split_off", "alloc::vec::Vec::<T, A>::pop", "alloc::vec::Vec::<T, A>::truncate"):
                                vecs[tv]["cons"].append({"trav": t, "how": "take-back", "stage": stage, "node": x, "closure": cb})
                            elif xc in ("alloc::vec::Vec::<T, A>::remove", "alloc::vec::Vec::<T, A>::swap_remove", "alloc::vec::Vec::<T, A>::insert"):
                                vecs[tv]["cons"].append({"trav": t, "how": "other:" + xc.split("::")[-1], "stage": stage, "node": x, "closure": cb})
                    if cal == IT + "filter":
                        stage += 1
        n_pairs = 0
        for v, info in vecs.items():
            name = v.split("#")[0]
            for pr in info["prod"]:
                for co in info["cons"]:
                    if co["trav"] is pr["trav"]:
                        continue
                    n_pairs += 1
                    inst = "align:%s#%s" % (u["def"], name)
                    where = loc(u, co["node"])
                    oa, ob = pr["trav"]["orient"], co["trav"]["orient"]
                    if oa is None or ob is None:
                        c.unk(inst, where, "a traversal of the parameter list uses an order-changing adaptor that is not understood")
                        continue
                    if co["how"] == "zip":
                        if co.get("filtered"):
                            c.bad(inst, where, "`%s` is filtered/shortened before being zipped with the parameters: element i no longer belongs to parameter i" % name)
                            continue
                        om = co["orient"]
                        if om is None:
                            c.unk(inst, where, "the order in which `%s` is zipped is not understood" % name)
                            continue
                        if pr["stage"] != co["stage"]:
                            c.bad(inst, where, "`%s` holds one entry per parameter that passed %d filter(s) but is zipped with the parameters after %d filter(s)"
                                  % (name, pr["stage"], co["stage"]))
                            continue
                        aligned = (oa == ob) == (om == "fwd")
                        c.check(aligned, inst, where,
                                "`%s` is filled and consumed in the same parameter order (producer %s, consumer %s, mask %s)" % (name, oa, ob, om),
                                "`%s` is filled while visiting the parameters %s but zipped %s with the parameters visited %s: entry i is "
                                "applied to parameter n-1-i (only palindromic masks behave)" % (name, "forwards" if oa == "fwd" else "backwards",
                                                                                              "forwards" if om == "fwd" else "backwards",
                                                                                              "forwards" if ob == "fwd" else "backwards"))
                    elif co["how"] == "drain-front" and pr["stage"] != co["stage"]:
                        cond_ = any(any(fr[0] in ("if", "arm", "guard", "after", "after-arm", "logic") for fr in ctx_) for y_, ctx_ in walk_ctx(facts.root(pr["closure"])) if y_ is pr["node"])
                        if cond_:
                            c.unk(inst, where, "`%s` is filled conditionally inside a closure that runs before the selection; which parameters contribute is not read" % name)
                        else:
                            c.bad(inst, where, "`%s` receives an entry for every parameter that passed %d filter(s) but is drained, front first, by the parameters that passed %d filter(s): "
                                  "as soon as one parameter is filtered out (a frozen parameter), the parameters after it receive another parameter's values" % (name, pr["stage"], co["stage"]))
                    elif co["how"] == "drain-front":
                        c.check(oa == ob, inst, where, "`%s` is a FIFO: filled and drained from the front in the same parameter order" % name,
                                "`%s` is filled in one parameter order and drained from the front in the opposite order: parameters receive each other's values" % name)
                    elif co["how"] == "take-back":
                        c.check(oa != ob, inst, where, "`%s` is used as a stack: filled forwards, taken from the back in reverse parameter order" % name,
                                "`%s` is filled and taken from the back in the same parameter order: parameters receive each other's values" % name)
                    else:
                        c.unk(inst, where, "`%s` is consumed with %s: alignment with its producer not understood" % (name, co["how"]))
        # a test of a gradient's presence that selects parameters is made BEFORE the traversal that takes the gradients out of their slots:
        # afterwards every slot is empty and every parameter looks frozen
        def _takes(e):
            todo, seen_ = [e], set()
            while todo:
                x0 = todo.pop()
                for x in walk(x0):
                    if x.get("k") == "Call" and ((resolved(x) or "").endswith("::replace_gradient") or (callee(x) or "").endswith("::take") and _mentions_gradient(facts, x)):
                        return True
                    if x.get("k") == "Closure" and x["closure"] not in seen_:
                        seen_.add(x["closure"])
                        cb_ = facts.body(x["closure"])
                        if cb_ is not None:
                            todo.append(facts.root(cb_))
            return False
        all_stmts = root["stmts"] + ([{"s": "expr", "e": root["e"]}] if root.get("e") is not None else [])
        take_at = [i for i, s_ in enumerate(all_stmts) if (s_.get("e") if s_["s"] == "expr" else s_.get("init")) is not None
                   and _takes(s_.get("e") if s_["s"] == "expr" else s_.get("init"))]
        if take_at:
            first_take = take_at[0]
            for t in travs:
                if t["i"] <= first_take:
                    continue
                selecting = [node for cal, node in t["chain"] if cal in (IT + "filter", IT + "map", IT + "filter_map", IT + "take_while", IT + "skip_while") and len(node["args"]) > 1
                             and _mentions_gradient(facts, node["args"][1]) and not _takes(node["args"][1])]
                if selecting:
                    c.bad("order:%s#%d" % (u["def"], t["i"]), loc(u, selecting[0]), "a traversal tests the parameters' gradients for presence AFTER an earlier statement has taken the gradients out of "
                          "their slots: every slot is empty by then, so every parameter is treated as frozen (nothing is written back although the gradients are gone)")
        # subset consistency: the filter that selects who contributes to the flat buffers and the
        # filter on the mask that selects who is written back must select the same parameters
        sub = _subset_consistency(facts, u, travs, vecs)
        if sub is not None:
            ok, why, node = sub
            if ok is None:
                c.ok("align:%s#subset" % u["def"], loc(u, node) if node else "-", "selection predicates not compared (%s)" % why, nontrivial=False)
            else:
                c.check(ok, "align:%s#subset" % u["def"], loc(u, node) if node else "-", why, why)
        c.count("producer/consumer pairs checked", n_pairs)
    return c


def _subset_consistency(facts, u, travs, vecs):
    """mask m_i is pushed for every parameter in the producer's filter closure, which returns keep_i;
    the consumer filters on the zipped mask with pred(m).  Require keep_i == pred(m_i)."""
    mask = None
    for v, info in vecs.items():
        if info["ty"] == "alloc::vec::Vec<bool>" and info["prod"] and any(co["how"] == "zip" for co in info["cons"]):
            mask = (v, info)
    if mask is None:
        return None
    v, info = mask
    pr = info["prod"][0]
    if pr["in"] != "filter":
        return None, "the mask `%s` is not filled inside the selecting filter" % v.split("#")[0], pr["node"]
    cb = pr["closure"]
    pushed = strip(pr["node"]["args"][1])
    _, ret = closure_tail(facts, cb)
    cenv = {}
    for x in walk(facts.root(cb)):
        if x.get("k") == "Block":
            for st in x["stmts"]:
                if st["s"] == "let" and st["pat"].get("k") == "Binding" and st.get("init") is not None:
                    cenv[st["pat"]["v"]] = st["init"]

    def unlet(e):
        e = strip(e)
        n = 0
        while isinstance(e, dict) and e.get("k") == "VarRef" and e["v"] in cenv and n < 4 and cenv[e["v"]].get("ty") == "bool":
            e = strip(cenv[e["v"]])
            n += 1
        return e
    pushed = unlet(pushed)
    ret = unlet(ret) if ret is not None else ret

    def pol(e):
        """(polarity, receiver rendering) of an is_some / is_none test, looking through !"""
        e = strip(e)
        neg = False
        while e.get("k") == "Unary" and e["op"] == "Not" or (e.get("k") == "Call" and callee(e) == "core::ops::bit::Not::not"):
            e = strip(e["e"] if e.get("k") == "Unary" else e["args"][0])
            neg = not neg
        if e.get("k") == "Call" and callee(e) in ("core::option::Option::<T>::is_some", "core::option::Option::<T>::is_none"):
            p = callee(e).endswith("is_some")
            return (p != neg), show(peel(e["args"][0]))
        return None, None
    pp, precv = pol(pushed)
    rp, rrecv = pol(ret)
    if pp is None or rp is None or precv != rrecv:
        return None, "mask entry / keep predicate not recognised as is_some/is_none of one value", pr["node"]
    # consumer predicate on the mask element
    co = [x for x in info["cons"] if x["how"] == "zip"][0]
    pred = None
    seen_zip = False
    for cal, node in reversed(co["trav"]["chain"]):
        if node is co["node"]:
            seen_zip = True
            continue
        if seen_zip and cal == IT + "filter":
            clo = strip(node["args"][1])
            if clo.get("k") == "Closure":
                fb = facts.body(clo["closure"])
                _, t = closure_tail(facts, fb)
                t = strip(t)
                neg = False
                while t.get("k") == "Unary" and t["op"] == "Not" or (t.get("k") == "Call" and callee(t) == "core::ops::bit::Not::not"):
                    t = strip(t["e"] if t.get("k") == "Unary" else t["args"][0])
                    neg = not neg
                tv = var_of(t)
                binds = param_vars(facts, fb)
                # the mask is the second component of the zip
                mv = [x for x, _, ty, path in binds if [p for p in path if p != "*"] == ["1"]]
                if tv in mv:
                    pred = ("neg" if neg else "pos")
            break
    if pred is None:
        return None, "the write-back traversal does not filter on the mask in a recognised form", co["node"]
    # keep_i is (rp); mask_i is (pp) [both as 'is_some' polarity]; pred keeps when mask (pos) or !mask (neg)
    mask_is_some = pp
    keep_is_some = rp
    consumer_keeps_is_some = mask_is_some if pred == "pos" else (not mask_is_some)
    ok = keep_is_some == consumer_keeps_is_some
    return ok, ("the parameters that contribute to the flat buffers are exactly the ones written back (same predicate on the gradient's presence)" if ok else
                "the parameters that contribute to the flat buffers (gradient %s) are not the ones written back (mask selects gradient %s): "
                "values drained for one parameter belong to another" % ("present" if keep_is_some else "absent", "present" if consumer_keeps_is_some else "absent")), co["node"]


# ------------------------------------------------------------------ R28

GD_MODULE = "corgi::optimizer::gd::"


def r28_stateless_gradient_descent(facts):
    """R28: the plain gradient-descent optimizer carries no state from one update to the next."""
    c = Ctx("R28", facts, "the gradient-descent optimizer is memoryless")
    impls = [b for b in facts.fns() if b.get("impl_trait_def") == "corgi::optimizer::Optimizer" and b.get("name") == "update"]
    c.floor("Optimizer::update implementations", len(impls), 1)
    n = 0
    for u in impls:
        ty = u.get("impl_self") or ""
        if not ty.startswith(GD_MODULE):
            c.ok("optimizer:%s" % ty, "%s:%d" % (F.rel(u["file"]), u["sp"][0]),
                 "not the plain gradient-descent optimizer of C13 (state such as momentum is its own business)", nontrivial=False)
            continue
        n += 1
        adt = facts.adts.get(ty.split("<")[0])
        takes_shared_self = (u.get("inputs") or [""])[0].startswith("&") and not (u.get("inputs") or [""])[0].startswith("&mut")
        where = "%s:%d" % (F.rel(u["file"]), u["sp"][0])
        c.check(takes_shared_self, "optimizer:%s#self" % ty, where, "update takes &self: it can only change the optimizer through interior mutability",
                "update takes &mut self: the optimizer can carry state from one update to the next")
        if adt is None:
            c.unk("optimizer:%s#fields" % ty, where, "type definition not found")
            continue
        for f in facts.adt_fields(adt["def"]):
            w = f["walk_full"]
            fw = "%s:%d" % (F.rel(adt["file"]), f["sp"][0])
            bad = w["cells"] or w["raw_ptrs"] or w["mut_refs"]
            c.check(not bad, "optimizer:%s.%s" % (ty, f["name"]), fw,
                    "field %s: %s has no interior mutability" % (f["name"], f["ty"]),
                    "field %s: %s has interior mutability: with `update(&self, ..)` this is the only way the result of an update can depend on "
                    "earlier updates (each step must be old - learning_rate * g of the *current* gradients)" % (f["name"], f["ty"]))
    c.count("gradient-descent optimizers examined", n)
    return c


# ------------------------------------------------------------------ R42

GRAD_READS = ("corgi::array::Array::gradient", "corgi::array::Array::replace_gradient", "corgi::array::Array::gradient_mut")


def _mentions_gradient(facts, e, seen=None):
    """does the expression (or a closure literal inside it) read the gradient slot of an array?"""
    seen = seen if seen is not None else set()
    for x in walk(e):
        if x.get("k") == "Call" and resolved(x) in GRAD_READS:
            return True
        if x.get("k") == "Closure" and x["closure"] not in seen:
            seen.add(x["closure"])
            cb = facts.body(x["closure"])
            if cb is not None and _mentions_gradient(facts, facts.root(cb), seen):
                return True
    return False


def _update_bodies(facts, u):
    """update, its closures, and the crate-local functions it calls (with their closures)"""
    from .repr_rules import callees_closure
    out = []
    seen = set()
    for b in callees_closure(facts, u, depth=3):
        if b is not u and (b.get("impl_self") == ARRAY or (b.get("def") or "").startswith("corgi::array::")):
            continue        # methods of the array library are not part of the optimizer's control flow (and their variable ids would collide)
        for nb in facts.nested(b):
            if nb["def"] not in seen:
                seen.add(nb["def"])
                out.append(nb)
    return out


def _gradient_derived_vars(facts, bodies):
    """variables whose value was read from a gradient slot (lets, pattern bindings of matches / if-lets on such reads), transitively"""
    g = set()
    g_returning = set()         # crate-local functions (among `bodies`) whose result derives from a gradient read
    by_def = {nb["def"]: nb for nb in bodies}
    changed = True
    rounds = 0
    while changed and rounds < 12:
        changed = False
        rounds += 1
        for nb in bodies:
            # what a helper returns
            if nb["kind"] in ("Fn", "AssocFn") and nb["def"] not in g_returning:
                from .pass_rules import _return_paths
                for _, re_ in _return_paths(facts.root(nb)):
                    if _mentions_gradient(facts, re_) or any(x.get("k") in ("VarRef", "UpvarRef") and x["v"] in g for x in walk(re_)):
                        g_returning.add(nb["def"])
                        changed = True
                        break
            for n in walk(facts.root(nb)):
                # arguments handed to a helper; values pushed into a local collection; loop patterns over such a collection
                if n.get("k") == "Call":
                    r_ = resolved(n)
                    if r_ in by_def and by_def[r_]["kind"] in ("Fn", "AssocFn"):
                        cps = [p_ for p_ in facts.params(by_def[r_]) if p_.get("pat")]
                        for p_, a in zip(cps, n["args"]):
                            if _mentions_gradient(facts, a) or any(x.get("k") in ("VarRef", "UpvarRef") and x["v"] in g for x in walk(a)) \
                                    or any(x.get("k") == "Call" and resolved(x) in g_returning for x in walk(a)):
                                for v, _, _, _ in F.pat_bindings(p_["pat"]):
                                    if v not in g:
                                        g.add(v)
                                        changed = True
                    if callee(n) in ("alloc::vec::Vec::<T, A>::push", "alloc::vec::Vec::<T, A>::insert", "alloc::vec::Vec::<T, A>::extend", "core::iter::traits::collect::Extend::extend",
                                     "alloc::vec::Vec::<T, A>::extend_from_slice") and len(n["args"]) >= 2:
                        val = n["args"][-1]
                        if _mentions_gradient(facts, val) or any(x.get("k") in ("VarRef", "UpvarRef") and x["v"] in g for x in walk(val)):
                            rv = var_of(peel(n["args"][0]))
                            if rv and rv not in g:
                                g.add(rv)
                                changed = True
                # the closure handed to an adaptor of a gradient-derived Option / iterator sees the gradient (or its elements)
                if n.get("k") == "Call" and len(n.get("args") or []) >= 2 and ((callee(n) or "").startswith("core::option::Option::<") or (callee(n) or "").startswith("core::iter::traits::iterator::Iterator::")):
                    recv_ = n["args"][0]
                    is_opt = (callee(n) or "").startswith("core::option::Option::<")
                    direct_read = any(x.get("k") == "Call" and resolved(x) in GRAD_READS for x in walk(recv_))      # not through a closure of an upstream adaptor
                    def _outside_closures(e_):
                        st_ = [e_]
                        while st_:
                            x_ = st_.pop()
                            if not isinstance(x_, dict):
                                continue
                            yield x_
                            if x_.get("k") != "Closure":
                                st_.extend(F.kids(x_))
                    if (is_opt and direct_read) or any(x.get("k") in ("VarRef", "UpvarRef") and x["v"] in g for x in _outside_closures(recv_)):
                        for a_ in n["args"][1:]:
                            a0_ = strip(a_)
                            if isinstance(a0_, dict) and a0_.get("k") == "Closure":
                                cb_ = facts.body(a0_["closure"])
                                if cb_ is not None:
                                    for v, _, _, _ in param_vars(facts, cb_):
                                        if v not in g:
                                            g.add(v)
                                            changed = True
                fl_ = F.for_loop_parts(n)
                if fl_:
                    it_, pat_, _, _ = fl_
                    if any(x.get("k") in ("VarRef", "UpvarRef") and x["v"] in g for x in walk(it_)):
                        # only the components that come from the gradient-derived side of a zip are gradient-derived; a pattern over a
                        # single gradient-derived collection binds gradient-derived elements
                        z = peel(it_)
                        sides = None
                        while isinstance(z, dict) and z.get("k") == "Call" and callee(z) in ("core::iter::traits::collect::IntoIterator::into_iter",) and z["args"]:
                            z = peel(z["args"][0])
                        if isinstance(z, dict) and z.get("k") == "Call" and callee(z) == "core::iter::traits::iterator::Iterator::zip" and len(z["args"]) == 2:
                            sides = [any(x.get("k") in ("VarRef", "UpvarRef") and x["v"] in g for x in walk(a)) for a in z["args"]]
                        for v, _, _, path in F.pat_bindings(pat_):
                            idx = [q for q in path if q != "*"]
                            take = True
                            if sides is not None and idx and idx[0] in ("0", "1"):
                                take = sides[int(idx[0])]
                            if take and v not in g:
                                g.add(v)
                                changed = True
                srcs = []
                if n.get("k") == "Block":
                    for s_ in n["stmts"]:
                        if s_["s"] == "let" and s_.get("init") is not None:
                            srcs.append((s_["pat"], s_["init"]))
                elif n.get("k") == "Match":
                    for a in n["arms"]:
                        srcs.append((a["pat"], n["scrutinee"]))
                elif n.get("k") == "Let":
                    srcs.append((n["pat"], n["e"]))
                for pat, init in srcs:
                    dep = _mentions_gradient(facts, init) or any(x.get("k") in ("VarRef", "UpvarRef") and x["v"] in g for x in walk(init)) \
                        or any(x.get("k") == "Call" and resolved(x) in g_returning for x in walk(init))
                    if dep:
                        for v, _, _, _ in F.pat_bindings(pat):
                            if v not in g:
                                g.add(v)
                                changed = True
    return g


def _is_selection_condition(facts, cond, gvars, boolpats):
    """a condition that can tell a parameter with a gradient from one without: it reads a gradient slot, a value read from one,
    or a per-parameter Boolean drawn from a mask (a pattern-bound bool, or an element of a Vec<bool> / [bool])"""
    if _mentions_gradient(facts, cond):
        return True
    c0 = strip(cond)
    if isinstance(c0, dict) and c0.get("k") == "Closure":
        cb = facts.body(c0["closure"])
        if cb is not None:
            return _is_selection_condition(facts, facts.root(cb), gvars, boolpats)
    indexed = set()
    for x in walk(cond):
        base_ = None
        if x.get("k") == "Index":
            base_ = x["e"]
        elif x.get("k") == "Call" and x.get("args") and (callee(x) or "").rsplit("::", 1)[-1] in ("index", "index_mut", "get", "get_mut", "get_unchecked", "remove", "swap_remove", "pop", "next", "drain"):
            base_ = x["args"][0]
        if base_ is not None:
            indexed |= {y["v"] for y in walk(base_) if y.get("k") in ("VarRef", "UpvarRef")}
    for x in walk(cond):
        if x.get("k") in ("VarRef", "UpvarRef") and (x["v"] in gvars or x["v"] in boolpats):
            # a whole collection (the mask vector counted or searched as a whole) says nothing about ONE parameter; an element of it does
            if (x.get("ty") or "").replace("&", "").replace("mut ", "").strip().startswith("alloc::vec::Vec<") and x["v"] not in boolpats and x["v"] not in indexed:
                continue
            return True
        if x.get("k") == "Index" and "bool" in (strip(x["e"]).get("ty") or ""):
            return True
        if x.get("k") == "Call" and callee(x) == "core::ops::index::Index::index" and x["args"] and "bool" in (strip(x["args"][0]).get("ty") or ""):
            return True
    return False


def _pattern_bools(facts, bodies):
    """bool-typed variables bound by loop / closure-parameter / match patterns (mask elements)"""
    out = set()
    for nb in bodies:
        for p in facts.params(nb):
            if p.get("pat"):
                for v, _, ty, path in F.pat_bindings(p["pat"]):
                    if ty in ("bool", "&bool") and (path or nb["kind"] == "Closure"):
                        out.add(v)
        for n in walk(facts.root(nb)):
            fl = F.for_loop_parts(n)
            if fl:
                for v, _, ty, _ in F.pat_bindings(fl[1]):
                    if ty in ("bool", "&bool"):
                        out.add(v)
            if n.get("k") == "Match" and not str(n.get("source", "")).startswith("ForLoopDesugar"):
                for a in n["arms"]:
                    for v, _, ty, _ in F.pat_bindings(a["pat"]):
                        if ty in ("bool", "&bool"):
                            out.add(v)
            if n.get("k") == "Let":
                for v, _, ty, _ in F.pat_bindings(n["pat"]):
                    if ty in ("bool", "&bool"):
                        out.add(v)
    return out


def _upstream_predicates(facts, nb):
    """predicates of filter-like adaptors upstream of the iterator adaptor whose closure is nb"""
    out = []
    parent = facts.body(nb.get("parent")) if nb["kind"] == "Closure" else None
    if parent is None:
        return out
    for m in walk(facts.root(parent)):
        if m.get("k") == "Call" and any(strip(a).get("k") == "Closure" and strip(a)["closure"] == nb["def"] for a in m["args"]):
            chain, src = _chain(m)
            for cal, node in chain[1:]:
                if cal in (IT + "filter", IT + "filter_map", IT + "take_while", IT + "skip_while") and len(node["args"]) > 1:
                    out.append(node["args"][1])
    return out + _upstream_predicates(facts, parent)


def _selection_records(facts, bodies, gvars):
    """local collections that are filled only for parameters with a gradient (pushes / extends that are gated by a gradient's presence or
    carry a value read from a gradient), and everything derived from them by lets"""
    sel = set()
    maybe = set()
    PUSHES = ("alloc::vec::Vec::<T, A>::push", "core::iter::traits::collect::Extend::extend", "alloc::vec::Vec::<T, A>::extend_from_slice",
              "alloc::vec::Vec::<T, A>::insert", "alloc::collections::vec_deque::VecDeque::<T, A>::push_back")
    for nb in bodies:
        for n, ctx in F.walk_ctx(facts.root(nb)):
            if n.get("k") == "Call" and callee(n) in PUSHES and len(n["args"]) >= 2:
                v = var_of(n["args"][0])
                if not v:
                    continue
                gated = any(sc is not None and (_mentions_gradient(facts, sc) or any(x.get("k") in ("VarRef", "UpvarRef") and x["v"] in gvars for x in walk(sc)))
                            for sc, _ in F.some_bindings_on_path(ctx))
                gated = gated or any(_mentions_gradient(facts, cnd) or any(x.get("k") in ("VarRef", "UpvarRef") and x["v"] in gvars for x in walk(cnd))
                                     for cnd, _ in F.path_facts(ctx))
                gated = gated or any(_mentions_gradient(facts, a) or any(x.get("k") in ("VarRef", "UpvarRef") and x["v"] in gvars for x in walk(a)) for a in n["args"][1:])
                gated = gated or any(_is_selection_condition(facts, pr, gvars, set()) for pr in _upstream_predicates(facts, nb))
                if gated:
                    sel.add(v)
    changed = True
    while changed:
        changed = False
        for nb in bodies:
            for n in walk(facts.root(nb)):
                pairs = []
                if n.get("k") == "Block":
                    for s_ in n["stmts"]:
                        if s_["s"] == "let" and s_.get("init") is not None:
                            pairs.append((s_["pat"], s_["init"]))
                fl = F.for_loop_parts(n)
                if fl:
                    pairs.append((fl[1], fl[0]))
                for pat, init in pairs:
                    if any(x.get("k") in ("VarRef", "UpvarRef") and x["v"] in sel for x in _walk_outside_captures(init)):
                        for v, _, _, _ in F.pat_bindings(pat):
                            if v not in sel:
                                sel.add(v)
                                changed = True
                    elif any(x.get("k") in ("VarRef", "UpvarRef") and (x["v"] in sel or x["v"] in maybe) for x in walk(init)):
                        # only a closure of the chain looks at the selected collection (a predicate comparing against it): what is drawn is
                        # not an element of it, and whether the predicate singles out the selected parameters is not read
                        for v, _, _, _ in F.pat_bindings(pat):
                            if v not in sel and v not in maybe:
                                maybe.add(v)
                                changed = True
    _selection_records.maybe = maybe - sel
    return sel


def _walk_outside_captures(e):
    st = [e]
    while st:
        x = st.pop()
        if isinstance(x, dict):
            yield x
            for k_, v_ in x.items():
                if k_ == "upvars" and x.get("k") == "Closure":
                    continue
                if isinstance(v_, (dict, list)):
                    st.append(v_)
        elif isinstance(x, list):
            st.extend(x)


def r42_writeback_gated(facts):
    """WRITE-BACK-GATED: Optimizer::update overwrites a parameter only under a per-parameter selection (its gradient's presence, or a mask element): a parameter without a gradient - frozen, or not part of this iteration's graph - is left untouched, not re-tracked"""
    c = Ctx("R42", facts, "Optimizer::update writes back only selected parameters (those that had a gradient)")
    impls = [b for b in facts.fns() if b.get("impl_trait_def") == "corgi::optimizer::Optimizer" and b.get("name") == "update"]
    c.floor("Optimizer::update implementations", len(impls), 1)
    for u in impls:
        bodies = _update_bodies(facts, u)
        gvars = _gradient_derived_vars(facts, bodies)
        boolpats = _pattern_bools(facts, bodies)
        selvars = _selection_records(facts, bodies, gvars)
        selmaybe = set(_selection_records.maybe)
        n_writes = 0
        for nb in bodies:
            for n, ctx in F.walk_ctx(facts.root(nb)):
                if n.get("k") != "Assign":
                    continue
                lhs = strip(n["l"])
                if lhs.get("ty") != ARRAY or lhs.get("k") != "Deref" or not any("&mut corgi::array::Array" in (x.get("ty") or "") for x in walk(lhs)):
                    continue
                n_writes += 1
                inst = "writeback:%s" % u["def"]
                where = loc(nb, n)
                gate = None
                for scrut, pat in F.some_bindings_on_path(ctx):
                    if scrut is not None and (_mentions_gradient(facts, scrut) or any(x.get("k") in ("VarRef", "UpvarRef") and x["v"] in gvars for x in walk(scrut))):
                        gate = "inside the Some case of a gradient read"
                conds = [cnd for cnd, _ in F.path_facts(ctx)] + _upstream_predicates(facts, nb)
                for fr in ctx:
                    if fr[0] in ("arm", "after-arm") and isinstance(fr[1], dict) and not str(fr[1].get("source", "")).startswith("ForLoopDesugar"):
                        conds.append(fr[1]["scrutinee"])
                for cnd in conds:
                    if gate is None and _is_selection_condition(facts, cnd, gvars | selvars, boolpats):
                        gate = "under the per-parameter condition `%s`" % show(cnd)[:50]
                # the written parameter itself comes out of a collection that only holds selected parameters
                tv = var_of(lhs)
                if gate is None and tv in selvars:
                    gate = "the parameter is taken from a collection filled only for parameters with a gradient"
                if gate is None:
                    for x in walk(lhs):
                        ix = None
                        if x.get("k") == "Index":
                            ix = x.get("i")
                        elif x.get("k") == "Call" and callee(x) in ("core::ops::index::IndexMut::index_mut", "core::ops::index::Index::index") and len(x["args"]) == 2:
                            ix = x["args"][1]
                        if ix is not None and any(y.get("k") in ("VarRef", "UpvarRef") and y["v"] in selvars for y in walk(ix)):
                            gate = "the parameter is addressed by a position taken from a collection filled only for parameters with a gradient"
                if gate:
                    c.ok(inst, where, "the parameter is overwritten only where it was selected (%s)" % gate)
                elif tv in selmaybe or any(x.get("k") in ("VarRef", "UpvarRef") and x["v"] in selmaybe for cnd in conds for x in walk(cnd)) \
                        or any(sc is not None and any(x.get("k") in ("VarRef", "UpvarRef") and x["v"] in selmaybe for x in walk(sc)) for sc, _ in F.some_bindings_on_path(ctx)):
                    c.unk(inst, where, "the overwritten parameter is found by a predicate that compares against the selected collection; whether it singles out exactly the parameters with a gradient is not read")
                else:
                    c.bad(inst, where, "the parameter is overwritten whether or not it had a gradient: a frozen parameter (no gradient) is replaced by a fresh tracked array "
                                       "and starts training from the next iteration")
        # the selection is by PRESENCE of a gradient: update itself never fills a parameter's gradient slot (a default gradient of zeros makes
        # every parameter look as if the pass had reached it)
        fillers, unread_ = [], []
        for nb in bodies:
            for n in walk(facts.root(nb)):
                uses_mut = lambda e: any(y.get("k") == "Call" and resolved(y) == ARRAY + "::gradient_mut" for y in walk(e))
                none_lit = lambda e: isinstance(strip(e), dict) and strip(e).get("k") == "Adt" and strip(e).get("variant") == "None"
                if n.get("k") == "Call" and n.get("args") and uses_mut(n["args"][0]) and resolved(n) != ARRAY + "::gradient_mut":
                    tl_ = (callee(n) or "").rsplit("::", 1)[-1]
                    if tl_ in ("get_or_insert_with", "get_or_insert", "insert", "get_or_insert_default") or (tl_ == "replace" and len(n["args"]) == 2 and not none_lit(n["args"][1])):
                        fillers.append((nb, n))
                    elif tl_ not in ("take", "is_some", "is_none", "as_ref", "as_deref", "clone", "deref", "deref_mut", "replace", "as_mut", "borrow", "map", "unwrap", "expect", "is_some_and"):
                        unread_.append((nb, n))
                if n.get("k") == "Assign" and uses_mut(n["l"]) and not none_lit(n["r"]):
                    fillers.append((nb, n))
        if unread_ and not fillers:
            c.unk("gradient-fill:%s" % u["def"], loc(unread_[0][0], unread_[0][1]), "update uses `gradient_mut()` in a form this clause does not read (`%s`)" % show(unread_[0][1])[:60])
        elif fillers:
            nb_, n_ = fillers[0]
            c.bad("gradient-fill:%s" % u["def"], loc(nb_, n_), "update fills a parameter's gradient slot through `gradient_mut()`: a slot filled here makes a parameter without a "
                  "gradient - frozen, or not reached by this iteration's pass - pass the presence test, so it is rebuilt as a fresh tracked array")
        else:
            c.ok("gradient-fill:%s" % u["def"], loc(u, facts.root(u)), "update never fills a gradient slot (gradients are only read, taken or emptied)", nontrivial=False)
        if n_writes == 0:
            c.unk("writeback:%s" % u["def"], loc(u, facts.root(u)), "no `*parameter = ..` store found in update or the functions it calls (parameters replaced in another way)")
        # the values a parameter is rebuilt from are CONSUMED from the flat buffer (drain / split_off / a shared iterator / a running offset):
        # a read that starts at the front every time gives every parameter the first parameter's values
        fl_ = facts.float or "f64"
        for nb in bodies:
            for n in walk(facts.root(nb)):
                if n.get("k") != "Assign":
                    continue
                lhs = strip(n["l"])
                if lhs.get("ty") != ARRAY or lhs.get("k") != "Deref":
                    continue
                # buffers declared outside this body and mentioned on the right-hand side
                own_lets = {st["pat"]["v"] for x in walk(facts.root(nb)) if x.get("k") == "Block" for st in x["stmts"] if st["s"] == "let" and st["pat"].get("k") == "Binding"}
                bufs = [x for x in walk(n["r"]) if x.get("k") in ("VarRef", "UpvarRef") and ("Vec<%s>" % fl_) in (x.get("ty") or "") and x["v"] not in own_lets]
                if not bufs:
                    continue
                bv = bufs[0]["v"]
                uses = [(callee(x) or "").rsplit("::", 1)[-1] for x in walk(n["r"]) if x.get("k") == "Call" and x.get("args")
                        and any(y.get("k") in ("VarRef", "UpvarRef") and y["v"] == bv for y in walk(x["args"][0]))]
                consuming = any(u in ("drain", "split_off", "remove", "swap_remove", "pop", "next", "by_ref", "truncate", "drain_filter", "extract_if") for u in uses)
                # a slice with a running offset
                offset_ok = False
                for x in walk(n["r"]):
                    if x.get("k") == "Adt" and (x.get("adt") or "").startswith("core::ops::range::") :
                        for f_ in x.get("fields") or []:
                            sv_ = var_of(peel(f_["e"])) or next((y["v"] for y in walk(f_["e"]) if y.get("k") in ("VarRef", "UpvarRef")), None)
                            if sv_ and any(y.get("k") in ("AssignOp", "Assign") and var_of(y["l"]) == sv_ for nb2 in bodies for y in walk(facts.root(nb2))):
                                offset_ok = True
                inst2 = "consumes:%s" % u["def"]
                if consuming or offset_ok:
                    c.ok(inst2, loc(nb, n), "each parameter's new values are taken off the flat buffer (%s)" % ("a consuming call" if consuming else "a running offset"), nontrivial=False)
                elif any(u in ("iter", "into_iter", "take", "clone", "to_vec", "as_slice", "index", "get") for u in uses) or uses == []:
                    c.bad(inst2, loc(nb, n), "every parameter is rebuilt from the FRONT of the flat buffer `%s` (%s): nothing is consumed and no offset advances, so the second and later parameters "
                          "receive the first one's values" % (bv.split("#")[0], ", ".join(uses[:4]) or "read as a whole"))
                else:
                    c.unk(inst2, loc(nb, n), "how the flat buffer `%s` is read for each parameter is not recognised (%s)" % (bv.split("#")[0], ", ".join(uses[:4])))
        # the selection looks at the PRESENCE of a gradient only: a Boolean computed from a gradient's values (all zero? small?) would
        # leave a parameter that holds such a gradient un-stepped and its gradient in place
        hit = None
        for nb in bodies:
            parents = {}
            root = facts.root(nb)
            for x in walk(root):
                for ch in F.kids(x):
                    if isinstance(ch, dict):
                        parents[id(ch)] = x
            for x in walk(root):
                is_read = x.get("k") == "Call" and (resolved(x) in ("corgi::array::Array::values", "corgi::array::arithmetic::<impl corgi::array::Array>::sum_all")
                                                    or (resolved(x) or "").startswith("<%s as core::ops::index::Index<" % ARRAY)
                                                    or (resolved(x) or "").startswith("<%s as core::cmp::PartialEq" % ARRAY))
                if not is_read or not x["args"]:
                    continue
                recv = x["args"][0]
                if not (_mentions_gradient(facts, recv) or any(y.get("k") in ("VarRef", "UpvarRef") and y["v"] in gvars for y in walk(recv))):
                    continue
                # does the value read feed a Boolean?
                cur = x
                for _ in range(12):
                    par = parents.get(id(cur))
                    if par is None:
                        break
                    if par.get("k") == "Block" or par.get("k") in ("Assign", "AssignOp"):
                        break
                    if par.get("k") == "Call" and (callee(par) or "").rsplit("::", 1)[-1] in ("extend", "push", "extend_from_slice", "len", "to_vec", "for_each", "zip", "copied", "cloned", "iter", "into_iter", "deref", "collect", "drain"):
                        if (callee(par) or "").rsplit("::", 1)[-1] in ("extend", "push", "extend_from_slice", "len", "to_vec", "for_each", "collect"):
                            break
                        cur = par
                        continue
                    if (par.get("ty") or "") == "bool":
                        hit = hit or (nb, par, x)
                        break
                    cur = par
        if hit:
            c.bad("selection:%s" % u["def"], loc(hit[0], hit[1]), "a Boolean in update is computed from a gradient's VALUES (`%s`): which parameters are stepped and have their gradient cleared "
                  "must depend on whether they hold a gradient, not on what it contains (a parameter whose gradient is, say, all zero would keep it)" % show(hit[1])[:70])
        else:
            c.ok("selection:%s" % u["def"], loc(u, facts.root(u)), "no Boolean of update is computed from a gradient's values (presence tests only)")
    return c


# ------------------------------------------------------------------ R43

def r43_gradients_taken_on_every_path(facts):
    """GRADIENTS-TAKEN: every call of Optimizer::update reaches the code that takes (clears) the parameters' gradients - it is not skipped by an early exit or by a condition on anything but the parameters themselves (a gradient left behind is added to by the next pass)"""
    c = Ctx("R43", facts, "Optimizer::update takes every live gradient on every path")
    impls = [b for b in facts.fns() if b.get("impl_trait_def") == "corgi::optimizer::Optimizer" and b.get("name") == "update"]
    c.floor("Optimizer::update implementations", len(impls), 1)
    for u in impls:
        bodies = _update_bodies(facts, u)
        sites = []
        for nb in bodies:
            for n in walk(facts.root(nb)):
                if n.get("k") == "Call" and resolved(n) == "corgi::array::Array::replace_gradient":
                    sites.append((nb, n))
                # `*p.gradient_mut() = None` / `p.gradient_mut().take()`
                if n.get("k") == "Call" and resolved(n) == "corgi::array::Array::gradient_mut":
                    sites.append((nb, n))
        where0 = loc(u, facts.root(u))
        inst = "take:%s" % u["def"]
        if not sites:
            c.bad(inst, where0, "update never takes the parameters' gradients (replace_gradient / gradient_mut): the next backward pass adds to the old gradient and the next step uses the sum")
            continue
        # variables derived from the parameter list (loop variables over it, lets, closure parameters of adaptors over it)
        pv = {v for v, _, ty, _ in param_vars(facts, u) if "corgi::array::Array" in ty}
        derived = set(pv)
        for nb in bodies:
            if nb is not u:
                for p in facts.params(nb):
                    if p.get("pat"):
                        for v, _, ty, _ in F.pat_bindings(p["pat"]):
                            if "corgi::array::Array" in ty or ty in ("bool", "&bool", "usize"):
                                derived.add(v)
        changed = True
        while changed:
            changed = False
            for nb in bodies:
                for n in walk(facts.root(nb)):
                    pairs = []
                    if n.get("k") == "Block":
                        for s_ in n["stmts"]:
                            if s_["s"] == "let" and s_.get("init") is not None:
                                pairs.append((s_["pat"], s_["init"]))
                    fl = F.for_loop_parts(n)
                    if fl:
                        pairs.append((fl[1], fl[0]))
                    if n.get("k") == "Match":
                        for a in n["arms"]:
                            pairs.append((a["pat"], n["scrutinee"]))
                    if n.get("k") == "Let":
                        pairs.append((n["pat"], n["e"]))
                    for pat, init in pairs:
                        if any(x.get("k") in ("VarRef", "UpvarRef") and x["v"] in derived for x in walk(init)) or _mentions_gradient(facts, init):
                            for v, _, _, _ in F.pat_bindings(pat):
                                if v not in derived:
                                    derived.add(v)
                                    changed = True

        def about_parameters(e):
            return _mentions_gradient(facts, e) or any(x.get("k") in ("VarRef", "UpvarRef") and x["v"] in derived for x in walk(e))
        verdicts = []
        for nb, n in sites:
            # conditions on the way from the entry of update to the site: inside the site's own body, then at each enclosing closure / call site
            foreign = []
            cur_body, cur_node = nb, n
            hops = 0
            ok_chain = True
            while True:
                ctx = None
                for m, cx in F.walk_ctx(facts.root(cur_body)):
                    if m is cur_node:
                        ctx = cx
                if ctx is None:
                    ok_chain = False
                    break
                for cond, truth in F.path_facts(ctx):
                    if not about_parameters(cond):
                        foreign.append("`%s` is %s" % (show(cond)[:50], "true" if truth else "false"))
                for fr in ctx:
                    if fr[0] in ("arm", "after-arm", "guard") and isinstance(fr[1], dict) and not str(fr[1].get("source", "")).startswith("ForLoopDesugar"):
                        if not about_parameters(fr[1]["scrutinee"]):
                            foreign.append("a match on `%s`" % show(fr[1]["scrutinee"])[:40])
                    if fr[0] == "let-else" and fr[1].get("init") is not None and not about_parameters(fr[1]["init"]):
                        foreign.append("a let-else on `%s`" % show(fr[1]["init"])[:40])
                if cur_body is u or hops > 6:
                    break
                # go one level up: the closure literal in its parent, or the call of this local function
                nxt = None
                if cur_body["kind"] == "Closure":
                    parent = facts.body(cur_body.get("parent"))
                    if parent is not None:
                        for m in walk(facts.root(parent)):
                            if m.get("k") == "Closure" and m.get("closure") == cur_body["def"]:
                                nxt = (parent, m)
                else:
                    for ob in bodies:
                        for m in walk(facts.root(ob)):
                            if m.get("k") == "Call" and resolved(m) == cur_body["def"]:
                                nxt = (ob, m)
                if nxt is None:
                    ok_chain = False
                    break
                cur_body, cur_node = nxt
                hops += 1
            verdicts.append((nb, n, foreign, ok_chain))
        good = [v for v in verdicts if v[3] and not v[2]]
        if good:
            nb, n, _, _ = good[0]
            c.ok(inst, loc(nb, n), "the gradient-taking code is reached on every path through update (conditions on the way concern the parameters only)")
        elif any(v[3] for v in verdicts):
            nb, n, foreign, _ = [v for v in verdicts if v[3]][0]
            c.bad(inst, loc(nb, n), "the gradients are taken only when %s: on the other path update returns with the gradients still in place, the next pass adds to them "
                                    "and the next step uses the sum of two iterations" % "; ".join(sorted(set(foreign))))
        else:
            c.unk(inst, where0, "cannot relate the gradient-taking code to the body of update")
    return c


# ------------------------------------------------------------------ R44

def r44_stateless_derivative(facts):
    """STATELESS-DERIVATIVE: a derivative closure keeps no state that depends on the adjoint it was given: nothing derived from its delta argument is stored into a captured cell (a later pass through the same node would reuse the earlier pass's delta)"""
    from .facts import is_backward_closure
    c = Ctx("R44", facts, "derivative closures store nothing adjoint-dependent in captured interior-mutable state")
    n = 0
    for cb in facts.closures():
        if not is_backward_closure(cb):
            continue
        n += 1
        where = "%s:%d" % (F.rel(cb["file"]), cb["sp"][0])
        cells = [cap for cap in cb.get("captures", []) if cap["walk"]["cells"]]
        if not cells:
            c.ok("closure:%s" % cb["def"], where, "captures no interior-mutable state", nontrivial=False)
            continue
        ps = [p for p in facts.params(cb) if p.get("pat")]
        xv = {v for v, _, _, _ in F.pat_bindings(ps[2]["pat"])} if len(ps) >= 3 else set()
        bodies = facts.nested(cb)
        # adjoint-derived variables (lets whose initialiser mentions the adjoint)
        changed = True
        while changed:
            changed = False
            for nb in bodies:
                for node in walk(facts.root(nb)):
                    if node.get("k") == "Block":
                        for s in node["stmts"]:
                            if s["s"] == "let" and s.get("init") is not None:
                                vs = {x["v"] for x in walk(s["init"]) if x.get("k") in ("VarRef", "UpvarRef")}
                                if vs & xv:
                                    for v, _, _, _ in F.pat_bindings(s["pat"]):
                                        if v not in xv:
                                            xv.add(v)
                                            changed = True
        cellvars = {cap["v"] for cap in cells}
        # aliases of the cells: `let mut g = cell.borrow_mut();`
        for nb in bodies:
            for node in walk(facts.root(nb)):
                if node.get("k") == "Block":
                    for s in node["stmts"]:
                        if s["s"] == "let" and s.get("init") is not None and s["pat"].get("k") == "Binding":
                            r_, ch = field_chain(s["init"])
                            base = var_of(s["init"])
                            inner = strip(s["init"])
                            while isinstance(inner, dict) and inner.get("k") == "Call" and inner["args"]:
                                base = var_of(inner["args"][0]) or base
                                inner = peel(inner["args"][0])
                            if base in cellvars:
                                cellvars.add(s["pat"]["v"])

        def mentions_adjoint(e, seen=None):
            seen = seen if seen is not None else set()
            for x in walk(e):
                if x.get("k") in ("VarRef", "UpvarRef") and x["v"] in xv:
                    return True
                if x.get("k") == "Closure" and x["closure"] not in seen:
                    seen.add(x["closure"])
                    b2 = facts.body(x["closure"])
                    if b2 is not None and mentions_adjoint(facts.root(b2), seen):
                        return True
            return False
        verdict = None
        destructive = None
        for nb in bodies:
            for node in walk(facts.root(nb)):
                if node.get("k") == "Call" and node["args"]:
                    recv = node["args"][0]
                    base = var_of(recv)
                    inner = peel(recv)
                    while isinstance(inner, dict) and inner.get("k") == "Call" and inner["args"] and base not in cellvars:
                        base = var_of(inner["args"][0])
                        inner = peel(inner["args"][0])
                    if base in cellvars and len(node["args"]) > 1 and any(mentions_adjoint(a) for a in node["args"][1:]):
                        verdict = (nb, node)
                    # a destructive read (take / replace / swap) of captured state: the first invocation empties what the second one needs
                    cn_ = callee(node) or ""
                    if base in cellvars and cn_.rsplit("::", 1)[-1] in ("take", "replace", "swap", "replace_with") and (cn_.startswith("core::cell::") or cn_.startswith("core::mem::")) \
                            and (node.get("ty") or "") not in ("()",):
                        destructive = destructive or (nb, node)
                if node.get("k") in ("Assign", "AssignOp"):
                    base = var_of(node["l"])
                    if base in cellvars and mentions_adjoint(node["r"]):
                        verdict = (nb, node)
        if destructive and not verdict:
            c.bad("closure:%s" % cb["def"], loc(destructive[0], destructive[1]),
                  "the derivative closure takes a value out of captured state (`%s`) and uses it: the first pass through this node leaves the state empty, so a second pass "
                  "(the same result again, or another result sharing this node) no longer computes the same derivative" % show(destructive[1])[:70])
        elif verdict:
            c.bad("closure:%s" % cb["def"], loc(verdict[0], verdict[1]),
                  "the derivative closure stores a value computed from its adjoint into captured state (`%s`): a second pass through this node sees the first pass's delta, "
                  "so gradients are no longer a linear function of the seed of the current pass" % show(verdict[1])[:70])
        else:
            c.ok("closure:%s" % cb["def"], where, "captured cell(s) %s never receive anything computed from the adjoint" % ", ".join(cap["var"] for cap in cells))
    c.floor("derivative closures", n, 17)
    return c


# ------------------------------------------------------------------ R46

def _r46_ctor_check(facts, c, adt, fname, where0):
    """every constructor of the optimizer stores its rate argument in the rate field as given"""
    n_ctor = 0
    for b in facts.bodies:
        root = facts.root(b)
        if root is None:
            continue
        pvars = {v for p in facts.params(b) if p.get("pat") for v, _, _, _ in pat_bindings(p["pat"])}
        for x in walk(root):
            if x.get("k") == "Adt" and x.get("adt") == adt:
                for f_ in x.get("fields") or []:
                    if f_.get("name") != fname:
                        continue
                    n_ctor += 1
                    e = strip(f_["e"])
                    cinst = "rate:%s" % b["def"]
                    src = e
                    for _ in range(6):      # clone / copy / borrow / deref of a place are the place's value
                        src = peel(src)
                        if isinstance(src, dict) and src.get("k") == "Call" and (callee(src) or "").endswith("::clone") and len(src.get("args") or []) == 1:
                            src = src["args"][0]
                        else:
                            break
                    s_root, s_chain = field_chain(src) if isinstance(src, dict) else (None, None)
                    if e.get("k") in ("VarRef", "UpvarRef") and e["v"] in pvars:
                        c.ok(cinst, loc(b, f_["e"]), "the rate field is the constructor's argument as given")
                    elif s_chain == [fname] and isinstance(s_root, dict) and adt in (s_root.get("ty") or ""):
                        c.ok(cinst, loc(b, f_["e"]), "the rate field is copied from the same field of another %s" % adt.split("::")[-1])
                    elif e.get("k") == "Literal" or (e.get("k") == "Unary" and strip(e.get("e") or {}).get("k") == "Literal"):
                        c.ok(cinst, loc(b, f_["e"]), "the rate field is a constant (no argument to carry)")
                    elif any(y.get("k") in ("VarRef", "UpvarRef") and y["v"] in pvars for y in walk(e)):
                        c.bad(cinst, loc(b, f_["e"]), "the constructor stores `%s`, not its rate argument as given: update then steps by a different rate than the one requested "
                              "(e.g. a negative rate loses its sign)" % show(e)[:60])
                    else:
                        c.unk(cinst, loc(b, f_["e"]), "where the stored rate `%s` comes from is not recognised" % show(e)[:60])
    if not n_ctor:
        c.unk("rate:%s" % adt, where0, "no construction of %s found in the crate" % adt)


def _r46_map_form(facts, c, u, inst, where0, fl):
    """the step written as `values.zip(gradients).map(|(x, g)| x - rate * g).collect()` (possibly in a helper function): the closure is read in
    the algebra, and which side of the zip holds the old values / the gradients is decided by where the two buffers were filled"""
    from .deriv_rules import Forward, Env, Abstain
    from .symalg import Unsupported
    bodies = _update_bodies(facts, u)
    gvars = _gradient_derived_vars(facts, bodies)
    by_def = {b["def"]: b for b in bodies}
    IT_ = "core::iter::traits::iterator::Iterator::"
    found = []
    for nb in bodies:
        for n in walk(facts.root(nb)):
            if not (n.get("k") == "Call" and callee(n) == IT_ + "map" and len(n["args"]) == 2):
                continue
            clo = strip(n["args"][1])
            if clo.get("k") != "Closure":
                continue
            cb = facts.body(clo["closure"])
            if cb is None or (cb.get("closure_output") or "") != fl:
                continue
            src = peel(n["args"][0])
            hops = 0
            while isinstance(src, dict) and src.get("k") == "Call" and callee(src) in (IT_ + "copied", IT_ + "cloned", "core::iter::traits::collect::IntoIterator::into_iter") and hops < 4:
                src = peel(src["args"][0])
                hops += 1
            if not (isinstance(src, dict) and src.get("k") == "Call" and callee(src) == IT_ + "zip" and len(src["args"]) == 2):
                continue
            found.append((nb, n, cb, src))
    if len(found) != 1:
        return False
    nb, n, cb, zp = found[0]

    def root_var(e):
        e = peel(e)
        hops = 0
        while isinstance(e, dict) and e.get("k") == "Call" and e.get("args") and hops < 6 and (callee(e) or "").rsplit("::", 1)[-1] in ("iter", "into_iter", "copied", "cloned", "iter_mut", "deref", "as_slice", "borrow", "as_ref"):
            e = peel(e["args"][0])
            hops += 1
        return var_of(e) if isinstance(e, dict) and e.get("k") in ("VarRef", "UpvarRef") else None
    sides = [root_var(zp["args"][0]), root_var(zp["args"][1])]
    if None in sides:
        c.unk(inst, loc(nb, n), "the two zipped buffers of the mapped step are not plain variables")
        return True
    # through a helper's parameters to the buffers of the caller
    owner = facts.body(nb.get("root", nb["def"])) or nb
    pmap = {}
    if owner["kind"] in ("Fn", "AssocFn") and owner["def"] != u["def"]:
        ps = [p_ for p_ in facts.params(owner) if p_.get("pat")]
        calls = [x for b2 in bodies for x in walk(facts.root(b2)) if x.get("k") == "Call" and resolved(x) == owner["def"]]
        if len(calls) != 1:
            c.unk(inst, loc(nb, n), "the helper that performs the step is called from %d places" % len(calls))
            return True
        for p_, a in zip(ps, calls[0]["args"]):
            if p_["pat"].get("k") == "Binding":
                pmap[p_["pat"]["v"]] = a
    roles = []
    for sv in sides:
        arg = pmap.get(sv)
        v = root_var(arg) if arg is not None else sv
        if v is None:
            roles.append(None)
        elif v in gvars:
            roles.append("g")
        else:
            # filled from the parameters' values?
            filled = any(x.get("k") == "Call" and callee(x) in ("core::iter::traits::collect::Extend::extend", "alloc::vec::Vec::<T, A>::extend_from_slice", "alloc::vec::Vec::<T, A>::push")
                         and var_of(x["args"][0]) == v and any(y.get("k") == "Call" and resolved(y) == "corgi::array::Array::values" for y in walk(x["args"][1]))
                         for b2 in bodies for x in walk(facts.root(b2)))
            roles.append("old" if filled else None)
    if sorted(r or "?" for r in roles) != ["g", "old"]:
        c.unk(inst, loc(nb, n), "which of the two zipped buffers holds the old values and which the gradients is not read (%s)" % roles)
        return True
    fw = Forward(facts)
    fw.ev.uninterp = True
    env = Env(None)
    ps = [p_ for p_ in facts.params(cb) if p_.get("pat")]
    binds = [v for p_ in ps for v, _, _, path in pat_bindings(p_["pat"])]
    if len(binds) != 2:
        c.unk(inst, loc(nb, n), "the closure of the mapped step does not bind exactly (value, gradient)")
        return True
    for v, role in zip(binds, roles):
        env[v] = ("s", fw.alg.atom(role))
    try:
        for pv, a in pmap.items():
            if pv not in sides:
                env[pv] = fw.ev.ev(a, Env(None))
        val = fw.ev.ev(facts.root(cb), env)
        if val[0] != "s":
            raise Abstain(str(val[1])[:100] if val[0] == "unk" else val[0])
        new = val[1]
        rates = sorted(a for a in new.atoms() if a.startswith("f:"))
        if len(rates) != 1:
            raise Abstain("the step does not use exactly one field of the optimizer (%s)" % rates)
        want = fw.alg.atom("old") - fw.alg.atom(rates[0]) * fw.alg.atom("g")
        if new.equals(want):
            c.ok(inst, loc(nb, n), "each element becomes old - %s x gradient (mapped over the zipped buffers)" % rates[0][2:])
        else:
            c.bad(inst, loc(nb, n), "the update computes %r for each element (`old` = the buffer filled from the parameters' values, `g` = the buffer filled from their gradients); "
                  "gradient descent is %r" % (new, want))
    except (Abstain, Unsupported, RecursionError) as ex:
        c.unk(inst, loc(nb, n), "the mapped step is outside the algebra (%s)" % ex)
    return True



def r46_update_formula(facts):
    """UPDATE-FORMULA: the element-wise store in Optimizer::update computes old - rate * gradient with `rate` a field of the optimizer, and every constructor of the optimizer stores its rate argument in that field as given"""
    from .deriv_rules import Forward, Env, Abstain
    from .symalg import Unsupported, Frac
    c = Ctx("R46", facts, "gradient descent: new value = old - learning rate x gradient; the rate is the constructor's argument as given")
    fl = facts.float or "f64"
    impls = [b for b in facts.fns() if b.get("impl_trait_def") == "corgi::optimizer::Optimizer" and b.get("name") == "update"]
    c.floor("Optimizer::update implementations", len(impls), 1)
    for u in impls:
        where0 = "%s:%d" % (rel(u["file"]), u["sp"][0])
        stores = []
        for nb in _update_bodies(facts, u):
            for n in walk(facts.root(nb)):
                if n.get("k") in ("Assign", "AssignOp"):
                    l = strip(n["l"])
                    if l.get("k") == "Deref" and (l.get("ty") or "") == fl and var_of(l["e"]):
                        stores.append((nb, n, var_of(l["e"])))
        inst = "formula:%s" % u["def"]
        if len(stores) == 0 and _r46_map_form(facts, c, u, inst, where0, fl):
            pass
        elif len(stores) != 1:
            c.unk(inst, where0, "expected one element-wise store `*x -= ..` through a `&mut Float` in update, found %d" % len(stores))
            continue
        if len(stores) != 1:
            nb, n, rates = u, facts.root(u), []
            for b2 in _update_bodies(facts, u):
                for x2 in walk(facts.root(b2)):
                    if x2.get("k") == "Field" and (x2.get("ty") or "") == fl and (x2.get("adt") or "") == (u.get("impl_self") or "").split("<")[0]:
                        rates = ["f:" + x2["name"]]
            if not rates:
                continue
            # fall through to the constructor check with the rate field found in the mapped form
            adt = u.get("impl_self")
            fname = rates[0][2:]
            _r46_ctor_check(facts, c, adt, fname, where0)
            continue
        nb, n, xv = stores[0]
        # every element is stepped: the store is not skipped for some elements (a threshold on the size of the step, a sign test)
        for n_, ctx_ in F.walk_ctx(facts.root(nb)):
            if n_ is n:
                gates = [fr for fr in ctx_ if fr[0] in ("if", "guard", "after", "logic") or (fr[0] == "arm" and not str(fr[1].get("source", "")).startswith("ForLoopDesugar"))]
                # only conditions on the NUMBERS of one element (a float-typed sub-expression): a per-parameter gate (`if let Some(g) = ..`) is R42's business
                gates = [fr for fr in gates if isinstance(fr[1], dict) and fr[1].get("cond") is not None and strip(fr[1]["cond"]).get("k") != "Let"
                         and any((x.get("ty") or "") in (fl, "&" + fl, "&mut " + fl) for x in walk(fr[1]["cond"]))]
                if gates:
                    cnd_ = gates[0][1].get("cond") if isinstance(gates[0][1], dict) else None
                    c.bad(inst + "#every-element", loc(nb, n), "the element-wise step is applied only under the condition `%s`: elements for which it fails keep their old value although gradient descent "
                          "moves every element by rate x gradient" % (show(cnd_)[:60] if cnd_ is not None else "?"))
        fw = Forward(facts)
        fw.ev.uninterp = True
        env = Env(None)
        gvars = []
        for p in facts.params(nb):
            if not p.get("pat"):
                continue
            for v, _, ty, _ in pat_bindings(p["pat"]):
                if v == xv:
                    env[v] = ("s", fw.alg.atom("old"))
                elif (ty or "").replace("&", "").replace("mut ", "").strip() == fl:
                    env[v] = ("s", fw.alg.atom("g"))
                    gvars.append(v)
        # captured `self`: fields become `f:<name>` atoms
        try:
            rhs = fw.ev.ev(n["r"], env)
            if rhs[0] != "s":
                raise Abstain(str(rhs[1])[:100] if rhs[0] == "unk" else rhs[0])
            old = fw.alg.atom("old")
            if n["k"] == "AssignOp":
                op = str(n.get("op")).replace("Assign", "")
                if op == "Sub":
                    new = old - rhs[1]
                elif op == "Add":
                    new = old + rhs[1]
                elif op == "Mul":
                    new = old * rhs[1]
                else:
                    raise Abstain("`%s=`" % op)
            else:
                new = rhs[1]
            rates = sorted(a for a in new.atoms() if a.startswith("f:"))
            import re as _re
            lossy = sorted(a for a in new.atoms() if _re.match(r"(p:)?(round32|trunc)\[", a))
            inner_rates = sorted({m_ for a in lossy for m_ in _re.findall(r"f:[A-Za-z_0-9]+", a)})
            if lossy and not rates and len(inner_rates) == 1 and len(gvars) == 1:
                c.bad(inst, loc(nb, n), "the update stores %r for each element: the step is rounded (%s) before it is applied; gradient descent is old - %s x gradient in the "
                      "precision of the values" % (new, lossy[0].split("[")[0].replace("p:", ""), inner_rates[0][2:]))
                rates = inner_rates
                raise StopIteration
            if len(gvars) != 1 or len(rates) != 1:
                raise Abstain("the store does not combine one gradient element with one field of the optimizer (%s; %s)" % (gvars, rates))
            want = old - fw.alg.atom(rates[0]) * fw.alg.atom("g")
            if new.equals(want):
                c.ok(inst, loc(nb, n), "each element becomes old - %s x gradient" % rates[0][2:])
            else:
                c.bad(inst, loc(nb, n), "the update stores %r for each element; gradient descent is %r" % (new, want))
        except StopIteration:
            pass
        except (Abstain, Unsupported, RecursionError) as ex:
            c.unk(inst, loc(nb, n), "the element-wise store is outside the algebra (%s)" % ex)
            continue
        _r46_ctor_check(facts, c, u.get("impl_self"), rates[0][2:], where0)
    return c


# ------------------------------------------------------------------ R48

def r48_update_does_not_need_unique_buffers(facts):
    """UPDATE-SHARED-READS: Optimizer::update reads parameters and gradients through shared views; it never moves an array's buffer out (Vec::from(array), Rc::try_unwrap / into_inner / get_mut + unwrap), which panics whenever the buffer is shared - a gradient delivered unchanged by an addition or a reshape shares its buffer with the delta above it"""
    c = Ctx("R48", facts, "Optimizer::update does not require unique ownership of array buffers")
    fl = facts.float or "f64"
    impls = [b for b in facts.fns() if b.get("impl_trait_def") == "corgi::optimizer::Optimizer" and b.get("name") == "update"]
    c.floor("Optimizer::update implementations", len(impls), 1)
    for u in impls:
        where0 = "%s:%d" % (rel(u["file"]), u["sp"][0])
        hit = None
        n_reads = 0
        for nb in _update_bodies(facts, u):
            for n in walk(facts.root(nb)):
                if n.get("k") != "Call":
                    continue
                r, cn = resolved(n) or "", callee(n) or ""
                if r in ("corgi::array::Array::values", "corgi::array::Array::dimensions"):
                    n_reads += 1
                arg_tys = [(a.get("ty") or "") for a in n["args"] if isinstance(a, dict)]
                if r.startswith("<alloc::vec::Vec<%s> as core::convert::From<%s>>" % (fl, ARRAY)) or \
                        (cn in ("core::convert::Into::into", "core::convert::From::from") and ARRAY in arg_tys and "Vec<%s>" % fl in (n.get("ty") or "")):
                    hit = hit or (nb, n, "`%s` moves the values out of an array" % show(n)[:60])
                elif cn in ("alloc::rc::Rc::<T>::try_unwrap", "alloc::rc::Rc::<T, A>::try_unwrap", "alloc::rc::Rc::<T>::into_inner", "alloc::rc::Rc::<T, A>::into_inner",
                            "alloc::rc::Rc::<T>::get_mut", "alloc::rc::Rc::<T, A>::get_mut"):
                    hit = hit or (nb, n, "`%s` needs the only reference to a buffer" % show(n)[:60])
        inst = "shared-reads:%s" % u["def"]
        if hit:
            c.bad(inst, loc(hit[0], hit[1]), "%s: this panics (or silently skips) whenever the buffer is shared, and a gradient that was delivered unchanged by an addition, "
                  "a reshape or a caller-held seed shares its buffer; update would stop half-way, with some parameters stepped and some gradients already taken" % hit[2])
        else:
            c.ok(inst, where0, "parameters and gradients are read through `values()` / `dimensions()` only (%d reads); nothing requires unique ownership of a buffer" % n_reads)
    return c


# ------------------------------------------------------------------ R50

def r50_only_update_reseats_handles(facts):
    """HANDLE-RESEAT: the only place where an existing array handle is made to show another array (`*p = ..`, mem::replace / swap / take through a `&mut Array`) is Optimizer::update; no forward pass, backward pass or accessor replaces what a handle shows"""
    c = Ctx("R50", facts, "only Optimizer::update re-seats an array handle")
    impls = [b for b in facts.fns() if b.get("impl_trait_def") == "corgi::optimizer::Optimizer" and b.get("name") == "update"]
    allowed = set()
    for u in impls:
        for nb in _update_bodies(facts, u):
            allowed.add(nb["def"])
    MUT = "&mut " + ARRAY
    n_sites = 0
    for b in facts.bodies:
        root = facts.root(b)
        if root is None:
            continue
        for n in walk(root):
            site = None
            if n.get("k") == "Assign":
                l = strip(n["l"])
                if l.get("k") == "Deref" and (strip(l["e"]).get("ty") or "") in (MUT, "&mut " + MUT):
                    site = "`%s = ..`" % show(l)[:40]
            elif n.get("k") == "Call" and (callee(n) or "") in ("core::mem::replace", "core::mem::swap", "core::mem::take") and n["args"] \
                    and (strip(n["args"][0]).get("ty") or "") == MUT:
                site = "`%s`" % show(n)[:50]
            if site is None:
                continue
            n_sites += 1
            inst = "reseat:%s" % b["def"]
            # the caller's OWN handle, handed over by `&mut self` to a public operation named by the caller (`c += &x`): the exclusive borrow
            # means no other handle is involved - it is the assignment `c = &c + &x` the caller could have written
            own = False
            if b["kind"] in ("Fn", "AssocFn") and n.get("k") == "Assign":
                ps_ = [p_ for p_ in facts.params(b) if p_.get("pat")]
                tgt_ = strip(strip(n["l"])["e"])
                if ps_ and ps_[0].get("self") and ps_[0]["pat"].get("k") == "Binding" and (ps_[0].get("ty") or "") == MUT \
                        and isinstance(tgt_, dict) and tgt_.get("k") in ("VarRef",) and tgt_["v"] == ps_[0]["pat"]["v"] \
                        and (b.get("impl_self") == ARRAY or (b.get("impl_trait_def") or "").startswith("core::ops::arith::")):
                    own = True
            if b["def"] in allowed:
                c.ok(inst, loc(b, n), "a parameter handle is re-seated inside Optimizer::update")
            elif own:
                c.ok(inst, loc(b, n), "an operation on `&mut self` rebinds the caller's own handle (exclusive borrow: no other handle shows the change)", nontrivial=False)
            else:
                c.bad(inst, loc(b, n), "%s makes an existing handle show another array outside Optimizer::update: the dimensions / values seen through that handle change "
                      "without an update (a clone taken before still shows the old array, so the handle and its clones disagree)" % site)
    c.floor("stores through a `&mut Array`", n_sites, 1)
    return c


# ------------------------------------------------------------------ R52

def r52_model_update_delegates(facts):
    """MODEL-UPDATE: Model::update hands the parameters of EVERY layer to its optimizer's update, unconditionally (a model that never calls the optimizer, or leaves a layer out, does not train those parameters)"""
    c = Ctx("R52", facts, "Model::update passes all layers' parameters to Optimizer::update on every path")
    ups = [b for b in facts.fns() if b.get("name") == "update" and (b.get("impl_self") or "").startswith("corgi::model::Model") and b.get("impl_trait_def") is None]
    c.floor("Model::update", len(ups), 1)
    for u in ups:
        where0 = "%s:%d" % (rel(u["file"]), u["sp"][0])
        calls = []
        for n, ctx in F.walk_ctx(facts.root(u)):
            if n.get("k") == "Call" and (callee(n) == "corgi::optimizer::Optimizer::update" or (resolved(n) or "").endswith("as corgi::optimizer::Optimizer>::update")):
                cond = any(len(fr) >= 3 and (fr[0] in ("if", "guard", "logic") or (fr[0] == "arm" and not str(fr[1].get("source", "")).startswith("ForLoopDesugar"))) for fr in ctx)
                calls.append((n, cond))
        inst = "model-update:%s" % u["def"]
        if not calls:
            c.bad(inst, where0, "Model::update never calls the optimizer's update: no parameter of the model is ever stepped")
            continue
        # an early return in front of the call skips the step (and leaves the gradients in place) whenever its condition holds
        skipped = None
        for n_, ctx_ in F.walk_ctx(facts.root(u)):
            if any(n_ is x for x, _ in calls):
                for fr in ctx_:
                    if fr[0] == "after" and isinstance(fr[1], dict):
                        cnd = fr[1].get("cond")
                        about_layers = any(x.get("k") == "Field" and x.get("name") == "layers" for x in walk(cnd)) if cnd is not None else False
                        if not about_layers:
                            skipped = skipped or fr[1]
        if skipped is not None:
            c.bad(inst + "#early-exit", loc(u, skipped), "Model::update returns before calling the optimizer when `%s`: on those iterations no parameter is stepped and the gradients stay "
                  "in place, so the next backward pass adds to them" % show(skipped.get("cond"))[:60])
        if all(cond for _, cond in calls):
            c.unk(inst, loc(u, calls[0][0]), "the optimizer's update is called under a condition")
            continue
        n = [x for x, cond in calls if not cond][0]
        # its argument: the result of a crate-local function on self that collects parameters from the layers
        env = {}
        for x in walk(facts.root(u)):
            if x.get("k") == "Block":
                for st in x["stmts"]:
                    if st["s"] == "let" and st["pat"].get("k") == "Binding" and st.get("init") is not None:
                        env[st["pat"]["v"]] = st["init"]
        a = strip(n["args"][1]) if len(n["args"]) > 1 else None
        hops = 0
        while isinstance(a, dict) and a.get("k") == "VarRef" and a["v"] in env and hops < 4:
            a = strip(env[a["v"]])
            hops += 1
        pb = facts.body(resolved(a)) if isinstance(a, dict) and a.get("k") == "Call" and (a.get("callee") or {}).get("resolved_local") else None
        if pb is None:
            c.unk(inst, loc(u, n), "what is handed to the optimizer (`%s`) is not the result of a crate-local parameter collector" % (show(a)[:50] if isinstance(a, dict) else "?"))
            continue
        # the collector walks self.layers completely
        selective = None
        mentions_layers = False
        for x in (y for nb in facts.nested(pb) for y in walk(facts.root(nb))):
            if x.get("k") == "Field" and x.get("name") == "layers":
                mentions_layers = True
            if x.get("k") == "Call" and (callee(x) or "").rsplit("::", 1)[-1] in ("skip", "take", "filter", "step_by", "skip_while", "take_while", "filter_map", "nth", "last", "first"):
                selective = selective or x
        # a parameter is collected under a condition (de-duplication by value, a test on the array): some parameters are left out
        for nb_ in facts.nested(pb):
            for x, ctx_ in F.walk_ctx(facts.root(nb_)):
                if x.get("k") == "Call" and callee(x) in ("alloc::vec::Vec::<T, A>::push", "core::iter::traits::collect::Extend::extend") and any(
                        fr[0] in ("if", "guard", "after") or (fr[0] == "arm" and not str(fr[1].get("source", "")).startswith("ForLoopDesugar")) for fr in ctx_):
                    selective = selective or x
        calls_layer_params = any(x.get("k") == "Call" and (callee(x) == "corgi::layer::Layer::parameters" or (resolved(x) or "").endswith("::parameters")) for nb in facts.nested(pb) for x in walk(facts.root(nb)))
        if not mentions_layers or not calls_layer_params:
            c.unk(inst, loc(pb, facts.root(pb)), "the parameter collector does not visibly walk self.layers calling Layer::parameters")
        elif selective is not None:
            c.bad(inst, loc(pb, selective), "the parameter collector leaves layers or parameters out (`%s`): those parameters are never handed to the optimizer" % show(selective)[:60])
        else:
            c.ok(inst, loc(u, n), "Optimizer::update receives the parameters of every layer, unconditionally")
    # Model::backward differentiates the cost on every path: a return in front of the pass (a loss of zero, a tolerance) leaves the
    # parameters without the gradient of this iteration although the loss's gradient need not vanish where the loss does
    mbs = [b for b in facts.fns() if b.get("name") == "backward" and (b.get("impl_self") or "").startswith("corgi::model::Model") and b.get("impl_trait_def") is None]
    for mb in mbs:
        inst = "model-backward:%s" % mb["def"]
        def _is_pass(n_):
            if n_.get("k") != "Call" or not (resolved(n_) or "").endswith("::backward"):
                return False
            tb = facts.body(resolved(n_))
            return tb is not None and tb.get("impl_self") == ARRAY and tb.get("name") == "backward"
        passes = [(n_, ctx_) for n_, ctx_ in F.walk_ctx(facts.root(mb)) if _is_pass(n_)]
        if not passes:
            if any(x.get("k") == "Call" and (x.get("callee") or {}).get("resolved_local") and (resolved(x) or "").startswith("corgi::model::") for x in walk(facts.root(mb))):
                c.unk(inst, "%s:%d" % (rel(mb["file"]), mb["sp"][0]), "Model::backward does not call Array::backward itself (a helper may)")
            else:
                c.bad(inst, "%s:%d" % (rel(mb["file"]), mb["sp"][0]), "Model::backward never starts a backward pass: no parameter ever receives a gradient")
            continue
        n_, ctx_ = passes[0]
        early = [fr[1] for fr in ctx_ if fr[0] == "after" and isinstance(fr[1], dict)]
        cond_ = [fr for fr in ctx_ if len(fr) >= 3 and (fr[0] in ("if", "guard", "logic") or (fr[0] == "arm" and not str(fr[1].get("source", "")).startswith("ForLoopDesugar")))]
        if early:
            c.bad(inst, loc(mb, early[0]), "Model::backward returns before the backward pass when `%s`: on those iterations the parameters get no gradient although the loss's gradient "
                  "need not be zero there" % show(early[0].get("cond"))[:60])
        elif cond_:
            c.unk(inst, loc(mb, n_), "the backward pass of the cost is started under a condition")
        else:
            c.ok(inst, loc(mb, n_), "the cost is differentiated on every path through Model::backward")
    # every layer hands out all of its array-typed fields
    from .repr_rules import vec_literal_elems
    lps = [b for b in facts.fns() if b.get("impl_trait_def") == "corgi::layer::Layer" and b.get("name") == "parameters" and b.get("thir")]
    c.floor("Layer::parameters implementations", len(lps), 2)
    for b in lps:
        adt = b.get("impl_self") or ""
        adt_key = adt.split("<")[0]
        try:
            flds = facts.adt_fields(adt_key) or []
        except Exception:
            flds = []
        arr_fields = sorted(f_["name"] for f_ in flds if f_.get("ty") == ARRAY)
        inst = "layer-parameters:%s" % adt_key
        where = "%s:%d" % (rel(b["file"]), b["sp"][0])
        root = strip(facts.root(b))
        while isinstance(root, dict) and root.get("k") == "Block" and not root["stmts"] and root.get("e") is not None:
            root = strip(root["e"])
        els = vec_literal_elems(root) if isinstance(root, dict) else None
        if els is None or not arr_fields:
            c.unk(inst, where, "parameters() is not a vector literal of the layer's array fields (or the layer's fields are not visible)")
            continue
        got = []
        for e_ in els:
            r_, ch = field_chain(e_)
            if var_of(r_) == self_var(facts, b) and len(ch) == 1:
                got.append(ch[0])
        missing = [f_ for f_ in arr_fields if f_ not in got]
        if missing:
            c.bad(inst, where, "%s::parameters() does not hand out the array field(s) %s: they are never updated by the optimizer" % (adt_key.rsplit("::", 1)[-1], missing))
        elif len(got) != len(set(got)):
            c.bad(inst, where, "%s::parameters() hands out a field twice (%s)" % (adt_key.rsplit("::", 1)[-1], got))
        else:
            c.ok(inst, where, "parameters() hands out every array field of the layer once (%s)" % ", ".join(got))
    return c


# ------------------------------------------------------------------ R53

def r53_replace_gradient_clears(facts):
    """GRADIENT-TAKE: the accessor the optimizer uses to take a gradient (`replace_gradient`) leaves the slot EMPTY on every path: a gradient that is only copied out is added to again by the next pass"""
    c = Ctx("R53", facts, "replace_gradient empties the gradient slot")
    fns = [b for b in facts.fns() if b.get("impl_self") == ARRAY and b.get("impl_trait_def") is None and b.get("name") == "replace_gradient" and b.get("thir")]
    c.floor("Array::replace_gradient", len(fns), 1)
    for b in fns:
        where = "%s:%d" % (rel(b["file"]), b["sp"][0])
        sv = self_var(facts, b)
        clears = []
        conditional = False
        for n, ctx in F.walk_ctx(facts.root(b)):
            if n.get("k") != "Call" or not n.get("args"):
                continue
            cn = callee(n) or ""
            tail = cn.rsplit("::", 1)[-1]
            touches_slot = any(x.get("k") == "Field" and x.get("adt") == ARRAY and "RefCell" in (x.get("ty") or "") + (strip(x).get("ty") or "") or
                               (x.get("k") == "Field" and x.get("name") == "gradient" and var_of(x["e"]) == sv) for x in walk(n["args"][0]))
            if not touches_slot:
                # through an accessor that hands out the slot mutably (`self.gradient_mut().take()`)
                touches_slot = any(x.get("k") == "Call" and (x.get("callee") or {}).get("resolved_local") and "RefMut<" in (x.get("ty") or "") and ARRAY in (x.get("ty") or "")
                                   for x in walk(n["args"][0]))
            if not touches_slot:
                continue
            is_clear = False
            if cn.startswith("core::cell::RefCell::<T>::") and tail in ("replace", "take", "swap") and (tail == "take" or (len(n["args"]) > 1 and _is_none_expr(n["args"][1]))):
                is_clear = True
            if cn.startswith("core::option::Option::<T>::") and tail in ("take",):
                is_clear = True
            if cn in ("core::mem::take",) or (cn == "core::mem::replace" and len(n["args"]) > 1 and _is_none_expr(n["args"][1])):
                is_clear = True
            if is_clear:
                clears.append(n)
                if any(len(fr) >= 3 and fr[0] in ("if", "arm", "guard", "logic") and not (fr[0] == "arm" and str(fr[1].get("source", "")).startswith("ForLoopDesugar")) for fr in ctx):
                    conditional = True
        # an assignment `*slot = None`
        for n in walk(facts.root(b)):
            if n.get("k") == "Assign" and _is_none_expr(n["r"]) and any(x.get("k") == "Field" and x.get("name") == "gradient" for x in walk(n["l"])):
                clears.append(n)
        inst = "take:%s" % b["def"]
        delegates = any(x.get("k") == "Call" and (x.get("callee") or {}).get("resolved_local") and "Ref<" not in (x.get("ty") or "") and "RefMut<" not in (x.get("ty") or "")
                        for x in walk(facts.root(b)))
        if not clears and delegates:
            c.unk(inst, where, "replace_gradient delegates to another crate-local function: whether the slot is emptied is not read")
        elif not clears:
            c.bad(inst, where, "replace_gradient never empties the gradient slot (it only reads / copies it): the optimizer's step leaves every gradient in place, and the next pass adds to it")
        elif conditional:
            c.unk(inst, loc(b, clears[0]), "the slot is emptied under a condition")
        else:
            c.ok(inst, loc(b, clears[0]), "the gradient slot is emptied (replace / take with None) unconditionally")
    # ... and only the optimizer takes gradients: library code that clears or replaces a gradient anywhere else (the model's forward or
    # backward, a layer) throws away what earlier passes accumulated for the next update
    upd = set()
    for u in facts.fns():
        if u.get("impl_trait_def") == "corgi::optimizer::Optimizer" and u.get("name") == "update":
            upd |= {nb["def"] for nb in _update_bodies(facts, u)}
    n_calls = 0
    # the passes of the training loop: the model's forward / backward, the layers' forward, and the crate-local functions they call
    from .repr_rules import callees_closure
    passes = set()
    for x in facts.fns():
        if (x.get("name") in ("forward", "backward") and (x.get("impl_self") or "").startswith("corgi::model::Model") and x.get("impl_trait_def") is None) \
                or (x.get("name") == "forward" and x.get("impl_trait_def") == "corgi::layer::Layer"):
            passes |= {y["def"] for y in callees_closure(facts, x, depth=2)}
    for b in facts.bodies:
        root = facts.root(b)
        if root is None or b.get("impl_self") == ARRAY and b.get("name") in ("replace_gradient", "gradient_mut"):
            continue
        rb = facts.body(b.get("root", b["def"])) or b
        for n in walk(root):
            if n.get("k") == "Call" and resolved(n) in ("corgi::array::Array::replace_gradient", "corgi::array::Array::gradient_mut"):
                n_calls += 1
                inside = b["def"] in upd or rb["def"] in upd
                if not inside and b["def"] not in passes and rb["def"] not in passes:
                    c.ok("take-site:%s" % rb["def"], loc(b, n), "a gradient accessor used outside the passes of the training loop (an entry point of its own)", nontrivial=False)
                    continue
                c.check(inside, "take-site:%s" % rb["def"], loc(b, n), "gradients are taken inside Optimizer::update",
                        "`%s` is called in %s: the forward and backward passes of the training loop never clear or replace a gradient (what earlier backward passes accumulated "
                        "for the next update would be lost)" % (resolved(n).rsplit("::", 1)[-1], rb["def"]))
    c.count("gradient-taking call sites in the library", n_calls)
    return c


def _is_none_expr(e):
    e = strip(e)
    return isinstance(e, dict) and e.get("k") == "Adt" and e.get("variant") == "None"
