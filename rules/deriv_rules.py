"""R33 DERIVATIVE-FORMULA: for every element-wise operation the backward closure's slot equals
(adjoint) x (syntactic derivative of the forward scalar map).

Forward and backward closure are *sibling implementations* that must agree through the
derivative relation.  Both are translated — from the THIR, nothing is executed — into the
exact algebra of `symalg` (fractions of Laurent polynomials over the atoms a0, a1 = one
element of operand 0 / 1, D = the matching element of the adjoint, p:<name> = scalar
parameters): the forward map by reading the constructor's value computation (iterator
pipelines over `values`, the element-wise combinator and the float closure it is given,
private helpers), the backward slot by reading the closure at the array level, where a call
of another element-wise constructor denotes that constructor's own forward map.  The
forward map is differentiated symbolically and the two sides are compared by
cross-multiplication.  Anything outside the fragment (shape-changing operations, loops,
unknown callees) makes the constructor abstain; a violation is reported only when both
sides were translated completely and differ as rational functions."""

from . import facts as F
from .core import Ctx
from .facts import callee, resolved, strip, peel, lit_value, walk, is_backward_closure, ARRAY
from .show import show
from .symalg import Algebra, Frac, Poly, PW, Unsupported, lift, lift1, same, lf, lf_const
from .repr_rules import vec_literal_elems
from .engine_rules import closure_slots

OPTION = "core::option::Option"
ARITH = {"core::ops::arith::Add::add": "Add", "core::ops::arith::Sub::sub": "Sub", "core::ops::arith::Mul::mul": "Mul",
         "core::ops::arith::Div::div": "Div"}
PASS = ("core::clone::Clone::clone", "alloc::borrow::ToOwned::to_owned", "alloc::rc::Rc::<T>::new", "alloc::boxed::Box::<T>::new",
        "core::ops::deref::Deref::deref", "core::borrow::Borrow::borrow", "core::convert::AsRef::as_ref", "core::convert::Into::into",
        "alloc::slice::<impl [T]>::to_vec", "alloc::vec::Vec::<T, A>::as_slice", "core::slice::<impl [T]>::iter",
        "core::iter::traits::collect::IntoIterator::into_iter", "core::iter::traits::iterator::Iterator::copied",
        "core::iter::traits::iterator::Iterator::cloned", "core::iter::traits::iterator::Iterator::collect", "core::convert::identity",
        "corgi::array::Array::with_children", "corgi::array::Array::with_backward_op", "corgi::array::Array::tracked",
        "corgi::array::Array::untracked")
FROM_ARRAY = "<corgi::array::Array as core::convert::From<("
# shape-changing / reducing array functions of the public API: opaque function symbols for the formula rules R34 / R35
UNINTERPRETED = ("matmul", "conv", "sum", "sum_all")


class Abstain(Exception):
    pass


class Lazy:
    def __init__(self, e, env):
        self.e, self.env, self.val, self.busy = e, env, None, False


class Env(dict):
    def __init__(self, parent=None):
        super().__init__()
        self.parent = parent

    def lookup(self, v):
        e = self
        while e is not None:
            if v in e:
                return dict.__getitem__(e, v)
            e = e.parent
        return None


class SymEval:
    """values: ('s', Frac|PW) scalar | ('v', Frac|PW) vector of floats, element-wise | ('arr', Frac|PW) array, element-wise
    | ('zip', [..]) | ('tup', [..]) | ('vecA', [..]) | ('opt', v|None) | ('alt', [..]) | ('clo', def, env) | ('fn', op)
    | ('dims',) | ('unk', why)"""

    def __init__(self, facts, alg, ctor_forward):
        self.facts = facts
        self.alg = alg
        self.fl = facts.float or "f64"
        self.ctor_forward = ctor_forward      # callback: (ctor body, [arg values]) -> value
        self.depth = 0
        self.divisors = []                    # every value something was divided by (syntactically) since the last reset
        self.detach = False                   # R45: a number taken out of an array by position becomes an atom of its own
        self.uninterp = False                 # R34/R35: shape-changing array functions and callable fields become opaque atoms

    # ------------------------------------------------------------ environment
    def force(self, v):
        if isinstance(v, Lazy):
            if v.val is None:
                if v.busy:
                    return ("unk", "cyclic binding")
                v.busy = True
                v.val = self.ev(v.e, v.env)
                v.busy = False
            return v.val
        if isinstance(v, tuple) and v and v[0] == "proj":
            b = self.force(v[1])
            if b[0] in ("tup", "zip") and v[2] < len(b[1]):
                x = self.force(b[1][v[2]])
                return ("s", x[1]) if b[0] == "zip" and x[0] in ("v", "s") else x
            return ("unk", "projection of %s" % b[0])
        return v

    def bind(self, pat, val, env):
        k = pat.get("k") if isinstance(pat, dict) else None
        if k == "Binding":
            env[pat["v"]] = val
            if isinstance(pat.get("sub"), dict):
                self.bind(pat["sub"], val, env)
        elif k in ("Deref", "DerefPattern"):
            self.bind(pat["sub"], val, env)
        elif k == "Leaf":
            for s in pat["subs"]:
                self.bind(s["pat"], ("proj", val, s["idx"]), env)
        elif k in ("Wild", "Missing", None):
            return
        else:
            for v, _, _, _ in F.pat_bindings(pat):
                env[v] = ("unk", "pattern %s" % k)

    def block_env(self, blk, env):
        e2 = Env(env)
        for s in blk["stmts"]:
            if s["s"] == "let" and s.get("init") is not None and s.get("else") is None:
                self.bind(s["pat"], Lazy(s["init"], e2), e2)
            elif s["s"] == "let":
                for v, _, _, _ in F.pat_bindings(s["pat"]):
                    e2[v] = ("unk", "let without initialiser")
            else:
                # a statement with effects (assignment, loop, push): the straight-line fragment ends here
                e_ = strip(s["e"])
                if isinstance(e_, dict) and e_.get("k") in ("Assign", "AssignOp", "Loop", "Match") and not (e_.get("k") == "Match" and False):
                    for x in walk(e_):
                        if x.get("k") in ("Assign", "AssignOp"):
                            v = F.var_of(x["l"])
                            if v:
                                e2[v] = ("unk", "variable assigned in a statement")
        return e2

    # ------------------------------------------------------------ evaluation
    def ev(self, e, env):
        self.depth += 1
        try:
            if self.depth > 90:
                return ("unk", "expression too deep")
            return self._ev(e, env)
        except Unsupported as ex:
            return ("unk", "outside the algebra: %s" % ex)
        finally:
            self.depth -= 1

    def scalar(self, v):
        v = self.force(v)
        if v[0] == "s":
            return v[1]
        raise Abstain("expected a scalar, found %s%s" % (v[0], (": " + str(v[1])[:60]) if v[0] == "unk" else ""))

    def _ev(self, e, env):
        e = strip(e)
        if not isinstance(e, dict):
            return ("unk", "no expression")
        k = e.get("k")
        ty = e.get("ty") or ""
        if k in ("VarRef", "UpvarRef"):
            v = env.lookup(e["v"])
            if v is None:
                return ("unk", "unbound variable %s" % e["v"].split("#")[0])
            return self.force(v)
        if k == "Literal":
            lv = lit_value(e)
            if isinstance(lv, bool):
                return ("b", lv)
            if lv is None:
                return ("unk", "literal")
            from fractions import Fraction
            txt = e["lit"]
            for suf in ("f64", "f32", "usize", "i32"):
                if txt.endswith(suf):
                    txt = txt[:-len(suf)]
            txt = txt.rstrip("_").replace("_", "")
            try:
                fr = Fraction(txt)
            except (ValueError, ZeroDivisionError):
                return ("unk", "literal %s" % txt)
            if e.get("neg"):
                fr = -fr
            return ("s", Frac(fr))
        if k in ("Borrow", "Deref", "RawBorrow", "Scope", "Use"):
            return self.ev(e["e"], env)
        if k == "Cast":
            src_ty = (strip(e["e"]).get("ty") or "") if isinstance(e.get("e"), dict) else ""
            if src_ty in ("f64", "f32") and (e.get("ty") or "") not in ("f64", "f32"):
                # truncation towards zero, saturating: an opaque function of the value (never the value itself)
                inner = self.ev(e["e"], env)
                if inner[0] == "s" and not isinstance(inner[1], PW):
                    return ("s", self.alg.atom("p:trunc[%r]" % inner[1]))
                return ("unk", "a float-to-integer cast truncates and saturates (not the identity)")
            INTW = {"u8": 8, "u16": 16, "u32": 32, "u64": 64, "usize": 64, "u128": 128, "i8": 7, "i16": 15, "i32": 31, "i64": 63, "isize": 63, "i128": 127}
            dst_ty = e.get("ty") or ""
            if src_ty in INTW and dst_ty in INTW and INTW[dst_ty] < INTW[src_ty]:
                # a narrowing integer cast keeps the low bits only: an opaque function of the value
                inner = self.ev(e["e"], env)
                if inner[0] == "s" and not isinstance(inner[1], PW):
                    return ("s", self.alg.atom("p:narrow[%s|%r]" % (dst_ty, inner[1])))
                return ("unk", "a narrowing integer cast (not the identity)")
            if src_ty == "f64" and (e.get("ty") or "") == "f32":
                # rounding to single precision: an opaque function of the value (a later widening does not bring the lost digits back)
                inner = self.ev(e["e"], env)
                if inner[0] == "s" and not isinstance(inner[1], PW):
                    ats = inner[1].atoms()
                    pre = "p:" if ats and all(a.startswith("p:") for a in ats) else ""
                    return ("s", self.alg.atom("%sround32[%r]" % (pre, inner[1])))
                return ("unk", "a narrowing float cast rounds (not the identity)")
            return self.ev(e["e"], env)
        if k == "Unary" and e.get("op") == "Neg":
            v = self.ev(e["e"], env)
            return self.map1(v, lambda x: -x)
        if k == "Binary" and e.get("op") in ("Div", "Rem") and (e.get("ty") or "") in ("usize", "u8", "u16", "u32", "u64", "u128", "isize", "i8", "i16", "i32", "i64", "i128"):
            # integer division rounds towards zero: an opaque function of its operands, not their quotient
            l_, r_ = self.ev(e["l"], env), self.ev(e["r"], env)
            if l_[0] == "s" and r_[0] == "s" and not isinstance(l_[1], PW) and not isinstance(r_[1], PW):
                return ("s", self.alg.atom("p:i%s[%r|%r]" % (e["op"].lower(), l_[1], r_[1])))
            return ("unk", "integer division")
        if k == "Binary" and e.get("op") in ("Add", "Sub", "Mul", "Div"):
            return self.arith(e["op"], self.ev(e["l"], env), self.ev(e["r"], env))
        if k == "Tuple":
            return ("tup", [Lazy(x, env) for x in e["fields"]])
        if k == "Array":
            return ("vecA", [Lazy(x, env) for x in e["fields"]])
        if k == "Field":
            if e.get("adt") == ARRAY:
                base = self.ev(e["e"], env)
                if base[0] == "arr" and e.get("name") == "values":
                    return ("v", base[1])
                if e.get("name") == "dimensions":
                    return ("dims", repr(base[1]) if base[0] == "arr" else "?")
                return ("unk", "field %s" % e.get("name"))
            if self.uninterp and e.get("adt") and e.get("adt_local"):
                # a field of a layer / model / optimizer struct: an opaque named value of the field's type
                nm = "f:%s" % e.get("name")
                fty = e.get("ty") or ""
                if fty in (ARRAY, "&" + ARRAY):
                    return ("arr", self.alg.atom(nm))
                if fty == "core::option::Option<%s>" % ARRAY:
                    return ("opt", ("arr", self.alg.atom(nm)))
                if "dyn" in fty and "Fn" in fty or "Activation" in fty or "CostFunction" in fty or "Initializer" in fty:
                    return ("ufn?", nm) if fty.startswith("core::option::Option<") else ("ufn", nm)
                if fty == self.fl:
                    return ("s", self.alg.atom(nm))
                return ("opaque", nm)
            base = self.ev(e["e"], env)
            idx = e.get("idx")
            if idx is not None:
                return self.force(("proj", base, idx))
            return ("unk", "field")
        if k == "Index":
            base = self.ev(e["e"], env)
            i = lit_value(e["i"])
            if base[0] == "vecA" and isinstance(i, int) and 0 <= i < len(base[1]):
                return self.force(base[1][i])
            if base[0] == "v":
                if self.detach and not isinstance(base[1], PW):
                    return ("s", self.alg.atom("elem[%r]" % base[1]))
                be = peel(e["e"])
                whole = isinstance(be, dict) and ((be.get("k") == "Field" and be.get("name") == "values" and be.get("adt") == ARRAY) or
                                                  (be.get("k") == "Call" and resolved(be) == "corgi::array::Array::values"))
                if whole and isinstance(i, int) and not isinstance(base[1], PW) and not (i == 0 and base[1].atoms() and set(base[1].atoms()) <= getattr(self, "single_atoms", set())):
                    # a FIXED position of an operand's whole buffer: one particular number, not the element that varies with the position
                    return ("s", self.alg.atom("elem%d[%r]" % (i, base[1])))
                return ("s", base[1])          # one element of an element-wise vector
            if base[0] == "dims" and isinstance(i, int) and self.uninterp:
                return ("s", self.alg.atom("dim%d[%s]" % (i, base[1])))
            return ("unk", "index of %s" % base[0])
        if k == "Match" and self.uninterp:
            return self.ev_match(e, env)
        if k == "Adt" and e.get("adt") == OPTION:
            if e.get("variant") == "Some":
                return ("opt", self.ev(e["fields"][0]["e"], env))
            return ("opt", None)
        if k == "Block":
            if e.get("e") is None:
                return ("unk", "block without value")
            for st in e["stmts"]:
                if st["s"] == "expr" and any(x.get("k") == "Return" for x in walk(st["e"])):
                    return ("unk", "early return inside a statement")
            return self.ev(e["e"], self.block_env(e, env))
        if k == "If":
            return self.ev_if(e, env)
        if k == "Closure":
            return ("clo", e["closure"], env)
        if k == "FnItem":
            p = (e.get("fn") or {}).get("path")
            if p in ARITH and (e.get("fn") or {}).get("gargs", [None])[0] == self.fl:
                return ("fn", ARITH[p])
            return ("unk", "function item %s" % p)
        if k == "Call":
            return self.call(e, env)
        if k == "NamedConst":
            d = e.get("def") or ""
            last = d.rsplit("::", 1)[-1]
            if last in ("EPSILON", "MIN_POSITIVE", "MAX") and ("f64" in d or "f32" in d):
                return ("s", self.alg.atom("const+:%s" % last))      # a positive constant of the float type
            return ("unk", "constant %s" % d)
        return ("unk", "expression kind %s" % k)

    def ev_if(self, e, env):
        cond = strip(e["cond"])
        if cond.get("k") == "Let" and e.get("else") is not None and self.uninterp:
            # `if let Some(f) = opt { A } else { B }` is the two-armed match
            fake = {"k": "Match", "scrutinee": cond["e"], "arms": [
                {"pat": cond["pat"], "guard": None, "body": e["then"]},
                {"pat": {"k": "Variant", "adt": OPTION, "variant": "None", "subs": []}, "guard": None, "body": e["else"]}]}
            p = cond["pat"]
            while isinstance(p, dict) and p.get("k") in ("Deref", "DerefPattern"):
                p = p["sub"]
            if p.get("k") == "Variant" and p.get("adt") == OPTION and p.get("variant") == "Some":
                return self.ev_match(fake, env)
        if cond.get("k") == "Let" and e.get("else") is not None and self.uninterp:
            # `if let <pattern over the shape> = dims { A } else { B }`: which branch runs depends on the rank / dimensions: both are possible values
            try:
                sv_ = self.ev(cond["e"], env)
            except (Abstain, Unsupported):
                sv_ = ("unk", "")
            pk = cond["pat"]
            while isinstance(pk, dict) and pk.get("k") in ("Deref", "DerefPattern"):
                pk = pk["sub"]
            if sv_[0] in ("dims", "vecA", "opaque") and isinstance(pk, dict) and pk.get("k") in ("Slice", "Array"):
                e2 = Env(env)
                for q in (pk.get("prefix") or []) + (pk.get("suffix") or []) + ([pk["slice"]] if isinstance(pk.get("slice"), dict) else []):
                    for v_, _, _, _ in F.pat_bindings(q):
                        e2[v_] = ("unk", "bound by a slice pattern")
                return self.mk_alt([self.ev(e["then"], e2), self.ev(e["else"], env)])
        if cond.get("k") == "Let" or e.get("else") is None:
            return ("unk", "if-let / if without else")
        # a comparison of two constants (a parameter this evaluation fixed to a number against a literal) is decided
        if cond.get("k") == "Binary" and cond.get("op") in ("Eq", "Ne", "Lt", "Le", "Gt", "Ge"):
            try:
                l_ = self.scalar(self.ev(cond["l"], env))
                r_ = self.scalar(self.ev(cond["r"], env))
                if not isinstance(l_, PW) and not isinstance(r_, PW) and not l_.atoms() and not r_.atoms() and l_.d == Poly.const(1) and r_.d == Poly.const(1):
                    a_, b_ = l_.n.t.get((), 0), r_.n.t.get((), 0)
                    tv = {"Eq": a_ == b_, "Ne": a_ != b_, "Lt": a_ < b_, "Le": a_ <= b_, "Gt": a_ > b_, "Ge": a_ >= b_}[cond["op"]]
                    return self.ev(e["then"] if tv else e["else"], env)
            except (Abstain, Unsupported):
                pass
        t = self.ev(e["then"], env)
        f = self.ev(e["else"], env)
        # `|y| < K` with a positive constant K: a piecewise value whose first piece lives on a non-empty interval around 0
        if cond.get("k") == "Binary" and cond.get("op") in ("Lt", "Le", "Gt", "Ge") and t[0] == "s" and f[0] == "s":
            cl = strip(cond["l"])
            if isinstance(cl, dict) and cl.get("k") == "Call" and (callee(cl) or "").rsplit("::", 1)[-1] == "abs" and cl["args"] \
                    and ("<impl %s>" % self.fl) in (callee(cl) or ""):
                try:
                    inner = self.scalar(self.ev(cl["args"][0], env))
                    bound = self.scalar(self.ev(cond["r"], env))
                except Abstain:
                    return ("unk", "condition outside the algebra")
                pos = False
                if not isinstance(bound, PW) and not isinstance(inner, PW):
                    ats = bound.atoms()
                    if not ats and bound.d == Poly.const(1):
                        pos = bound.n.t.get((), 0) > 0
                    elif ats and all(a.startswith("const+:") for a in ats) and bound.n.single() is not None and bound.n.single()[0] > 0 and bound.d == Poly.const(1):
                        pos = True
                if not pos or isinstance(t[1], PW) or isinstance(f[1], PW):
                    return ("unk", "|x| compared with something that is not a positive constant")
                key = "AbsLt(%r|%r)" % (inner, bound)
                if cond["op"] in ("Lt", "Le"):
                    return ("s", PW(key, t[1], f[1]))
                return ("s", PW(key, f[1], t[1]))
        # a comparison of a scalar with a constant: a piecewise value
        if cond.get("k") == "Binary" and cond.get("op") in ("Gt", "Ge", "Lt", "Le") and t[0] == "s" and f[0] == "s":
            try:
                l = self.scalar(self.ev(cond["l"], env))
                r = self.scalar(self.ev(cond["r"], env))
            except Abstain:
                return ("unk", "condition outside the algebra")
            if isinstance(l, PW) or isinstance(r, PW):
                return ("unk", "nested piecewise condition")
            key = "%s(%r)" % (cond["op"], l - r)
            if isinstance(t[1], PW) or isinstance(f[1], PW):
                return ("unk", "nested piecewise value")
            return ("s", PW(key, t[1], f[1], (cond["op"], l - r)))
        # a conjunction / disjunction of such comparisons
        if cond.get("k") == "LogicalOp" and t[0] == "s" and f[0] == "s" and not isinstance(t[1], PW) and not isinstance(f[1], PW):
            def tree(cn):
                cn = strip(cn)
                if cn.get("k") == "LogicalOp":
                    a_, b_ = tree(cn["l"]), tree(cn["r"])
                    if a_ is None or b_ is None:
                        return None
                    return (cn["op"], [a_, b_])
                if cn.get("k") == "Binary" and cn.get("op") in ("Gt", "Ge", "Lt", "Le"):
                    try:
                        l = self.scalar(self.ev(cn["l"], env))
                        r = self.scalar(self.ev(cn["r"], env))
                    except Abstain:
                        return None
                    if isinstance(l, PW) or isinstance(r, PW):
                        return None
                    return (cn["op"], l - r)
                return None

            def key(cf):
                if cf[0] in ("And", "Or"):
                    return "%s(%s)" % (cf[0], "|".join(key(x_) for x_ in cf[1]))
                return "%s(%r)" % (cf[0], cf[1])
            cf = tree(cond)
            if cf is not None:
                return ("s", PW(key(cf), t[1], f[1], cf))
        # any other condition (tracking flags): both branches are possible values
        return self.mk_alt([t, f])

    def ev_match(self, e, env):
        sv = self.ev(e["scrutinee"], env)
        outs = []
        if sv[0] == "dims" and all(a["pat"].get("k") in ("Slice", "Array", "Binding", "Wild") or
                                   (a["pat"].get("k") in ("Deref", "DerefPattern") and a["pat"]["sub"].get("k") in ("Slice", "Array", "Binding", "Wild")) for a in e["arms"]):
            # a match on the SHAPE (slice patterns over the dimension vector): which arm is taken depends on the rank, so every arm's
            # value is a possible value; a name bound to the whole vector is the vector
            for a in e["arms"]:
                p = a["pat"]
                while p.get("k") in ("Deref", "DerefPattern"):
                    p = p["sub"]
                e2 = Env(env)
                if p.get("k") == "Binding":
                    e2[p["v"]] = sv
                elif p.get("k") in ("Slice", "Array"):
                    for q in (p.get("prefix") or []) + (p.get("suffix") or []) + ([p["slice"]] if isinstance(p.get("slice"), dict) else []):
                        for v_, _, _, _ in F.pat_bindings(q):
                            e2[v_] = ("unk", "an element of the dimension vector bound by a slice pattern")
                outs.append(self.ev(a["body"], e2))
            return self.mk_alt(outs)
        for x in self.alts(sv):
            for a in e["arms"]:
                p = a["pat"]
                while isinstance(p, dict) and p.get("k") in ("Deref", "DerefPattern"):
                    p = p["sub"]
                if p.get("k") == "Variant" and p.get("adt") == OPTION:
                    if p.get("variant") == "Some":
                        if x[0] == "ufn?":
                            inner = ("ufn", x[1])
                        elif x[0] == "opt" and x[1] is not None:
                            inner = x[1]
                        elif x[0] == "opt":
                            continue
                        else:
                            outs.append(("unk", "match on %s" % x[0]))
                            continue
                        e2 = Env(env)
                        for s_ in p.get("subs", []):
                            self.bind(s_["pat"], inner, e2)
                        outs.append(self.ev(a["body"], e2))
                    else:
                        if x[0] == "opt" and x[1] is not None:
                            continue
                        outs.append(self.ev(a["body"], env))
                else:
                    outs.append(("unk", "match arm pattern %s" % p.get("k")))
        return self.mk_alt(outs) if outs else ("unk", "match without value")

    def canon(self, v):
        v = self.force(v)
        if v[0] in ("s", "v", "arr"):
            return repr(v[1])
        if v[0] == "b":
            return "T" if v[1] else "F"
        if v[0] == "tup":
            return "(" + ",".join(self.canon(x) for x in v[1]) + ")"
        if v[0] == "opt":
            return "None" if v[1] is None else "Some(" + self.canon(v[1]) + ")"
        if v[0] in ("opaque", "ufn"):
            return v[1]
        if v[0] == "dims":
            return "dims[%s]" % v[1]
        raise Abstain("argument outside the algebra (%s)" % (v[1] if v[0] == "unk" else v[0]))

    def alts(self, v):
        v = self.force(v)
        if v[0] == "alt":
            out = []
            for x in v[1]:
                out.extend(self.alts(x))
            return out
        return [v]

    def mk_alt(self, vs):
        flat = []
        for v in vs:
            for x in self.alts(v):
                if not any(self.same_val(x, y) for y in flat):
                    flat.append(x)
        return flat[0] if len(flat) == 1 else ("alt", flat)

    def same_val(self, x, y):
        if x[0] != y[0]:
            return False
        if x[0] in ("s", "v", "arr"):
            try:
                return same(x[1], y[1])
            except Unsupported:
                return False
        if x[0] == "opt":
            if x[1] is None or y[1] is None:
                return x[1] is None and y[1] is None
            return self.same_val(self.force(x[1]), self.force(y[1]))
        return x == y

    def map1(self, v, op):
        outs = []
        for x in self.alts(v):
            if x[0] in ("s", "v", "arr"):
                outs.append((x[0], lift1(op, x[1])))
            else:
                outs.append(("unk", "arithmetic on %s" % x[0]))
        return self.mk_alt(outs)

    def arith(self, op, a, b):
        fn = {"Add": lambda x, y: x + y, "Sub": lambda x, y: x - y, "Mul": lambda x, y: x * y, "Div": lambda x, y: x / y}[op]
        outs = []
        for x in self.alts(a):
            for y in self.alts(b):
                if x[0] in ("s", "v", "arr") and y[0] in ("s", "v", "arr"):
                    if op == "Div" and not isinstance(y[1], PW):
                        self.divisors.append(y[1])
                    kind = "arr" if "arr" in (x[0], y[0]) else ("v" if "v" in (x[0], y[0]) else "s")
                    outs.append((kind, lift(fn, x[1], y[1])))
                else:
                    bad = x if x[0] not in ("s", "v", "arr") else y
                    outs.append(("unk", bad[1] if bad[0] == "unk" else "arithmetic on %s" % bad[0]))
        return self.mk_alt(outs)

    # ------------------------------------------------------------ calls
    def apply(self, f, args):
        f = self.force(f)
        if f[0] == "fn":
            if len(args) == 2:
                return self.arith(f[1], self.force(args[0]), self.force(args[1]))
            return ("unk", "function item arity")
        if f[0] == "ufn" and self.uninterp:
            # an uninterpreted function distributes over the alternatives of its arguments
            import itertools
            choices = [self.alts(self.force(a)) for a in args]
            n_comb = 1
            for ch in choices:
                n_comb *= max(1, len(ch))
            outs = []
            if n_comb <= 8:
                for combo in itertools.product(*choices):
                    try:
                        outs.append(("arr", self.alg.atom("call:%s[%s]" % (f[1], "|".join(self.canon(a) for a in combo)))))
                    except Abstain as ex:
                        outs.append(("unk", str(ex)))
                return self.mk_alt(outs)
            return ("unk", "too many alternatives")
        if f[0] != "clo":
            return ("unk", "call of %s" % f[0])
        cb = self.facts.body(f[1])
        if cb is None:
            return ("unk", "closure body missing")
        e2 = Env(f[2])
        ps = [p for p in self.facts.params(cb) if p.get("pat")]
        if len(ps) == 1 and len(args) > 1:
            self.bind(ps[0]["pat"], ("tup", list(args)), e2)
        else:
            for p, a in zip(ps, args):
                self.bind(p["pat"], a, e2)
        return self.ev(self.facts.root(cb), e2)

    def call(self, e, env):
        c = callee(e) or ""
        r = resolved(e) or ""
        args = e["args"]
        cal = e.get("callee") or {}
        fl = self.fl
        # ---- float methods
        if c.startswith("std::%s::<impl %s>::" % (fl, fl)) or c.startswith("core::%s::<impl %s>::" % (fl, fl)) \
                or c.startswith("core::num::<impl %s>::" % fl):
            m = c.rsplit("::", 1)[-1]
            x = self.ev(args[0], env)
            if m == "exp":
                return self.map1(x, self.alg.exp)
            if m == "ln":
                return self.map1(x, self.alg.ln)
            if m == "ln_1p":
                return self.map1(x, lambda v: self.alg.ln(v + Frac(Poly.const(1))))
            if m == "exp_m1":
                return self.map1(x, lambda v: self.alg.exp(v) - Frac(Poly.const(1)))
            if m == "recip":
                for xx in self.alts(x):
                    if xx[0] in ("s", "v", "arr") and not isinstance(xx[1], PW):
                        self.divisors.append(xx[1])
                return self.map1(x, lambda v: v.inv())
            if m in ("powf", "powi") and len(args) == 2:
                p = self.ev(args[1], env)
                if p[0] != "s" or isinstance(p[1], PW):
                    return ("unk", "exponent outside the algebra")
                pl = self.as_linform(p[1])
                if pl is None:
                    return ("unk", "exponent is not a linear form: %r" % (p[1],))
                pc = lf_const(pl)
                if pc is not None and pc < 0:
                    for xx in self.alts(x):
                        if xx[0] in ("s", "v", "arr") and not isinstance(xx[1], PW):
                            self.divisors.append(xx[1])
                elif pc is None and dict(pl).get("", 0) < 0:
                    # `x^(p - 1)`: negative for the parameter values below the constant: a division by x for those
                    for xx in self.alts(x):
                        if xx[0] in ("s", "v", "arr") and not isinstance(xx[1], PW):
                            self.param_divisors = getattr(self, "param_divisors", []) + [(xx[1], pl)]
                return self.map1(x, lambda v: v.powlf(pl))
            if m == "abs":
                # |x|: an opaque function of its argument (never equal to the argument itself)
                def _abs(v):
                    ats = v.atoms() if hasattr(v, "atoms") else None
                    if x[0] == "s" and ats and all(a.startswith("p:") for a in ats):
                        return self.alg.atom("p:abs[%r]" % v)      # a function of scalar parameters only: itself a scalar parameter
                    return self.alg.atom("abs[%r]" % v)
                return self.map1(x, _abs)
            if m == "clamp" and len(args) == 3:
                # x limited to [lo, hi] with finite constant bounds: an opaque function of x that differs from x outside the interval
                lo_, hi_ = lit_value(args[1]), lit_value(args[2])
                if isinstance(lo_, (int, float)) and isinstance(hi_, (int, float)) and lo_ == lo_ and hi_ == hi_ and abs(lo_) != float("inf") and abs(hi_) != float("inf"):
                    def _clamp(v):
                        return self.alg.atom("clamp[%r|%r|%r]" % (v, lo_, hi_))
                    return self.map1(x, _clamp)
                return ("unk", "clamp with bounds that are not finite constants")
            if m in ("copysign",) and len(args) == 2:
                # +-|x| with the sign of the second argument: an opaque value (never equal to anything else)
                y = self.ev(args[1], env)
                try:
                    return ("s", self.alg.atom("copysign[%s|%s]" % (self.canon(x), self.canon(y))))
                except Abstain as ex:
                    return ("unk", str(ex))
            if m in ("max", "min") and len(args) == 2:
                # a clamp: piecewise, with the condition as a symbol (the shape relu uses)
                y = self.ev(args[1], env)
                outs = []
                for xx in self.alts(x):
                    for yy in self.alts(y):
                        if xx[0] not in ("s", "v", "arr") or yy[0] != "s" or isinstance(xx[1], PW) or isinstance(yy[1], PW):
                            outs.append(("unk", "clamp of %s by %s" % (xx[0], yy[0])))
                            continue
                        if m == "max" and not yy[1].atoms():
                            const = yy[1].n.t.get((), 0) if yy[1].d == Poly.const(1) else None
                            if const is not None and const < 0:
                                outs.append(("unk", "lower clamp at a negative constant (outside or at the edge of the domains judged here)"))
                                continue
                        cond = "Gt(%r)" % (xx[1] - yy[1])
                        outs.append((xx[0], PW(cond, xx[1], yy[1]) if m == "max" else PW(cond, yy[1], xx[1])))
                return self.mk_alt(outs)
            if m == "sqrt":
                return self.map1(x, lambda v: v.powlf(lf(__import__("fractions").Fraction(1, 2))))
            return ("unk", "float method %s" % m)
        # ---- arithmetic through the operator traits
        if c in ARITH and len(args) == 2:
            a, b = self.ev(args[0], env), self.ev(args[1], env)
            if cal.get("resolved_local"):
                return self.local_call(e, env, [a, b])
            return self.arith(ARITH[c], a, b)
        if c == "core::ops::arith::Neg::neg" and len(args) == 1:
            a = self.ev(args[0], env)
            if cal.get("resolved_local"):
                return self.local_call(e, env, [a])
            return self.map1(a, lambda v: -v)
        if (self.detach or self.uninterp) and r.startswith("<%s as core::ops::index::Index<" % ARRAY) and args:
            a = self.ev(args[0], env)
            return ("s", self.alg.atom("elem[%r]" % a[1])) if a[0] == "arr" and not isinstance(a[1], PW) else ("unk", "element of %s" % a[0])
        if r == "corgi::array::Array::values" and args:
            a = self.ev(args[0], env)
            return ("v", a[1]) if a[0] == "arr" else ("unk", "values() of %s" % a[0])
        # ---- lossless numeric conversions (From between primitive numbers exists only where every value is representable)
        if c == "core::convert::From::from" and len(args) == 1 and (e.get("ty") or "") in ("f32", "f64") \
                and (strip(args[0]).get("ty") or "") in ("u8", "u16", "u32", "i8", "i16", "i32", "f32", "f64", "bool"):
            return self.ev(args[0], env)
        # ---- value-preserving calls
        if (c in PASS or r in PASS or r == "<%s as core::clone::Clone>::clone" % ARRAY) and args:
            return self.ev(args[0], env)
        if c == "alloc::rc::Rc::<T>::clone" or c.endswith("::clone") and args:
            return self.ev(args[0], env)
        if r.startswith("<%s as core::convert::From<alloc::vec::Vec<%s>>>" % (ARRAY, fl)) and args:
            # a one-value array: under broadcasting it is that value at every position
            from .repr_rules import vec_literal_elems as _vle
            els = _vle(strip(args[0]))
            if els is not None and len(els) == 1:
                sv = self.ev(els[0], env)
                outs = [("arr", x[1]) if x[0] == "s" else ("unk", "one-value array of %s" % x[0]) for x in self.alts(sv)]
                return self.mk_alt(outs)
            return ("unk", "array from a vector")
        if r.startswith(FROM_ARRAY) and args:
            t = self.ev(args[0], env)
            if t[0] == "tup" and len(t[1]) == 2:
                v = self.force(t[1][1])
                outs = []
                for x in self.alts(v):
                    if x[0] != "v":
                        outs.append(("unk", "array built from %s" % x[0]))
                    elif self.detach and getattr(self, "ctor_depth", 0) == 0 and not isinstance(x[1], PW) \
                            and any(a[0] == "a" and a[1:].isdigit() for a in x[1].atoms()):
                        # outside an operation constructor, an array assembled from an operand's numbers is a new leaf: equal in value, without the graph
                        outs.append(("arr", self.alg.atom("det[%r]" % x[1])))
                    else:
                        outs.append(("arr", x[1]))
                return self.mk_alt(outs)
            return ("unk", "array constructor argument")
        # ---- iterator pipelines over element-wise vectors
        if c == "core::iter::traits::iterator::Iterator::zip" and len(args) == 2:
            return ("zip", [self.ev(args[0], env), self.ev(args[1], env)])
        if c == "core::iter::traits::iterator::Iterator::map" and len(args) == 2:
            src = self.ev(args[0], env)
            f = self.ev(args[1], env)
            if src[0] == "v":
                out = self.apply(f, [("s", src[1])])
                outs = [("v", x[1]) if x[0] == "s" else ("unk", x[1] if x[0] == "unk" else "map result %s" % x[0]) for x in self.alts(out)]
                return self.mk_alt(outs)
            if src[0] == "zip":
                out = self.apply(f, [("zip", src[1])])
                outs = [("v", x[1]) if x[0] == "s" else ("unk", x[1] if x[0] == "unk" else "map result %s" % x[0]) for x in self.alts(out)]
                return self.mk_alt(outs)
            return ("unk", "map over %s" % src[0])
        if c in ("core::bool::<impl bool>::then", "core::bool::<impl bool>::then_some") and len(args) == 2:
            v = self.apply(self.ev(args[1], env), []) if c.endswith("::then") else self.ev(args[1], env)
            return self.mk_alt([("opt", v), ("opt", None)])
        if c in ("core::ops::function::Fn::call", "core::ops::function::FnMut::call_mut", "core::ops::function::FnOnce::call_once") and len(args) == 2:
            f = self.ev(args[0], env)
            t = self.ev(args[1], env)
            return self.apply(f, [self.force(x) for x in t[1]] if t[0] == "tup" else [])
        if e.get("fun") is not None and not c:
            pass
        els = vec_literal_elems(e)
        if els is not None:
            return ("vecA", [Lazy(x, env) for x in els])
        if c == "core::ops::index::Index::index" and len(args) == 2:
            base = self.ev(args[0], env)
            i = lit_value(args[1])
            if base[0] == "vecA" and isinstance(i, int) and 0 <= i < len(base[1]):
                return self.force(base[1][i])
            if base[0] == "v":
                if self.detach and not isinstance(base[1], PW):
                    return ("s", self.alg.atom("elem[%r]" % base[1]))
                be = peel(args[0])
                hops_ = 0
                while isinstance(be, dict) and be.get("k") == "Call" and callee(be) in ("core::ops::deref::Deref::deref", "alloc::vec::Vec::<T, A>::as_slice", "core::convert::AsRef::as_ref") and be["args"] and hops_ < 4:
                    be = peel(be["args"][0])
                    hops_ += 1
                whole = isinstance(be, dict) and ((be.get("k") == "Field" and be.get("name") == "values" and be.get("adt") == ARRAY) or
                                                  (be.get("k") == "Call" and resolved(be) == "corgi::array::Array::values"))
                if whole and isinstance(i, int) and not isinstance(base[1], PW) and not (i == 0 and base[1].atoms() and set(base[1].atoms()) <= getattr(self, "single_atoms", set())):
                    return ("s", self.alg.atom("elem%d[%r]" % (i, base[1])))     # a fixed position of an operand's whole buffer: one particular number
                return ("s", base[1])
            return ("unk", "index of %s" % base[0])
        if r == "corgi::array::Array::dimensions":
            a = self.ev(args[0], env) if args else ("unk", "")
            return ("dims", repr(a[1]) if a[0] == "arr" else "?")
        if c in ("core::option::Option::<T>::unwrap_or_else", "core::option::Option::<T>::unwrap_or") and len(args) == 2:
            a = self.ev(args[0], env)
            outs = []
            for x in self.alts(a):
                if x[0] == "opt" and x[1] is not None:
                    outs.append(self.force(x[1]))
                elif x[0] == "opt":
                    d_ = self.ev(args[1], env)
                    outs.append(self.apply(d_, []) if c.endswith("unwrap_or_else") else d_)
                else:
                    outs.append(("unk", "%s on %s" % (c.rsplit("::", 1)[-1], x[0])))
            return self.mk_alt(outs)
        if self.uninterp:
            if c == "core::iter::traits::iterator::Iterator::product" and args:
                a = self.ev(args[0], env)
                if a[0] == "dims":
                    return ("s", self.alg.atom("count[%s]" % a[1]))
            if c == "core::iter::traits::iterator::Iterator::sum" and args:
                a = self.ev(args[0], env)
                if a[0] == "v" and not isinstance(a[1], PW):
                    return ("s", self.alg.atom("sigma[%r]" % a[1]))
                if a[0] == "dims":
                    return ("s", self.alg.atom("dimsum[%s]" % a[1]))
            if c in ("core::slice::<impl [T]>::last", "core::slice::<impl [T]>::first") and args:
                a = self.ev(args[0], env)
                if a[0] == "dims":
                    return ("opt", ("s", self.alg.atom(("dimlast[%s]" if c.endswith("last") else "dim0[%s]") % a[1])))
            if c in ("alloc::vec::Vec::<T, A>::len", "core::slice::<impl [T]>::len") and args:
                a = self.ev(args[0], env)
                if a[0] == "v":
                    return ("s", self.alg.atom("count[%r]" % a[1]))
                if a[0] == "dims":
                    return ("s", self.alg.atom("rank[%s]" % a[1]))
            if c == "core::option::Option::<T>::filter" and len(args) == 2:
                # the predicate is not evaluated: the value is kept for some inputs and dropped for others
                a = self.ev(args[0], env)
                if a[0] == "opt":
                    return a if a[1] is None else self.mk_alt([a, ("opt", None)])
                return ("unk", "Option::filter on %s" % a[0])
            if c == "core::option::Option::<T>::map" and len(args) == 2:
                a = self.ev(args[0], env)
                if a[0] == "opt" and a[1] is not None:
                    return ("opt", self.apply(self.ev(args[1], env), [self.force(a[1])]))
                return ("unk", "Option::map on %s" % a[0])
            if c in ("core::option::Option::<T>::unwrap", "core::option::Option::<T>::as_ref", "core::option::Option::<T>::expect") and args:
                a = self.ev(args[0], env)
                if a[0] == "opt" and a[1] is not None:
                    return self.force(a[1]) if c.endswith("unwrap") or c.endswith("expect") else a
                return a if a[0] == "opt" else ("unk", "option method on %s" % a[0])
            if cal.get("resolved_local"):
                tb = self.facts.body(cal.get("resolved"))
                if tb is not None and tb.get("impl_self") == ARRAY and tb.get("impl_trait_def") is None and (tb.get("name") in UNINTERPRETED or tb.get("name") in getattr(self, "extra_uninterp", ())):
                    import itertools
                    kind = "s" if (tb.get("output") or "") == self.fl else "arr"
                    choices = [self.alts(self.ev(a, env)) for a in args]
                    n_comb = 1
                    for ch in choices:
                        n_comb *= max(1, len(ch))
                    if n_comb > 8:
                        return ("unk", "too many alternatives")
                    outs = []
                    for combo in itertools.product(*choices):
                        try:
                            outs.append((kind, self.alg.atom("%s[%s]" % (tb["name"], "|".join(self.canon(a) for a in combo)))))
                        except Abstain as ex:
                            outs.append(("unk", str(ex)))
                    return self.mk_alt(outs)
        if cal.get("resolved_local"):
            return self.local_call(e, env, [self.ev(a, env) for a in args])
        return ("unk", "call of %s" % (r or c))

    def as_linform(self, fr):
        """a Frac that is `c0 + sum c_i * p_i` over parameter atoms, as a linear form"""
        if fr.d != Poly.const(1):
            return None
        d = {}
        for m, c in fr.n.t.items():
            if not m:
                d[""] = c
            elif len(m) == 1 and m[0][1] == lf(1) and m[0][0].startswith("p:"):
                d[m[0][0]] = c
            else:
                return None
        return tuple(sorted((k, v) for k, v in d.items() if v))

    def local_call(self, e, env, argvals):
        cal = e.get("callee") or {}
        b = self.facts.body(cal.get("resolved"))
        if b is None or not b.get("thir"):
            return ("unk", "no body for %s" % cal.get("resolved"))
        return self.ctor_forward(b, argvals)


# ====================================================================================== rule

def _combinator_result(facts, ev, b, argvals):
    """A private function taking two arrays and a `Fn(Float, Float) -> Float`: element-wise combinator.  Its result is
    f(arrays[i], arrays[j]) where (i, j) is read from the call of `f` inside the sliced closure and the order of the
    operand vector handed to sliced_op."""
    from .engine_rules import SLICED_OP
    ps = [p for p in facts.params(b) if p.get("pat")]
    fl = facts.float or "f64"
    fidx = [i for i, p in enumerate(ps) if ("Fn(%s, %s)" % (fl, fl)) in (p["ty"] or "") or p["ty"] in ("F",)]
    aidx = [i for i, p in enumerate(ps) if p["ty"] in ("&" + ARRAY, ARRAY, "&&" + ARRAY)]
    if len(aidx) != 2 or len(argvals) != len(ps):
        return None
    if not fidx:
        # generic parameter: find it by use (called with two float arguments)
        fidx = [i for i, p in enumerate(ps) if i not in aidx and p["pat"].get("k") == "Binding" and "Fn" not in p["ty"] and p["ty"] not in ("usize", fl)
                and "Rc<" not in p["ty"]]
    if len(fidx) != 1:
        return None
    fvar = ps[fidx[0]]["pat"].get("v")
    avars = [ps[i]["pat"].get("v") for i in aidx]
    # operand vector given to sliced_op
    order = None
    for n in walk(facts.root(b)):
        if n.get("k") == "Call" and resolved(n) == SLICED_OP:
            els = vec_literal_elems(n["args"][0])
            if els is not None and len(els) == 2:
                order = [F.var_of(x) for x in els]
    if order is None or sorted(order, key=str) != sorted(avars, key=str):
        return None
    # every call f(p, q) inside the nested closures: p and q must each be an element of arrays[0] / arrays[1]
    # (directly `arrays[i][..]`, a let of that, or a pattern variable of a zip over the operand slices)
    pairs = []
    for nb in facts.nested(b):
        if nb is b:
            continue
        cps = [p for p in facts.params(nb) if p.get("pat")]
        arrays_var = cps[1]["pat"].get("v") if len(cps) >= 2 and cps[1]["pat"].get("k") == "Binding" else None
        if arrays_var is None:
            continue
        origin = {}

        def operand_of(x, depth=0):
            """index of the operand slice an expression takes an element from, or None"""
            x = peel(x)
            if not isinstance(x, dict) or depth > 6:
                return None
            if x.get("k") in ("VarRef", "UpvarRef"):
                return origin.get(x["v"])
            if x.get("k") == "Index":
                inner = peel(x["e"])
                if isinstance(inner, dict) and inner.get("k") == "Index" and F.var_of(inner["e"]) == arrays_var:
                    return lit_value(inner["i"])
                return operand_of(x["e"], depth + 1)
            if x.get("k") == "Call" and callee(x) in ("core::ops::index::Index::index",) and len(x["args"]) == 2:
                return operand_of(x["args"][0], depth + 1)
            return None

        def slice_of(x):
            """index i if the iterator expression runs over arrays[i]"""
            x = peel(x)
            while isinstance(x, dict) and x.get("k") == "Call" and (callee(x) or "") in (
                    "core::slice::<impl [T]>::iter", "core::iter::traits::collect::IntoIterator::into_iter", "core::iter::traits::iterator::Iterator::copied",
                    "core::iter::traits::iterator::Iterator::cloned", "core::ops::deref::Deref::deref") and x["args"]:
                x = peel(x["args"][0])
            if isinstance(x, dict) and x.get("k") == "Index" and F.var_of(x["e"]) == arrays_var:
                return lit_value(x["i"])
            return None

        def zip_sources(x):
            x = peel(x)
            if isinstance(x, dict) and x.get("k") == "Call" and callee(x) == "core::iter::traits::iterator::Iterator::zip" and len(x["args"]) == 2:
                return zip_sources(x["args"][0]) + [x["args"][1]]
            if isinstance(x, dict) and x.get("k") == "Call" and callee(x) in ("core::iter::traits::collect::IntoIterator::into_iter",) and x["args"]:
                return zip_sources(x["args"][0])
            return [x]

        def zip_pattern(p):
            while isinstance(p, dict) and p.get("k") in ("Deref", "DerefPattern"):
                p = p["sub"]
            if isinstance(p, dict) and p.get("k") == "Leaf" and len(p["subs"]) == 2:
                return zip_pattern(p["subs"][0]["pat"]) + [p["subs"][1]["pat"]]
            return [p]
        root_nb = facts.root(nb)
        for n in walk(root_nb):
            if n.get("k") == "Block":
                for st in n["stmts"]:
                    if st["s"] == "let" and st["pat"].get("k") == "Binding" and st.get("init") is not None:
                        o = operand_of(st["init"])
                        if o is not None:
                            origin[st["pat"]["v"]] = o
            fl = F.for_loop_parts(n)
            if fl:
                srcs, pats = zip_sources(fl[0]), zip_pattern(fl[1])
                if len(srcs) == len(pats):
                    for sx, px in zip(srcs, pats):
                        si = slice_of(sx)
                        if si is not None:
                            for v, _, _, _ in F.pat_bindings(px):
                                origin[v] = si
        for n in walk(root_nb):
            if n.get("k") == "Call" and callee(n) in ("core::ops::function::Fn::call", "core::ops::function::FnMut::call_mut") and F.var_of(n["args"][0]) == fvar:
                t = strip(n["args"][1])
                if t.get("k") == "Tuple" and len(t["fields"]) == 2:
                    pairs.append([operand_of(fld) for fld in t["fields"]])
                else:
                    pairs.append([None, None])
    if not pairs or any(None in p_ for p_ in pairs):
        return None
    import itertools as _it
    outs = []
    for pair in pairs:
        choices = []
        for i in pair:
            if not isinstance(i, int) or not (0 <= i < len(order)):
                return None
            v = order[i]
            choices.append(ev.alts(argvals[aidx[avars.index(v)]]))
        n_comb = 1
        for ch in choices:
            n_comb *= max(1, len(ch))
        if n_comb > 8:
            return ("unk", "too many alternatives for the combinator's operands")
        for combo in _it.product(*choices):
            bad = [a for a in combo if a[0] != "arr"]
            if bad:
                outs.append(("unk", "combinator operand is %s" % bad[0][0]))
                continue
            out = ev.apply(argvals[fidx[0]], [("s", a[1]) for a in combo])
            outs.extend(("arr", x[1]) if x[0] == "s" else ("unk", x[1] if x[0] == "unk" else "combinator result %s" % x[0]) for x in ev.alts(out))
    return ev.mk_alt(outs)


class Forward:
    def __init__(self, facts):
        self.facts = facts
        self.alg = Algebra()
        self.ev = SymEval(facts, self.alg, self.call)
        self.stack = []

    def call(self, b, argvals):
        """value of a call of the crate-local function b with the given argument values"""
        if b["def"] in self.stack or len(self.stack) > 6:
            return ("unk", "recursive call of %s" % b.get("name"))
        comb = _combinator_result(self.facts, self.ev, b, argvals)
        if comb is not None:
            return comb
        self.stack.append(b["def"])
        if not hasattr(self, "_ctor_defs"):
            from .op_rules import op_constructors, ATTACH_PRIMITIVES
            self._ctor_defs = {x["def"] for x in op_constructors(self.facts)} | set(ATTACH_PRIMITIVES)
        is_ctor = b["def"] in self._ctor_defs or any(is_backward_closure(nb) for nb in self.facts.nested(b))
        if not is_ctor:
            # ... or hands the array it builds to a private helper that attaches the graph to it
            from .op_rules import attachment_calls
            for n_ in walk(self.facts.root(b)):
                if n_.get("k") == "Call" and (n_.get("callee") or {}).get("resolved_local"):
                    hb = self.facts.body(resolved(n_))
                    if hb is not None and hb["kind"] in ("Fn", "AssocFn") and not hb.get("reachable") and hb.get("impl_trait_def") is None and attachment_calls(hb, self.facts):
                        is_ctor = True
                        break
        if is_ctor:
            self.ev.ctor_depth = getattr(self.ev, "ctor_depth", 0) + 1
        try:
            env = Env(None)
            ps = [p for p in self.facts.params(b) if p.get("pat")]
            for p, a in zip(ps, argvals):
                self.ev.bind(p["pat"], a, env)
            root = self.facts.root(b)
            if any(x.get("k") == "Return" for x in walk(root)):
                import copy
                from .inline import eliminate_returns
                r2 = copy.deepcopy(root)
                if eliminate_returns(r2):
                    root = r2
            return self.ev.ev(root, env)
        finally:
            self.stack.pop()
            if is_ctor:
                self.ev.ctor_depth -= 1

    def ctor(self, b):
        """(value of the result, parameter atoms) for an operation constructor evaluated on generic operands"""
        ps = [p for p in self.facts.params(b) if p.get("pat")]
        argvals = []
        names = {}
        n_arr = 0
        fl = self.facts.float or "f64"
        for p in ps:
            ty = p["ty"]
            nm = p["pat"].get("name", "?")
            if ty in ("&" + ARRAY, ARRAY, "&&" + ARRAY):
                argvals.append(("arr", self.alg.atom("a%d" % n_arr)))
                names[nm] = "a%d" % n_arr
                n_arr += 1
            elif ty == fl:
                argvals.append(("s", self.alg.atom("p:" + nm)))
            else:
                argvals.append(("unk", "parameter %s: %s" % (nm, ty)))
        return self.call(b, argvals), names, n_arr


def _introduced_singularity(divisors, want):
    """an operand atom the closure divides by (as a bare monomial) although the simplified derivative has no negative power of it"""
    if want.d != Poly.const(1):
        return None
    for d in divisors:
        if d.d != Poly.const(1):
            continue
        s_ = d.n.single()
        if s_ is None:
            continue
        for a, e in s_[1]:
            if not (a.startswith("a") and a[1:].isdigit()):
                continue
            ec = lf_const(e)
            if ec is not None and ec <= 0:
                continue
            # exponents of this atom in the wanted derivative
            neg = False
            for m, _c in want.n.t.items():
                for a2, e2 in m:
                    if a2 == a:
                        c2 = lf_const(e2)
                        if c2 is not None and c2 < 0:
                            neg = True
            if not neg:
                return a
    return None


def r33_derivative_formula(facts):
    """DERIVATIVE-FORMULA: for every element-wise operation, each slot of the backward closure equals adjoint x d(forward scalar map)/d(operand) as rational functions (symbolic differentiation of the forward map read from the source; exact algebra, nothing is executed)"""
    from .op_rules import op_constructors
    from . import trackeval as TE
    c = Ctx("R33", facts, "element-wise operations: backward slot = adjoint x derivative of the forward map")
    ctors = op_constructors(facts)
    c.floor("operation constructors", len(ctors), 17)
    n_ok = 0
    for b in ctors:
        closures = [cb for cb in facts.closures() if is_backward_closure(cb) and cb.get("root") == b["def"]]
        if len(closures) != 1:
            continue
        cb = closures[0]
        name = b["def"]
        where = "%s:%d" % (F.rel(cb["file"]), cb["sp"][0])
        fw = Forward(facts)

        def unread_exits():
            """early returns of a derivative closure whose value this rule cannot compare with anything: a second route by which operands receive their adjoints"""
            for rn in walk(facts.root(cb)):
                if rn.get("k") == "Return" and rn.get("e") is not None and any(
                        x.get("k") == "Adt" and (x.get("adt") or "").endswith("option::Option") and x.get("variant") == "Some" for x in walk(rn["e"])):
                    c.unk("early-return:%s" % name, F.loc(cb, rn), "the derivative closure has a second exit (`return %s`) that delivers adjoints computed another way; this operation is not one whose "
                          "derivative this rule reads, so what that exit delivers is not compared with anything" % show(rn["e"])[:50])
        try:
            val, names, n_arr = fw.ctor(b)
        except (Abstain, Unsupported, RecursionError) as ex:
            c.ok("forward:%s" % name, where, "not an element-wise operation the algebra can read (%s): not judged by this rule" % ex, nontrivial=False)
            unread_exits()
            continue
        vals = [x for x in fw.ev.alts(val)]
        if len(vals) != 1 or vals[0][0] != "arr":
            why = vals[0][1] if vals and vals[0][0] == "unk" else "several possible values"
            c.ok("forward:%s" % name, where, "forward value is not an element-wise expression (%s): not judged by this rule" % str(why)[:80], nontrivial=False)
            unread_exits()
            continue
        fexpr = vals[0][1]
        # operand recorded in slot i
        rows, variables, err = TE.evaluate_constructor(facts, b)
        order = None
        if rows:
            for asg, res, e_, _ in rows:
                if isinstance(res, TE.Arr) and res.tracked and res.children and all(k is not None for k in res.children):
                    order = list(res.children)
                    break
        if order is None or any(k not in names for k in order):
            c.unk("order:%s" % name, where, "cannot tell which operand each slot belongs to (%s)" % (order,))
            continue
        slots, tvar, why = closure_slots(facts, cb)
        if slots is None or (slots and slots[0].get("k") == "UniformGated"):
            c.unk("slots:%s" % name, where, "slot vector not recognised: %s" % why)
            continue
        # environment of the closure: the constructor's lets evaluated with the same atoms
        ev = fw.ev
        env0 = Env(None)
        ps = [p for p in facts.params(b) if p.get("pat")]
        fl = facts.float or "f64"
        n_a = 0
        for p in ps:
            ty = p["ty"]
            nm = p["pat"].get("name", "?")
            if ty in ("&" + ARRAY, ARRAY, "&&" + ARRAY):
                ev.bind(p["pat"], ("arr", fw.alg.atom("a%d" % n_a)), env0)
                n_a += 1
            elif ty == fl:
                ev.bind(p["pat"], ("s", fw.alg.atom("p:" + nm)), env0)
            else:
                ev.bind(p["pat"], ("unk", "parameter %s" % nm), env0)
        croot = strip(facts.root(b))
        cenv = ev.block_env(croot, env0) if croot.get("k") == "Block" else env0
        from .shape_rules import _env_at_node
        target = None
        for n in walk(facts.root(b)):
            if n.get("k") == "Closure" and n.get("closure") == cb["def"]:
                target = n
        denv = _env_at_node(facts, ev, facts.root(b), target, cenv) if target is not None and cb.get("parent") == b["def"] else None
        if denv is None:
            c.unk("env:%s" % name, where, "the closure is not created directly in the constructor")
            continue
        e2 = Env(denv)
        cps = [p for p in facts.params(cb) if p.get("pat")]
        operands = [("arr", fw.alg.atom(names[k])) for k in order]
        D = fw.alg.atom("D")
        pv = [("vecA", operands), ("vecA", [("unk", "flag")] * len(order)), ("arr", D)]
        for p, v in zip(cps, pv):
            ev.bind(p["pat"], v, e2)
        broot = strip(facts.root(cb))
        benv = ev.block_env(broot, e2) if broot.get("k") == "Block" else e2
        # early returns of the closure deliver slot vectors too: each is what the operands receive for the inputs its guard admits
        from .repr_rules import vec_literal_elems as _vle
        import re as _re2
        for rn, rctx in F.walk_ctx(broot):
            if rn.get("k") != "Return" or rn.get("e") is None:
                continue
            # operands the guard of this return declares to hold ONE value (`c[k].values.len() == 1`): for them the first element is the element
            single = set()
            for cond, truth in F.path_facts(rctx):
                for cs in ([strip(cond)] if truth else []):
                    stack_ = [cs]
                    while stack_:
                        q = stack_.pop()
                        if not isinstance(q, dict):
                            continue
                        if q.get("k") == "LogicalOp" and q.get("op") == "And":
                            stack_ += [strip(q["l"]), strip(q["r"])]
                        elif q.get("k") == "Binary" and q.get("op") == "Eq" and (lit_value(q["r"]) == 1 or lit_value(q["l"]) == 1):
                            side = q["l"] if lit_value(q["r"]) == 1 else q["r"]
                            try:
                                sv_ = ev.ev(side, benv)
                            except (Abstain, Unsupported, RecursionError):
                                sv_ = ("unk", "")
                            for lenx in walk(side):
                                if lenx.get("k") == "Call" and (callee(lenx) or "").endswith("::len") and lenx["args"]:
                                    try:
                                        bv_ = ev.ev(lenx["args"][0], benv)
                                    except (Abstain, Unsupported, RecursionError):
                                        bv_ = ("unk", "")
                                    if bv_[0] == "v" and not isinstance(bv_[1], PW) and len(bv_[1].atoms()) == 1:
                                        single |= set(bv_[1].atoms())
            rel_ = _vle(strip(rn["e"]))
            if rel_ is None or len(rel_) < len(order):
                c.unk("early-return:%s" % name, F.loc(cb, rn), "the derivative closure returns early with a value that is not a slot vector literal (`%s`): what the operands receive on that path is not read" % show(rn["e"])[:60])
                continue
            for i, se in enumerate(rel_[:len(order)]):
                atom = names[order[i]]
                try:
                    ev.single_atoms = set(single)      # for these operands the first element IS the element
                    try:
                        v = ev.ev(se, benv)
                    finally:
                        ev.single_atoms = set()
                    got = []
                    for x in ev.alts(v):
                        if x[0] == "opt":
                            if x[1] is not None:
                                got.extend(ev.alts(x[1]))
                        else:
                            got.append(x)
                    want = lift(lambda x, y: x * y, lift1(lambda f_: fw.alg.diff(f_, atom), fexpr), D)
                    stray = sorted({a_ for x in got if x[0] == "arr" and not isinstance(x[1], PW) for a_ in x[1].atoms() if _re2.match(r"elem\d+\[a\d+\]$", a_)})
                    if not got:
                        c.unk("early-return:%s#%d" % (name, i), F.loc(cb, se), "on an early return operand %d receives nothing; whether its guard implies that the operand is untracked is not decided" % i)
                    elif all(x[0] == "arr" for x in got) and all(same(x[1], want) for x in got):
                        c.ok("early-return:%s#%d" % (name, i), F.loc(cb, se), "the early return delivers the same D * d/d%s as the general path%s" % (atom, " (one-value operands: %s)" % sorted(single) if single else ""))
                    elif stray and not isinstance(want, PW) and not any(a_ in want.atoms() for a_ in stray):
                        c.bad("early-return:%s#%d" % (name, i), F.loc(cb, se), "an early return delivers `%s` to operand %d, which uses ONE fixed element (`%s`) of an operand its guard does not restrict to one value, "
                              "where the derivative %r varies with the position: wrong as soon as that operand has two different elements" % (show(se)[:50], i, stray[0], want))
                    else:
                        c.unk("early-return:%s#%d" % (name, i), F.loc(cb, se), "an early return delivers `%s` to operand %d where the derivative is %r: whether the guard of the return makes the two equal "
                              "is not decided" % (show(se)[:50], i, want))
                except (Abstain, Unsupported, RecursionError) as ex:
                    c.unk("early-return:%s#%d" % (name, i), F.loc(cb, se), "an early return delivers a value outside the algebra to operand %d (%s)" % (i, ex))
        for i, se in enumerate(slots[:len(order)]):
            inst = "slot:%s#%d" % (name, i)
            swhere = F.loc(cb, se)
            atom = names[order[i]]
            try:
                ev.divisors = []
                v = ev.ev(se, benv)
                divisors = list(ev.divisors)
                got = []
                for x in ev.alts(v):
                    if x[0] == "opt":
                        if x[1] is None:
                            continue
                        got.extend(ev.alts(x[1]))
                    else:
                        got.append(x)
                bad = [x for x in got if x[0] != "arr"]
                if bad or not got:
                    c.unk(inst, swhere, "slot expression outside the algebra (%s)" % (str(bad[0][1])[:90] if bad else "no value"))
                    continue
                want = lift(lambda x, y: x * y, lift1(lambda f_: fw.alg.diff(f_, atom), fexpr), D)
                okk = all(same(x[1], want) for x in got)
                sing = _introduced_singularity(divisors, want) if okk and not isinstance(want, PW) else None
                if okk and sing:
                    c.bad(inst, swhere, "the closure divides by `%s`, which the derivative %r does not: equal as formulas, but 0/0 (NaN) where that operand element is 0 "
                          "while the true derivative is finite there" % (sing, want))
                elif okk:
                    n_ok += 1
                    c.ok(inst, swhere, "slot = D * d/d%s (%r) = %r" % (atom, fexpr, want))
                else:
                    risky = any(a.startswith("ln[") for x in got if not isinstance(x[1], PW) for a in x[1].atoms())
                    off_ = got[0]
                    for x_ in got:
                        try:
                            if not same(x_[1], want):
                                off_ = x_
                                break
                        except Unsupported:
                            pass
                    msg = "the forward map is %r, so the delta for operand %d must be %r, but the closure computes %r%s" % (
                        fexpr, i, want, off_[1], " for some inputs (one of %d alternatives)" % len(got) if len(got) > 1 else "")
                    if risky:
                        c.unk(inst, swhere, msg + " (involves ln: identities of ln are not decided)")
                    else:
                        c.bad(inst, swhere, msg)
            except (Abstain, Unsupported, RecursionError) as ex:
                c.unk(inst, swhere, "outside the algebra: %s" % ex)
    c.count("slots proved equal to adjoint x derivative", n_ok)
    return c
